(* The verification backend's target language at the level of one atom: its configuration `vb`
   (the class attributes of impl/c01.py make_backend, as data for Model/Leaf.v) and the reader of an
   atom by the target language's own rules - delimiters, field names (quoted with escapes or a bare
   word), operator keywords, quoted string literals (Spec/Items.v qread), escaped regular
   expressions, numbers. The reader is the specification: what a consumer of the query understands. *)
From Coq Require Import NArith List Bool String Ascii.
From PS Require Import Base.Chars Base.Outcome Model.SString Model.StrOp Model.FieldName Model.Leaf Spec.Items.
Import ListNotations.
Open Scope N_scope.

Definition s (x : string) : str := map N_of_ascii (list_ascii_of_string x).

Definition c_lq : char := 171.   (* left guillemet: opens an atom *)
Definition c_rq : char := 187.   (* right guillemet: closes an atom *)
Definition c_sq : char := 39.    (* field quote *)
Definition c_bang : char := 33.
Definition c_comma : char := 44.

(* ---------------------------------------------------------------------------------------------- *)
(* configuration of the verification backend; the flags are those drawn by the generator *)
Record vbk := {
  k_sw : bool; k_ew : bool; k_ct : bool; k_special : bool; k_wm : bool; k_cs : bool;
  k_cidr : bool; k_nexists : bool;
  k_qpat : option bool        (* str_quote_pattern set (with this negation flag): values may be bare *)
}.
Definition d (x : str) : tpl := [SL [c_lq]] ++ [SL x] ++ [SL [c_rq]].
(* «{field}OP{value}» *)
Definition t_fv (op : string) : tpl := [SL [c_lq]; SV K_field; SL (s op); SV K_value; SL [c_rq]].
Definition opt (b : bool) (t : tpl) : option tpl := if b then Some t else None.
Definition t_re (op : string) : tpl :=
  [SL [c_lq]; SV K_field; SL (s op); SV K_regex; SL (s "/"); SV K_flag_i; SV K_flag_m; SV K_flag_s; SL [c_rq]].
Definition t_ff (op : string) : tpl := [SL [c_lq]; SV K_field1; SL (s op); SV K_field2; SL [c_rq]].
Definition t_fun (name : string) : tpl := [SL [c_lq]; SL (s name); SV K_field; SL (s ")"); SL [c_rq]].

Definition vb_e : ecfg :=
  {| e_esc := Some c_bs; e_multi := Some [c_star]; e_single := Some [c_qm];
     e_add := [c_bs; c_lq; c_rq; c_eq; 126]; e_filter := [] |}.
Definition vb_f : fcfg := {| f_quote := Some c_sq; f_escape := Some [c_bs]; f_escape_quote := true |}.
Definition vb_cmp (o : cmpop) : str :=
  match o with CLt => s "<" | CLte => s "<=" | CGt => s ">" | CGte => s ">=" | CNeq => s "<>" end.
Definition vb_parts : list (N * str) :=
  [(0, s "minute"); (1, s "hour"); (2, s "day"); (3, s "week"); (4, s "month"); (5, s "year")].

Definition vb (k : vbk) : lcfg := {|
  l_f := vb_f; l_e := vb_e; l_quote := [c_dq]; l_quote_pat := k_qpat k; l_add_escaped_re := [];
  l_re_escape := [[c_slash]; [c_lq]; [c_rq]]; l_re_ec := [c_bs]; l_re_eec := true; l_re_flag_prefix := false;
  l_re_fi := Some (s "i"); l_re_fm := Some (s "m"); l_re_fs := Some (s "s");
  l_eq_token := s "=";
  l_true := Some (s "true"); l_false := Some (s "false");
  l_cmp_ops := Some vb_cmp;
  l_eq := Some (t_fv "="); l_neq := Some (t_fv "!=");
  l_sw := opt (k_sw k) (t_fv " startswith "); l_nsw := opt (k_sw k) (t_fv " !startswith ");
  l_ew := opt (k_ew k) (t_fv " endswith "); l_new := opt (k_ew k) (t_fv " !endswith ");
  l_ct := opt (k_ct k) (t_fv " contains "); l_nct := opt (k_ct k) (t_fv " !contains ");
  l_wm := opt (k_wm k) (t_fv " match ");
  l_sw_sp := k_special k; l_ew_sp := k_special k; l_ct_sp := k_special k;
  l_csm := Some (t_fv " cmatch ");
  l_csw := opt (k_cs k) (t_fv " cstartswith "); l_ncsw := opt (k_cs k) (t_fv " !cstartswith ");
  l_cew := opt (k_cs k) (t_fv " cendswith "); l_ncew := opt (k_cs k) (t_fv " !cendswith ");
  l_cct := opt (k_cs k) (t_fv " ccontains "); l_ncct := opt (k_cs k) (t_fv " !ccontains ");
  l_csw_sp := k_special k; l_cew_sp := k_special k; l_cct_sp := k_special k;
  l_re := Some (t_re "=~/"); l_nre := Some (t_re "!~/");
  l_cidr := opt (k_cidr k) [SL [c_lq]; SL (s "cidr("); SV K_field; SL (s ","); SV K_value; SL (s ")"); SL [c_rq]];
  l_ncidr := opt (k_cidr k) [SL [c_lq]; SL (s "!cidr("); SV K_field; SL (s ","); SV K_value; SL (s ")"); SL [c_rq]];
  l_cmp := Some [SL [c_lq]; SV K_field; SV K_operator; SV K_value; SL [c_rq]];
  l_null := Some [SL [c_lq]; SV K_field; SL (s " is null"); SL [c_rq]];
  l_exists := Some (t_fun "exists(");
  l_nexists := opt (k_nexists k) (t_fun "notexists(");
  l_ff := Some (t_ff "=="); l_ffsw := Some (t_ff " fstartswith "); l_ffew := Some (t_ff " fendswith ");
  l_ffct := Some (t_ff " fcontains ");
  l_ff_q1 := true; l_ff_q2 := true;
  l_ts := Some [SL [c_lq]; SV K_field; SL (s "."); SV K_tspart; SL [c_rq]]; l_ts_map := vb_parts;
  l_ub_str := Some [SL [c_lq]; SL (s "_="); SV K_value; SL [c_rq]];
  l_ub_num := Some [SL [c_lq]; SL (s "_ num "); SV K_value; SL [c_rq]];
  l_ub_re := Some [SL [c_lq]; SL (s "_=~/"); SV K_value; SL (s "/"); SV K_flag_i; SV K_flag_m; SV K_flag_s; SL [c_rq]];
  l_in := Some [SL [c_lq]; SV K_field; SL (s " "); SV K_op; SL (s " ("); SV K_list; SL (s ")"); SL [c_rq]];
  l_or_in_op := s "in"; l_and_in_op := s "contains-all"; l_list_sep := Some (s ", ")
|}.

(* ---------------------------------------------------------------------------------------------- *)
(* what an atom says *)
Inductive apred :=
| AStr (cased : bool) (op : sop) (l : list item)       (* string match: operator and operand *)
| ATok (txt : str)                                     (* field = bare token (number, true, false) *)
| ANull
| ARe (rx : str) (fi fm fs : bool)
| ACidr (net : str)
| ACmp (op : cmpop) (txt : str)
| ACmpTs (op : cmpop) (part : str) (txt : str)
| ATs (part : str) (txt : str)
| AExists
| AFieldRef (f2 : str) (sw ew : bool)
| AQx (id : str).                                       (* query expression of a placeholder: field qx id *)
Record atom := { a_neg : bool; a_field : str; a_pred : apred }.

(* ---------------------------------------------------------------------------------------------- *)
(* field names: 'quoted with \ escapes' or a bare word; returns name, whether quoted, and the rest *)
Fixpoint fq_read (x : str) : option (str * str) :=
  match x with
  | [] => None
  | c :: x' =>
      if N.eqb c c_bs then
        match x' with
        | e :: x'' => match fq_read x'' with Some (f, r) => Some (e :: f, r) | None => None end
        | [] => None
        end
      else if N.eqb c c_sq then Some ([], x')
      else match fq_read x' with Some (f, r) => Some (c :: f, r) | None => None end
  end.
Fixpoint span (W : char -> bool) (x : str) : str * str :=
  match x with
  | c :: x' => if W c then let '(a, b) := span W x' in (c :: a, b) else ([], x)
  | [] => ([], [])
  end.
Definition fprefix (W : char -> bool) (x : str) : option (str * bool * str) :=
  match x with
  | c :: x' =>
      if N.eqb c c_sq then match fq_read x' with Some (f, r) => Some (f, true, r) | None => None end
      else match span W x with
           | ([], _) => None
           | (w, r) => Some (w, false, r)
           end
  | [] => None
  end.

(* split at the last closing delimiter *)
Fixpoint split_last_rq (x : str) : option (str * str) :=
  match x with
  | [] => None
  | c :: x' =>
      match split_last_rq x' with
      | Some (b, r) => Some (c :: b, r)
      | None => if N.eqb c c_rq then Some ([], x') else None
      end
  end.

(* escaped regular expression up to the first unescaped '/', then the flags *)
Definition rx_escaped : str := [c_slash; c_lq; c_rq; c_bs].
Fixpoint rx_read (x : str) : option (str * str) :=
  match x with
  | [] => None
  | c :: x' =>
      if N.eqb c c_bs then
        match x' with
        | e :: x'' =>
            if mem e rx_escaped then match rx_read x'' with Some (r, t) => Some (e :: r, t) | None => None end
            else match rx_read x' with Some (r, t) => Some (c :: r, t) | None => None end
        | [] => None
        end
      else if N.eqb c c_slash then Some ([], x')
      else match rx_read x' with Some (r, t) => Some (c :: r, t) | None => None end
  end.
Definition take_flag (c : char) (x : str) : bool * str :=
  match x with y :: x' => if N.eqb y c then (true, x') else (false, x) | [] => (false, x) end.
Definition flags_read (x : str) : option (bool * bool * bool) :=
  let '(fi, x1) := take_flag 105 x in
  let '(fm, x2) := take_flag 109 x1 in
  let '(fs, x3) := take_flag 115 x2 in
  match x3 with [] => Some (fi, fm, fs) | _ => None end.

(* string literal: always quoted in this backend *)
Definition vb_q : ecfg := with_quote vb_e c_dq.
Definition str_read (x : str) : option (list item) :=
  match x with
  | c :: _ => if N.eqb c c_dq then qread vb_q c_dq x else tread vb_q x
  | [] => Some []
  end.

(* ---------------------------------------------------------------------------------------------- *)
(* operators after a field name; tried in this order (longer spellings first) *)
Inductive okind :=
| KStr (neg cased : bool) (op : sop)
| KRe (neg : bool)
| KFF (sw ew : bool)
| KCmp (op : cmpop)
| KNull
| KNum
| KQx.
Definition optable : list (str * okind) :=
  [ (s " startswith ", KStr false false OpStartswith); (s " !startswith ", KStr true false OpStartswith);
    (s " endswith ", KStr false false OpEndswith);     (s " !endswith ", KStr true false OpEndswith);
    (s " contains ", KStr false false OpContains);     (s " !contains ", KStr true false OpContains);
    (s " match ", KStr false false OpWildMatch);
    (s " cmatch ", KStr false true OpEq);
    (s " cstartswith ", KStr false true OpStartswith); (s " !cstartswith ", KStr true true OpStartswith);
    (s " cendswith ", KStr false true OpEndswith);     (s " !cendswith ", KStr true true OpEndswith);
    (s " ccontains ", KStr false true OpContains);     (s " !ccontains ", KStr true true OpContains);
    (s " fstartswith ", KFF true false); (s " fendswith ", KFF false true); (s " fcontains ", KFF true true);
    (s " is null", KNull); (s " num ", KNum); (s " qx ", KQx);
    (s "=~/", KRe false); (s "!~/", KRe true);
    (s "==", KFF false false);
    (s "!=", KStr true false OpEq);
    (s "=", KStr false false OpEq);
    (s "<=", KCmp CLte); (s ">=", KCmp CGte); (s "<>", KCmp CNeq); (s "<", KCmp CLt); (s ">", KCmp CGt) ].
Fixpoint find_op (tbl : list (str * okind)) (x : str) : option (okind * str) :=
  match tbl with
  | [] => None
  | (lit, k) :: r => if prefixb lit x then Some (k, skipn (List.length lit) x) else find_op r x
  end.

Definition dec_op (W : char -> bool) (f : str) (rest : str) : option atom :=
  match find_op optable rest with
  | Some (KStr neg cased op, v) =>
      match str_read v with
      | Some l => Some {| a_neg := neg; a_field := f; a_pred := AStr cased op l |}
      | None => None
      end
  | Some (KRe neg, v) =>
      match rx_read v with
      | Some (rx, fl) =>
          match flags_read fl with
          | Some (fi, fm, fs) => Some {| a_neg := neg; a_field := f; a_pred := ARe rx fi fm fs |}
          | None => None
          end
      | None => None
      end
  | Some (KFF sw ew, v) =>
      match fprefix W v with
      | Some (f2, _, []) => Some {| a_neg := false; a_field := f; a_pred := AFieldRef f2 sw ew |}
      | _ => None
      end
  | Some (KCmp op, v) =>
      match v with
      | _ :: _ => Some {| a_neg := false; a_field := f; a_pred := ACmp op v |}
      | [] => None
      end
  | Some (KNull, []) => Some {| a_neg := false; a_field := f; a_pred := ANull |}
  | Some (KNum, (_ :: _) as v) => Some {| a_neg := false; a_field := f; a_pred := ATok v |}
  | Some (KQx, (_ :: _) as v) => Some {| a_neg := false; a_field := f; a_pred := AQx v |}
  | _ => None
  end.

Definition dec_cidr (neg : bool) (x : str) : option atom :=
  let '(f, r) := span (fun c => negb (N.eqb c c_comma)) x in
  match r with
  | _ :: net =>
      match rev net with
      | c :: tn => if N.eqb c c_rpar then Some {| a_neg := neg; a_field := f; a_pred := ACidr (rev tn) |} else None
      | [] => None
      end
  | [] => None
  end.
Definition dec_exists (W : char -> bool) (neg : bool) (x : str) : option atom :=
  match fprefix W x with
  | Some (f, _, [c]) => if N.eqb c c_rpar then Some {| a_neg := neg; a_field := f; a_pred := AExists |} else None
  | _ => None
  end.

Definition dec_body (W : char -> bool) (body : str) : option atom :=
  match body with
  | [] => None
  | c :: b' =>
      if N.eqb c c_bang then
        if prefixb (s "cidr(") b' then dec_cidr true (skipn 5 b') else None
      else
        match fprefix W body with
        | Some (f, quoted, rest) =>
            match rest with
            | e :: rest' =>
                if N.eqb e c_lpar && negb quoted then
                  if str_eqb f (s "cidr") then dec_cidr false rest'
                  else if str_eqb f (s "exists") then dec_exists W false rest'
                  else if str_eqb f (s "notexists") then dec_exists W true rest'
                  else None
                else dec_op W f rest
            | [] => None
            end
        | None => None
        end
  end.

(* «field.part» followed by =number or a comparison *)
Definition cmptable : list (str * okind) :=
  [ (s "<=", KCmp CLte); (s ">=", KCmp CGte); (s "<>", KCmp CNeq); (s "<", KCmp CLt); (s ">", KCmp CGt) ].
Definition dec_ts (W : char -> bool) (body suffix : str) : option atom :=
  match fprefix W body with
  | Some (f, _, c :: part) =>
      if N.eqb c c_dot then
        match suffix with
        | e :: txt =>
            if N.eqb e c_eq then
              match txt with _ :: _ => Some {| a_neg := false; a_field := f; a_pred := ATs part txt |} | [] => None end
            else match find_op cmptable suffix with
                 | Some (KCmp op, (_ :: _) as txt') => Some {| a_neg := false; a_field := f; a_pred := ACmpTs op part txt' |}
                 | _ => None
                 end
        | [] => None
        end
      else None
  | _ => None
  end.

(* field=token without delimiters (numbers and booleans are rendered without a template) *)
Definition dec_bare (W : char -> bool) (t : str) : option atom :=
  match fprefix W t with
  | Some (f, _, c :: ((_ :: _) as txt)) =>
      if N.eqb c c_eq then Some {| a_neg := false; a_field := f; a_pred := ATok txt |} else None
  | _ => None
  end.

Definition atom_decode (W : char -> bool) (t : str) : option atom :=
  match t with
  | [] => None
  | c :: t' =>
      if N.eqb c c_lq then
        match split_last_rq t' with
        | Some (body, []) => dec_body W body
        | Some (body, suffix) => dec_ts W body suffix
        | None => None
        end
      else dec_bare W t
  end.

(* ---------------------------------------------------------------------------------------------- *)
(* when does an atom say what the Sigma value says?  (f: field of the detection item, v: the value
   after modifiers; neg: the atom was rendered as the negated form) *)
Definition apattern (o : sop) (l : list item) : list item :=
  match o with
  | OpStartswith => l ++ [Multi]
  | OpEndswith => Multi :: l
  | OpContains => Multi :: l ++ [Multi]
  | OpWildMatch | OpEq => l
  end.
(* adjacent multi-character wildcards denote the same set as one *)
Fixpoint norm (l : list item) : list item :=
  match l with
  | [] => []
  | x :: r => match x, r with
              | Multi, Multi :: _ => norm r
              | _, _ => x :: norm r
              end
  end.
Definition items_eqb := list_eqb item_eqb.
Definition cmpop_eqb (a b : cmpop) : bool :=
  match a, b with CLt, CLt | CLte, CLte | CGt, CGt | CGte, CGte | CNeq, CNeq => true | _, _ => false end.
Definition part_name (p : N) : str := match lookup p vb_parts with Some x => x | None => [] end.

Definition pred_ok (v : lval) (p : apred) : bool :=
  match v, p with
  | LStr cased sv, AStr c op l => Bool.eqb c cased && items_eqb (norm (apattern op l)) (norm (items sv))
  | LNum txt, ATok t => str_eqb t txt
  | LBool b, ATok t => str_eqb t (if b then s "true" else s "false")
  | LNull, ANull => true
  | LRe rx fi fm fs, ARe r i m x => str_eqb r rx && Bool.eqb i fi && Bool.eqb m fm && Bool.eqb x fs
  | LCidr net _ _ _, ACidr n => str_eqb n net
  | LCmp op txt, ACmp o t => cmpop_eqb o op && str_eqb t txt
  | LCmpTs op part txt, ACmpTs o p t => cmpop_eqb o op && str_eqb p (part_name part) && str_eqb t txt
  | LTs part txt, ATs p t => str_eqb p (part_name part) && str_eqb t txt
  | LExists _, AExists => true
  | LFieldRef f2 _ sw ew, AFieldRef g a b => str_eqb g f2 && Bool.eqb a sw && Bool.eqb b ew
  | _, _ => false
  end.
(* the polarity an atom must have: exists:false is the negation of the exists predicate *)
Definition polarity (v : lval) (neg : bool) : bool :=
  match v with LExists b => xorb neg (negb b) | _ => neg end.
Definition acceptb (neg : bool) (f : str) (v : lval) (a : atom) : bool :=
  str_eqb (a_field a) f && pred_ok v (a_pred a) && Bool.eqb (a_neg a) (polarity v neg).

(* ---------------------------------------------------------------------------------------------- *)
(* word characters (Python's \w): the ASCII ones, and those non-ASCII characters the harness found to be
   word characters; the delimiters are not among them *)
Definition ascii_word (c : char) : bool :=
  ((48 <=? c) && (c <=? 57)) || ((65 <=? c) && (c <=? 90)) || ((97 <=? c) && (c <=? 122)) || N.eqb c c_us.
Definition W_of (extra : str) (c : char) : bool := ascii_word c || mem c extra.
Definition wok (extra : str) : bool :=
  forallb (fun c => (127 <? c) && negb (N.eqb c c_lq) && negb (N.eqb c c_rq)) extra.
Definition wordy (W : char -> bool) (f : str) : bool := match f with [] => false | _ => forallb W f end.
(* consistency of the field oracles with the backend's patterns: field_escape_pattern matches every
   backslash and closing delimiter, possibly quote characters, nothing else; field_quote_pattern = ^\w+\Z negated *)
Fixpoint pos_ok (ps : list nat) (i : nat) (f : str) : bool :=
  match f with
  | [] => true
  | c :: f' =>
      (if N.eqb c c_bs || N.eqb c c_rq then existsb (Nat.eqb i) ps
       else if N.eqb c c_sq then true else negb (existsb (Nat.eqb i) ps)) && pos_ok ps (S i) f'
  end.
Definition fo_ok (W : char -> bool) (f : str) (fo : foracle) : bool :=
  pos_ok (fst fo) 0 f && Bool.eqb (snd fo) (negb (wordy W f)).
Definition nonempty (x : str) : bool := match x with [] => false | _ => true end.
(* the text of a number: not empty, does not start like the tail of an operator *)
Definition numtxt (x : str) : bool :=
  match x with [] => false | c :: _ => negb (N.eqb c c_eq) && negb (N.eqb c 62) && negb (N.eqb c 126) end.
(* characters that are not word characters: quotes, escape, delimiters, the first characters of operators *)
Definition specials : str := [c_sq; c_bs; c_lq; c_rq; c_space; c_eq; c_bang; 60; 62; c_dot; c_lpar; c_rpar; c_comma; c_dq; c_slash; 126].
Definition Wspec (W : char -> bool) : Prop :=
  (forall c, ascii_word c = true -> W c = true) /\ forallb (fun c => negb (W c)) specials = true.
Definition val_ok (W : char -> bool) (f : str) (v : lval) : bool :=
  match v with
  | LNum txt | LCmp _ txt => numtxt txt
  | LCidr _ _ _ _ => negb (mem c_comma f)
  | LCmpTs _ part txt | LTs part txt => numtxt txt && negb (mem c_rq txt) && is_some (lookup part vb_parts)
  | LFieldRef f2 fo2 _ _ => fo_ok W f2 fo2
  | LOther => false
  | _ => true
  end.
