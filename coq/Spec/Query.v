(* Reading a whole query of the verification backend: text -> lexical units (Spec/Lex.v) -> atoms
   (Spec/Atom.v, in-lists below) -> tokens of the target parser (Spec/Target.v), where an atom is
   identified with a reference predicate by its key: field, match kind and - for strings - the pattern
   up to collapsing adjacent multi-character wildcards. *)
From Coq Require Import NArith List Bool String.
From PS Require Import Base.Chars Model.SString Model.StrOp Model.Leaf Model.Backend Spec.Items Spec.Atom Spec.Lex.
Import ListNotations.
Open Scope N_scope.

Inductive akey :=
| YMatch (cased : bool) (f : str) (pat : list item)
| YTok (f : str) (txt : str)
| YNull (f : str)
| YRe (f : str) (rx : str) (fi fm fs : bool)
| YCidr (f : str) (net : str)
| YCmp (f : str) (op : cmpop) (txt : str)
| YCmpTs (f : str) (op : cmpop) (part : str) (txt : str)
| YTs (f : str) (part : str) (txt : str)
| YExists (f : str)
| YFieldRef (f : str) (f2 : str) (sw ew : bool)
| YQx (f : str) (id : str).

Definition key_of (a : atom) : akey :=
  let f := a_field a in
  match a_pred a with
  | AStr c op l => YMatch c f (norm (apattern op l))
  | ATok t => YTok f t
  | ANull => YNull f
  | ARe rx fi fm fs => YRe f rx fi fm fs
  | ACidr n => YCidr f n
  | ACmp o t => YCmp f o t
  | ACmpTs o p t => YCmpTs f o p t
  | ATs p t => YTs f p t
  | AExists => YExists f
  | AFieldRef g sw ew => YFieldRef f g sw ew
  | AQx i => YQx f i
  end.

Definition akey_eqb (a b : akey) : bool :=
  match a, b with
  | YMatch c f p, YMatch c' f' p' => Bool.eqb c c' && str_eqb f f' && items_eqb p p'
  | YTok f t, YTok f' t' => str_eqb f f' && str_eqb t t'
  | YNull f, YNull f' | YExists f, YExists f' => str_eqb f f'
  | YRe f r i m x, YRe f' r' i' m' x' => str_eqb f f' && str_eqb r r' && Bool.eqb i i' && Bool.eqb m m' && Bool.eqb x x'
  | YCidr f n, YCidr f' n' => str_eqb f f' && str_eqb n n'
  | YCmp f o t, YCmp f' o' t' => str_eqb f f' && cmpop_eqb o o' && str_eqb t t'
  | YCmpTs f o p t, YCmpTs f' o' p' t' => str_eqb f f' && cmpop_eqb o o' && str_eqb p p' && str_eqb t t'
  | YTs f p t, YTs f' p' t' => str_eqb f f' && str_eqb p p' && str_eqb t t'
  | YFieldRef f g a b, YFieldRef f' g' a' b' => str_eqb f f' && str_eqb g g' && Bool.eqb a a' && Bool.eqb b b'
  | YQx f i, YQx f' i' => str_eqb f f' && str_eqb i i'
  | _, _ => false
  end.

Fixpoint index_of (k : akey) (l : list akey) (i : nat) : option nat :=
  match l with
  | [] => None
  | x :: r => if akey_eqb k x then Some i else index_of k r (S i)
  end.

(* «field in ("a", "b", 1)» / «field contains-all (...)»: the elements are quoted literals or numbers *)
Definition in_after (rec : str -> option (list akey)) (k : akey) (r : str) : option (list akey) :=
  match r with
  | [d] => if N.eqb d c_rpar then Some [k] else None
  | d :: e :: r' =>
      if N.eqb d c_comma && N.eqb e c_space then
        match rec r' with Some l => Some (k :: l) | None => None end
      else None
  | [] => None
  end.
Fixpoint in_elems (fuel : nat) (f : str) (x : str) : option (list akey) :=
  match fuel with
  | O => None
  | S n =>
      match x with
      | [] => None
      | c :: x' =>
          if N.eqb c c_dq then
            match scan_to c_dq x' with
            | Some (body, r) =>
                match str_read (c :: body) with
                | Some l => in_after (in_elems n f) (YMatch false f (norm l)) r
                | None => None
                end
            | None => None
            end
          else
            let '(w, r) := span (fun d => negb (N.eqb d c_comma || N.eqb d c_rpar)) x in
            match w with [] => None | _ => in_after (in_elems n f) (YTok f w) r end
      end
  end.
Definition in_decode (W : char -> bool) (t : str) : option (bool * list akey) :=
  match t with
  | c :: t' =>
      if N.eqb c c_lq then
        match split_last_rq t' with
        | Some (body, []) =>
            match fprefix W body with
            | Some (f, _, rest) =>
                if prefixb (s " in (") rest then
                  match in_elems (S (List.length rest)) f (skipn 5 rest) with Some l => Some (true, l) | None => None end
                else if prefixb (s " contains-all (") rest then
                  match in_elems (S (List.length rest)) f (skipn 15 rest) with Some l => Some (false, l) | None => None end
                else None
            | None => None
            end
        | _ => None
        end
      else None
  | [] => None
  end.

(* lexical units -> parser tokens, atoms numbered by their position among the reference keys *)
Fixpoint all_some {A} (l : list (option A)) : option (list A) :=
  match l with
  | [] => Some []
  | Some x :: r => match all_some r with Some y => Some (x :: y) | None => None end
  | None :: _ => None
  end.
Definition tok_of (W : char -> bool) (keys : list akey) (t : ltok) : option tok :=
  match t with
  | XOp o => Some (TOp o)
  | XL => Some TL
  | XR => Some TR
  | XAtom x =>
      match atom_decode W x with
      | Some a => match index_of (key_of a) keys 0 with
                  | Some i => Some (TAtom i (a_neg a))
                  | None => None
                  end
      | None =>
          match in_decode W x with
          | Some (d, ks) =>
              match all_some (map (fun k => index_of k keys 0) ks) with
              | Some ids => Some (TIn d 0 ids)
              | None => None
              end
          | None => None
          end
      end
  end.
Definition read_query (W : char -> bool) (keys : list akey) (q : str) : option (list tok) :=
  match lex q with
  | Some ls => all_some (map (tok_of W keys) ls)
  | None => None
  end.

(* a number inside a value list: not empty, no list punctuation, does not look like a literal *)
Definition inlist_num (x : str) : bool :=
  match x with
  | [] => false
  | c :: _ => negb (N.eqb c c_dq) && forallb (fun d => negb (N.eqb d c_comma || N.eqb d c_rpar)) x
  end.

(* the key a list element must have *)
Definition key_of_val (f : str) (v : lval) : option akey :=
  match v with
  | LStr false sv => Some (YMatch false f (norm (items sv)))
  | LNum txt => Some (YTok f txt)
  | _ => None
  end.
