(* Specification side of C12: the meaning of detection trees / rule documents, and the documented
   source-level rewrite of every transformation as an entry-wise substitution on documents.

   A document is a boolean formula over entries `field|...: values` (what a rule's detections and
   condition spell); `All []`/`Any []` denote "nothing" (an absent part is skipped by its context,
   as the Sigma condition of a rule whose detection became empty).  The rewrite of a transformation
   replaces every entry, where it stands, by a document fragment that does not depend on the context:
     field renaming      f: v  ->  f': v            one-to-many:  f: v -> any of [{a: v}, {b: v}]
                         (a negated entry, f|neq: v, negates the whole alternative)
     keyword -> field    kw    ->  f|contains: kw   (substring semantics, also for numbers)
     drop                f: v  ->  (the entry is removed)
     value rewrites      f: [v1, v2] -> f: [v1', v1'', v2']    (inside the same value list)
     replace_string      a value whose plain form the regular expression does not change stays as it is. *)
From Coq Require Import NArith List Bool.
From PS Require Import Base.Chars Model.SString Model.Transform.
Import ListNotations.
Open Scope N_scope.

Definition opt_list {A} (o : option A) : list A := match o with Some x => [x] | None => [] end.
Definition comb (land : bool) (l : list bool) : option bool :=
  match l with [] => None | _ => Some (if land then forallb id l else existsb id l) end.

Inductive doc := Entry (i : ditem) | All (l : list doc) | Any (l : list doc) | Neg (d : doc).

Section Sem.
(* truth of the atom "field matches value" in an event *)
Variable asg : option str -> aval -> bool.

Definition sem_value (f : option str) (v : value) : bool :=
  match v with V a => asg f a | VExp l => existsb (asg f) l end.
Definition sem_vals (f : option str) (all : bool) (vs : list value) : bool :=
  match vs with
  | [] => asg f ANull
  | _ => if all then forallb (sem_value f) vs else existsb (sem_value f) vs
  end.
Definition sem_item (i : ditem) : bool := xorb (i_neg i) (sem_vals (i_field i) (i_all i) (i_vals i)).

(* meaning of a detection tree as the conversion reads it (SigmaDetection.postprocess, None arguments
   are skipped by AND/OR, NOT None = None) *)
Fixpoint sem (d : det) : option bool :=
  match d with
  | DI i => Some (sem_item i)
  | DD l land => comb land (flat_map (fun x => opt_list (sem x)) l)
  end.

Fixpoint eval (d : doc) : option bool :=
  match d with
  | Entry i => Some (sem_item i)
  | All l => comb true (flat_map (fun x => opt_list (eval x)) l)
  | Any l => comb false (flat_map (fun x => opt_list (eval x)) l)
  | Neg d => option_map negb (eval d)
  end.
End Sem.

(* a detection tree read as a document *)
Fixpoint doc_of (d : det) : doc :=
  match d with
  | DI i => Entry i
  | DD l land => if land then All (map doc_of l) else Any (map doc_of l)
  end.

(* entry-wise substitution: every entry is replaced, where it stands, by r entry (None: the entry is
   removed from the map / list that contains it) *)
Fixpoint subst (r : ditem -> option doc) (d : doc) : list doc :=
  match d with
  | Entry i => opt_list (r i)
  | All l => [All (flat_map (subst r) l)]
  | Any l => [Any (flat_map (subst r) l)]
  | Neg d => map Neg (subst r d)
  end.
(* a named detection is a map or a list *)
Definition subst_top (r : ditem -> option doc) (d : doc) : doc :=
  match d with
  | All l => All (flat_map (subst r) l)
  | Any l => Any (flat_map (subst r) l)
  | _ => d
  end.

Definition wrap_neg (n : bool) (d : doc) : doc := if n then Neg d else d.

(* ---------- field renaming ---------- *)
Section Rename.
Variable fm : option str -> bool.       (* the fields the processing item is scoped to *)
Variable afn : option str -> fres.      (* the configured mapping *)
Definition targets (f : option str) : option (list str) :=
  if fm f then match afn f with FNone => None | FOne s => Some [s] | FMany l => Some l end else None.
Definition rename_ref (v : value) : list value :=
  match v with
  | V (ARef g sw ew) => match targets (Some g) with
                        | Some ts => map (fun g' => V (ARef g' sw ew)) ts
                        | None => [v] end
  | _ => [v]
  end.
(* keyword mapped to a field keeps its substring semantics, composed with the modifiers of the keyword entry
   (the values below are the values after modifiers):
     [kw, ...]            ->  f|contains: [kw, ...]
     '|all': [...]        ->  f|contains|all: [...]        (linking kept)
     '|cased': kw         ->  f|contains|cased: kw         (case sensitivity kept)
     '|startswith' / '|endswith' / '|contains': kw  ->  f|contains: kw    (substring subsumes the anchor)
     '|re': r             ->  f|re: r                      (a regular expression states its own matching)
     '|neq': kw           ->  f|contains|neq: kw           (negation kept)
     numbers, expansions (windash, base64offset): the substring form of their text / of every alternative *)
Definition kw_aval (a : aval) : aval :=
  match a with
  | AStr c s => AStr c (add_wild s)
  | ANum n => AStr false (add_wild (parse true n))
  | _ => a
  end.
Definition kw_value (v : value) : value :=
  match v with
  | V a => V (kw_aval a)
  | VExp l => VExp (map kw_aval l)
  end.
Definition rw_rename (i : ditem) : option doc :=
  let vals1 := flat_map rename_ref (i_vals i) in
  let vals2 := match i_field i with None => map kw_value vals1 | Some _ => vals1 end in
  Some match (if fm (i_field i) then afn (i_field i) else FNone) with
       | FNone => Entry (mkI (i_field i) vals1 (i_all i) (i_neg i) (i_applied i))
       | FOne t => Entry (mkI (Some t) vals2 (i_all i) (i_neg i) (i_applied i))
       | FMany ts => wrap_neg (i_neg i) (Any (map (fun t => Entry (mkI (Some t) vals2 (i_all i) false (i_applied i))) ts))
       end.
(* the entry is rewritten (and then carries the mark of the processing item) iff its field is renamed or
   one of its field references lies in the scope of the item *)
Definition touch_rename (i : ditem) : bool :=
  (fres_some (afn (i_field i)) && fm (i_field i)) ||
  existsb (fun v => match v with V (ARef g _ _) => fm (Some g) | _ => false end) (i_vals i).
End Rename.

(* ---------- value rewrites: every value is replaced, inside its value list, by tvs f v ---------- *)
Definition rw_values (tvs : option str -> value -> list value) (i : ditem) : option doc :=
  Some (Entry (mkI (i_field i) (flat_map (tvs (i_field i)) (i_vals i)) (i_all i) (i_neg i) (i_applied i))).
(* a value rewrite touches an entry iff it applies to one of its values *)
Definition touch_values (tv : option str -> value -> option (list value)) (i : ditem) : bool :=
  existsb (fun v => is_some (tv (i_field i) v)) (i_vals i).
Definition tvs_of (tv : option str -> value -> option (list value)) (f : option str) (v : value) : list value :=
  match tv f v with Some l => l | None => [v] end.

(* replace_string: a value is rewritten only if the substitution changes its plain form *)
Section ReplaceSpec.
Variable sub : str -> str.
Definition tvs_replace (_ : option str) (v : value) : list value :=
  match v with
  | V (AStr c s) =>
      let p := to_plain false s in
      if str_eqb (sub p) p then [v] else [V (AStr c (replace_sstring sub s))]
  | V (ANum n) =>
      let p := to_plain false (parse true n) in
      if str_eqb (sub p) p then [v] else [V (AStr false (replace_sstring sub (parse true n)))]
  | _ => [v]
  end.
End ReplaceSpec.


(* ---------- hashes_fields: `Hashes: [ALGO=hash, ...]` becomes one entry per hash field, in the order
   in which the fields first occur, each with all the hashes of that field; the linking of the values
   (all) is kept inside and between the entries, a negated entry negates the whole group ---------- *)
Fixpoint nodup_str (l : list str) : list str :=
  match l with [] => [] | x :: r => x :: filter (fun y => negb (str_eqb y x)) (nodup_str r) end.
Definition vals_of (k : str) (pairs : list (str * str)) : list str :=
  map snd (filter (fun p => str_eqb (fst p) k) pairs).
Definition spec_group (pairs : list (str * str)) : list (str * list str) :=
  map (fun k => (k, vals_of k pairs)) (nodup_str (map fst pairs)).
Definition touch_hashes (H : hcfg) (i : ditem) : bool :=
  match i_field i with Some f => mem_str f (h_fields H) && forallb is_strv (i_vals i) | None => false end.
Definition rw_hashes (H : hcfg) (i : ditem) : option doc :=
  if touch_hashes H i then
    let es := map (fun g => Entry (hash_entry i false g))
                  (filter (fun g => nonempty (fst g)) (spec_group (hash_pairs H (i_vals i)))) in
    Some (wrap_neg (i_neg i) (if i_all i then All es else Any es))
  else Some (Entry i).

(* ---------- extract_fields: every value that the regular expression matches becomes the conjunction of
   its named groups (typed), the values stay linked as before (all), unmatched values are dropped or kept;
   a negated entry negates the whole ---------- *)
Definition extract_docs (X : xcfg) (i : ditem) : list doc :=
  flat_map (fun v => match v with
                     | V (AStr _ s) =>
                         match extract_lookup X s with
                         | Some groups => match extract_group_items X groups with
                                          | [] => []
                                          | items => [All (map Entry items)]
                                          end
                         | None => if x_preserve X then [Entry (mkI (i_field i) [v] false false [])] else []
                         end
                     | _ => []
                     end) (i_vals i).
Definition touch_extract (X : xcfg) (i : ditem) : bool :=
  forallb is_strv (i_vals i) && match extract_docs X i with [] => false | _ => true end.
Definition rw_extract (X : xcfg) (i : ditem) : option doc :=
  if forallb is_strv (i_vals i) then
    match extract_docs X i with
    | [] => Some (Entry i)
    | [x] => Some (wrap_neg (i_neg i) x)
    | l => Some (wrap_neg (i_neg i) (if i_all i then All l else Any l))
    end
  else Some (Entry i).

Definition scoped (im : ditem -> bool) (r : ditem -> option doc) (i : ditem) : option doc :=
  if im i then r i else Some (Entry i).

(* bookkeeping that later processing items can refer to (processing_item_applied): every entry of the
   fragment that replaces a touched entry is marked with the identifier of the processing item *)
Fixpoint mark_doc (id : option str) (d : doc) : doc :=
  match d with
  | Entry i => Entry (mark_item id i)
  | All l => All (map (mark_doc id) l)
  | Any l => Any (map (mark_doc id) l)
  | Neg d => Neg (mark_doc id d)
  end.
Definition smarked (id : option str) (touch : ditem -> bool) (r : ditem -> option doc) (i : ditem) : option doc :=
  if touch i then option_map (mark_doc id) (r i) else r i.

(* the documented rewrite of one processing item, entry by entry *)
Definition rw_tspec (c : conds) (t : tspec) : ditem -> option doc :=
  let rv tv := smarked (c_id c) (touch_values tv) (rw_values (tvs_of tv)) in
  let rn afn := smarked (c_id c) (touch_rename (fm_of c) afn) (rw_rename (fm_of c) afn) in
  scoped (im_of c)
    match t with
    | TFieldMap m => rn (afn_mapping m)
    | TPrefixMap m => rn (afn_prefixmap m)
    | TPrefix p => rn (afn_prefix p)
    | TSuffix s => rn (afn_suffix s)
    | TDrop => fun _ => None
    | TAddCond _ _ _ => fun i => Some (Entry i)
    | TSetValue a => rv (tv_set a)
    | TCase m => rv (tv_case m)
    | TMapString m => rv (tv_mapstring m)
    | TReplace tbl => smarked (c_id c) (touch_values (tv_replace (tbl_sub tbl))) (rw_values (tvs_replace (tbl_sub tbl)))
    | TConvertStr => rv tv_convert_str
    | TWildPh k => rv (tv_placeholder k repl_wild)
    | TValuePh k vars => rv (tv_placeholder k (repl_vars vars))
    | TRegex m => rv (tv_regex m)
    | TConvertNum tbl => rv (tv_convert_num tbl)
    | TQueryPh k e m => rv (tv_queryph k e m)
    | THashes H => smarked (c_id c) (touch_hashes H) (rw_hashes H)
    | TExtract X => smarked (c_id c) (touch_extract X) (rw_extract X)
    | _ => fun i => Some (Entry i)       (* rule-level attributes only: change_logsource, set_state, ... *)
    end.

(* documents of a rule: named detections (the condition is carried separately) *)
Definition rdocs := list (str * doc).
Definition rdocs_of (r : rule) : rdocs := map (fun p => (fst p, doc_of (snd p))) (r_dets r).

Definition rewrite_tspec (c : conds) (t : tspec) (ds : rdocs) : rdocs :=
  match t with
  | TAddCond name d _ => dict_set name (mark_doc (c_id c) (doc_of d)) ds    (* add the detection; the condition becomes name and (cond) *)
  | _ => map (fun p => (fst p, subst_top (rw_tspec c t) (snd p))) ds
  end.
Definition rewrite_item (it : conds * tspec) (ds : rdocs) : rdocs :=
  if c_rule (fst it) then rewrite_tspec (fst it) (snd it) ds else ds.
Definition rewrite_pitem (p : pitem) (ds : rdocs) : rdocs :=
  match p with
  | PItem c t => rewrite_item (c, t) ds
  | PNest c items => if c_rule c then fold_left (fun ds it => rewrite_item it ds) items ds else ds
  end.
Definition rewrite_pipeline (p : list pitem) (ds : rdocs) : rdocs :=
  fold_left (fun ds it => rewrite_pitem it ds) p ds.

(* ---------- rule conditions ---------- *)
Inductive cexpr :=
| CId (n : str) | CSel (all : bool) (pat : str) | CNotE (c : cexpr) | CAndE (l : list cexpr) | COrE (l : list cexpr).
Section CSem.
Variable selm : str -> str -> bool.        (* selector pattern matches a detection name *)
Variable env : list (str * option bool).   (* meaning of the named detections, in document order *)
Definition lookup_env (n : str) : option bool :=
  match find (fun p => str_eqb (fst p) n) env with Some p => snd p | None => None end.
Fixpoint ceval (c : cexpr) : option bool :=
  match c with
  | CId n => lookup_env n
  | CSel all pat => comb all (flat_map (fun p => if selm pat (fst p) then opt_list (snd p) else []) env)
  | CNotE a => option_map negb (ceval a)
  | CAndE l => comb true (flat_map (fun x => opt_list (ceval x)) l)
  | COrE l => comb false (flat_map (fun x => opt_list (ceval x)) l)
  end.
End CSem.
