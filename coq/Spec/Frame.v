(* C15 - specification: what converting a freshly loaded rule MEANS when nothing has happened
   before.  It is a function of the rule, the pipeline definitions and the backend configuration
   only: there is no world, no cache, no owner link and no class attribute in it.  The property says
   that every conversion in every history yields exactly this. *)
From Coq Require Import NArith List Bool Arith.
From PS Require Import Base.Chars Base.Outcome Model.History.
Import ListNotations.
Open Scope N_scope.

(* the items of the three pipeline definitions, applied in order to one private set of per-rule fields *)
Definition pipe_defs (E : env) (cls : N) (user : option N) (fmt : N) : list item :=
  e_bk E cls ++ match user with Some o => e_user E o | None => [] end ++ e_fmt E cls fmt.

(* an external source yields what it yields now: there is no cache in the specification *)
Definition src_vals (E : env) (it : item) : outcome (list str) :=
  match i_tr it with TFile d => e_src E d | _ => Ok [] end.
Fixpoint ideal_items (E : env) (pv : vars) (ps : pstate) (r : rule) (its : list item) : pstate * (rule + N) :=
  match its with
  | [] => (ps, inl r)
  | it :: rest =>
      if is_post it then ideal_items E pv ps r rest else
      let st := item_step ps pv r it (src_vals E it) in
      let ps1 := is_upd st ps in
      match is_res st with
      | inr e => (ps1, inr e)
      | inl r' => ideal_items E pv (note_applied it (is_match st) ps1) r' rest
      end
  end.

(* query postprocessing on the pipeline's own per-rule fields; a `nest` item starts from an untouched nested pipeline
   (no state, nothing applied) for every query *)
Fixpoint ideal_post (ps : pstate) (r : rule) (q : str) (its : list item) : pstate * str :=
  match its with
  | [] => (ps, q)
  | it :: rest =>
      match i_tr it with
      | TPost p =>
          if eval_rcond ps r (i_cond it) then
            let '(ps1, q1) :=
              match p with
              | PTop p0 => (ps, post0_apply (ps_state ps) p0 q)
              | PNest l => let '(q', nids) := nest_run [] r q l [] in (add_ids nids ps, q')
              end in
            ideal_post (add_ids [i_id it] ps1) r q1 rest
          else ideal_post ps r q rest
      | _ => ideal_post ps r q rest
      end
  end.
Fixpoint ideal_post_all (ps : pstate) (r : rule) (qs : list str) (its : list item) : pstate * list str :=
  match qs with
  | [] => (ps, [])
  | q :: rest => let '(ps1, q1) := ideal_post ps r q its in
                 let '(ps2, l) := ideal_post_all ps1 r rest its in (ps2, q1 :: l)
  end.

(* a condition string means what the grammar says; a negated leaf uses the negated templates *)
Definition ideal_leaf (ne neg : bool) (d : ditem) : outcome str :=
  leaf_text (if neg && ne then tpl_neg else tpl0) d.
Fixpoint ideal_render (ne neg : bool) (c : ctree) {struct c} : outcome str :=
  match c with
  | CLeaf d => ideal_leaf ne neg d
  | CNot a => obind (ideal_render ne true a) (fun s => Ok (not_text ne a s))
  | CAnd l => obind (omap (fun a => obind (ideal_render ne neg a) (fun s => Ok (wrap_and a s))) l)
                    (fun ss => Ok (join s_and ss))
  | COr l => obind (omap (fun a => obind (ideal_render ne neg a) (fun s => Ok (wrap_or a s))) l)
                   (fun ss => Ok (join s_or ss))
  end.

Definition ideal_cond (E : env) (ne : bool) (dets : list (str * list ditem)) (fin : str -> outcome str) (k : str) : outcome str :=
  if mem c_pipe k then SigmaErr E_Condition else
  match e_parse E k with
  | None => SigmaErr E_Condition
  | Some t => obind (obind (resolve dets t) (ideal_render ne false)) fin
  end.

(* one rule: pipeline built for format lfmt, query finalised for format fmt *)
Definition ideal_rule (E : env) (cls : N) (user : option N) (opts : list (str * str)) (lfmt fmt : N) (r : rule)
  : pstate * outcome (list str) :=
  let '(ps, res) := ideal_items E (init_vars E cls user opts lfmt) ps0 r (pipe_defs E cls user lfmt) in
  match res with
  | inr e => (ps, SigmaErr e)
  | inl r' =>
      match omap (ideal_cond E (e_ne E cls) (r_dets r') (finish_query E cls (ps_state ps))) (r_conds r') with
      | Ok l => let '(ps2, l') := ideal_post_all ps r' (map (finalize fmt (ps_state ps) r') l) (pipe_defs E cls user lfmt) in
                (ps2, Ok l')
      | SigmaErr e => (ps, SigmaErr e)
      | Crash e => (ps, Crash e)
      end
  end.

(* convert_rule(rule, fmt) *)
Definition ideal_obs_rule (E : env) (cls : N) (user : option N) (collect : bool) (opts : list (str * str)) (fmt : N) (r : rule) : obs :=
  let '(ps, q) := ideal_rule E cls user opts fmt fmt r in
  match q with
  | SigmaErr e => if collect then {| o_res := Ok []; o_errs := [e]; o_snap := Some ps |}
                  else {| o_res := q; o_errs := []; o_snap := Some ps |}
  | _ => {| o_res := q; o_errs := []; o_snap := Some ps |}
  end.

(* convert(collection, fmt): every rule on its own; the bookkeeping left behind is that of the last
   rule that was processed *)
Fixpoint ideal_rules (E : env) (cls : N) (user : option N) (collect : bool) (opts : list (str * str)) (fmt : N) (rs : list rule)
         (acc : list str) (errs : list N) (ps : pstate) : obs :=
  match rs with
  | [] => {| o_res := Ok acc; o_errs := errs; o_snap := Some ps |}
  | r :: rest =>
      let '(ps1, q) := ideal_rule E cls user opts fmt fmt r in
      match q with
      | Ok l => ideal_rules E cls user collect opts fmt rest (acc ++ l) errs ps1
      | SigmaErr e => if collect then ideal_rules E cls user collect opts fmt rest acc (errs ++ [e]) ps1
                      else {| o_res := SigmaErr e; o_errs := errs; o_snap := Some ps1 |}
      | Crash e => {| o_res := Crash e; o_errs := errs; o_snap := Some ps1 |}
      end
  end.
Definition ideal_obs_coll (E : env) (cls : N) (user : option N) (collect : bool) (opts : list (str * str)) (fmt : N) (rs : list rule) : obs :=
  ideal_rules E cls user collect opts fmt rs [] [] ps0.

(* ---------- the two aliasing situations in which the implementation leaks today ---------- *)
(* every item of the backend's pipeline object still points to that object (D18 when violated) *)
Definition owns_ok (E : env) (w : world) (bk : backend) : bool :=
  match b_last bk with
  | None => true
  | Some (L, f) =>
      forallb (fun p => match w_owner w (fst p) with Some o => Nat.eqb o L | None => false end)
              (pipe_pairs E (b_cls bk) (b_user bk) f)
  end.
(* the pipeline object was built for the format now asked for (D30 when violated) *)
Definition fmt_ok (bk : backend) (fmt : N) : bool :=
  match b_last bk with None => true | Some (_, f) => N.eqb f fmt end.

(* syntactic sufficient condition on a history: no two backends are created from item objects
   that exist only once - the same class with class-level items, or the same user pipeline object *)
Definition class_has_items (E : env) (fmts : list N) (c : N) : bool :=
  negb (match e_bk E c with [] => true | _ => false end)
  || existsb (fun f => negb (match e_fmt E c f with [] => true | _ => false end)) fmts.
Definition news (ops : list op) : list (N * option N) :=
  flat_map (fun o => match o with ONew c u _ _ => [(c, u)] | _ => [] end) ops.
Fixpoint no_sharing_l (E : env) (fmts : list N) (l : list (N * option N)) : bool :=
  match l with
  | [] => true
  | (c, u) :: rest =>
      forallb (fun p => negb (N.eqb (fst p) c && class_has_items E fmts c)
                        && negb (match u, snd p with
                                 | Some o, Some o' => N.eqb o o' && negb (match e_user E o with [] => true | _ => false end)
                                 | _, _ => false end)) rest
      && no_sharing_l E fmts rest
  end.
Definition no_sharing (E : env) (fmts : list N) (ops : list op) : bool := no_sharing_l E fmts (news ops).
(* every format a history uses is one of `fmts` (the formats whose class-level pipelines `no_sharing` looked at) *)
Definition op_fmt_ok (fmts : list N) (o : op) : bool :=
  match o with
  | OInit _ f | OConvColl _ _ f | OConvRule _ _ f => existsb (N.eqb f) fmts
  | _ => true end.

(* item object i is the object created for definition `it` (position snd i of the pipeline definition fst i names) *)
Definition valid_pair (E : env) (i : iid) (it : item) : Prop :=
  nth_error (match fst i with SBk c => e_bk E c | SFmt c f => e_fmt E c f | SUser o => e_user E o end) (snd i) = Some it.

(* loading a document: every modifier application is checked against the class's OWN modify() annotation *)
Definition ideal_load (E : env) (r : rule) : outcome (list str) :=
  match find (fun mt => negb (e_accepts E (fst mt) (snd mt))) (r_mods r) with
  | Some _ => SigmaErr E_Type
  | None => match r_bad r with Some t => SigmaErr t | None => Ok [] end
  end.
