(* Specification side of C07: the property as a predicate on what a caller observes (the outcome of
   strict loading and the outcome of collecting loading of the same document), and the syntactic
   domains of the partial theorems.  Nothing here mentions how a loader works. *)
From Coq Require Import NArith ZArith List Bool.
From PS Require Import Base.Chars Base.Outcome Model.Yaml Model.LoaderStrings.
Import ListNotations.
Open Scope N_scope.

(* "only Sigma errors escape" *)
Definition sigma_only {A} (o : outcome A) : Prop := forall x, o <> Crash x.
(* "collecting mode never raises; its error list is non-empty exactly when strict loading raises; the
   first collected error is the one strict loading raises" - errors are compared by class here, the
   harness additionally compares the two exception objects with SigmaError.__eq__ *)
Definition collect_agrees (strict collect : outcome (list N)) : Prop :=
  exists errs, collect = Ok errs /\
    match errs with
    | [] => strict = Ok []
    | e :: _ => strict = SigmaErr e
    end.
Definition C07_holds (strict collect : outcome (list N)) : Prop :=
  sigma_only strict /\ sigma_only collect /\ collect_agrees strict collect.

(* executable form, evaluated by the judge on the implementation's output *)
Definition c07_okb (strict collect : outcome (list N)) : bool :=
  match strict, collect with
  | Ok [], Ok [] => true
  | SigmaErr e, Ok (e' :: _) => N.eqb e e'
  | _, _ => false
  end.
Lemma c07_okb_spec s c : c07_okb s c = true <-> C07_holds s c.
Proof.
  unfold C07_holds, sigma_only, collect_agrees. split.
  - destruct s as [[|? ?]|e|x], c as [[|e' l']|?|?]; simpl; try discriminate; intros H.
    + repeat split; try discriminate. exists []. split; reflexivity.
    + apply N.eqb_eq in H. subst. repeat split; try discriminate. exists (e' :: l'). split; reflexivity.
  - intros [Hs [Hc [errs [-> H]]]]. destruct errs as [|e l]; subst; simpl; [reflexivity | apply N.eqb_refl].
Qed.

(* ---- domains ---- *)
(* detection items inside the modelled fragment of the modifier machinery: the UTF-16 re-encoding
   modifiers (wide, utf16, utf16be) meet ASCII text only *)
Definition val_list (v : yv) : list yv := match v with YList l => l | x => [x] end.
Definition item_ok (k v : yv) : bool :=
  match k with
  | YStr s =>
    let ids := tl (split c_pipe s) in
    if existsb (fun i => in_strs i [s_wide; s_utf16; s_utf16be]) ids
    then forallb (fun x => match x with YStr t => is_ascii t | _ => true end) (val_list v) else true
  | _ => true
  end.
Fixpoint def_ok (d : yv) : bool :=
  match d with
  | YMap m => forallb (fun kv => item_ok (fst kv) (snd kv)) m
  | YList l => (fix go (l : list yv) : bool := match l with [] => true | x :: r => def_ok x && go r end) l
  | _ => true
  end.
Definition section_ok (sec : str) (d : yv) : bool :=
  match d with
  | YMap m => match assoc m sec with
              | Some (YMap dm) => forallb (fun kv => def_ok (snd kv)) dm
              | _ => true
              end
  | _ => false          (* the document itself must be a map (finding nonmap-document otherwise) *)
  end.
Definition rule_dom (d : yv) : bool := section_ok s_detection d.
Definition filter_dom (d : yv) : bool := section_ok s_filter d.
(* correlation rules: every entry of `rules` is a string (finding corr-nonstring-rule-reference) *)
Definition corr_dom (d : yv) : bool :=
  match d with
  | YMap m => match assoc m s_correlation with
              | Some (YMap cm) => match assoc cm s_rules with
                                  | Some (YList l) => forallb is_str l
                                  | _ => true
                                  end
              | _ => true
              end
  | _ => false
  end.

(* collecting-mode error list vs strict outcome, as stated in the property text *)
Definition collect_iff (strict : outcome (list N)) (errs : list N) : Prop :=
  (errs = [] <-> strict = Ok []) /\ (forall e, hd_error errs = Some e <-> strict = SigmaErr e).
