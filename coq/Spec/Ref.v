(* Reference meaning of a rule condition: the detection items of the rule (after modifier application)
   and the condition expression as written denote a boolean combination of reference predicates
   (Spec/Query.v akey: field, match kind, pattern up to '**' = '*').  This is the specification the
   query read back from the backend is compared with; it knows nothing of the conversion. *)
From Coq Require Import NArith List Bool Arith.
From PS Require Import Base.Chars Model.Leaf Model.Backend Spec.Items Spec.Atom Spec.Query.
Import ListNotations.

(* a value of a detection item, after modifiers *)
Inductive rval :=
| RStr (cased : bool) (l : list item)
| RTok (t : str)                            (* number or boolean: its text *)
| RNull
| RExists (b : bool)
| RRe (rx : str) (fi fm fs : bool)
| RCidr (net : str) (pats : list (list item))   (* network and the wildcard patterns it expands to *)
| RCmp (op : cmpop) (t : str)
| RCmpTs (op : cmpop) (part t : str)
| RTs (part t : str)
| RFieldRef (f2 : str) (sw ew : bool)
| RQx (id : str)                            (* opaque query expression *)
| RExp (vs : list rval).                    (* expansion (windash, base64offset): any of the values *)

(* a detection: one item (field, "_" for keywords; values linked by vlink; possibly negated - neq) or a
   group of detections (map: AND, list: OR) *)
Inductive rdet :=
| RItem (f : str) (neg : bool) (vlink : bop) (vs : list rval)
| RDets (link : bop) (ds : list rdet).

(* the condition as written: identifier, "1 of pat" / "all of pat" (pat = them or a name pattern), not, and/or *)
Inductive rexpr :=
| EId (n : str)
| ESel (all : bool) (pat : str)
| ENot (e : rexpr)
| EBin (o : bop) (l : list rexpr).

(* boolean combination of reference predicates *)
Inductive rc := RA (k : akey) | RN (c : rc) | RB (o : bop) (l : list rc).

Fixpoint value_ref (native_cidr : bool) (f : str) (v : rval) : rc :=
  match v with
  | RStr c l => RA (YMatch c f (norm l))
  | RTok t => RA (YTok f t)
  | RNull => RA (YNull f)
  | RExists b => if b then RA (YExists f) else RN (RA (YExists f))
  | RRe rx i m s => RA (YRe f rx i m s)
  | RCidr net pats =>
      if native_cidr then RA (YCidr f net)
      else RB BOr (map (fun p => RA (YMatch false f (norm p))) pats)
  | RCmp o t => RA (YCmp f o t)
  | RCmpTs o p t => RA (YCmpTs f o p t)
  | RTs p t => RA (YTs f p t)
  | RFieldRef g a b => RA (YFieldRef f g a b)
  | RQx i => RA (YQx f i)
  | RExp vs => RB BOr (map (value_ref native_cidr f) vs)
  end.

(* an item without values (empty list) asks for the null value *)
Fixpoint det_ref (native_cidr : bool) (d : rdet) : rc :=
  match d with
  | RItem f neg vl vs =>
      let e := match vs with [] => RA (YNull f) | _ => RB vl (map (value_ref native_cidr f) vs) end in
      if neg then RN e else e
  | RDets link ds => RB link (map (det_ref native_cidr) ds)
  end.

(* selectors: "them" or a name pattern in which '*' stands for any characters; names that start with an
   underscore are matched only by a pattern that starts with one *)
Definition w_them : str := [116; 104; 101; 109].
Definition glob (pat : str) : list item := map (fun c => if N.eqb c 42 then Multi else Lit c) pat.
Definition us_start (x : str) : bool := match x with c :: _ => N.eqb c c_us | [] => false end.
Definition sel_match (pat n : str) : bool :=
  (str_eqb pat w_them || wild_match (glob pat) n) && (us_start pat || negb (us_start n)).

Fixpoint find_det (n : str) (dets : list (str * rdet)) : option rdet :=
  match dets with
  | [] => None
  | (m, d) :: r => if str_eqb n m then Some d else find_det n r
  end.
Fixpoint all_some {A} (l : list (option A)) : option (list A) :=
  match l with
  | [] => Some []
  | None :: _ => None
  | Some x :: r => match all_some r with Some y => Some (x :: y) | None => None end
  end.

(* None: the expression has no defined meaning (unknown identifier, selector matching nothing) *)
Fixpoint expr_ref (native_cidr : bool) (dets : list (str * rdet)) (e : rexpr) : option rc :=
  match e with
  | EId n => option_map (det_ref native_cidr) (find_det n dets)
  | ESel all pat =>
      match filter (fun nd => sel_match pat (fst nd)) dets with
      | [] => None
      | ds => Some (RB (if all then BAnd else BOr) (map (fun nd => det_ref native_cidr (snd nd)) ds))
      end
  | ENot a => option_map RN (expr_ref native_cidr dets a)
  | EBin o l => option_map (RB o) (all_some (map (expr_ref native_cidr dets) l))
  end.

(* numbering of the distinct reference predicates (order of first occurrence) *)
Fixpoint keys_of (c : rc) (acc : list akey) : list akey :=
  match c with
  | RA k => match index_of k acc 0%nat with Some _ => acc | None => acc ++ [k] end
  | RN a => keys_of a acc
  | RB _ l => fold_left (fun acc x => keys_of x acc) l acc
  end.
Definition idx (ks : list akey) (k : akey) : nat :=
  match index_of k ks 0%nat with Some i => i | None => length ks end.
Fixpoint number (ks : list akey) (c : rc) : cond :=
  match c with
  | RA k => CAtom KOther None false (idx ks k)
  | RN a => CNot (number ks a)
  | RB o l => CBin o (map (number ks) l)
  end.

(* truth value of a combination under a valuation of the reference predicates *)
Fixpoint rden (val : akey -> bool) (c : rc) : bool :=
  match c with
  | RA k => val k
  | RN a => negb (rden val a)
  | RB BAnd l => forallb (rden val) l
  | RB BOr l => existsb (rden val) l
  end.
