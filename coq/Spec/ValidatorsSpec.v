(* C19 - what the reference and uniqueness validators are supposed to report (declarative), and
   an executable form of it that the correspondence check evaluates on the implementation's output.

   Glob p n      : '*' in a selector pattern stands for any character sequence, everything else for itself
   Selected p n  : pattern p selects detection name n ("them" selects every name; an underscore-prefixed
                   name is only selected by an underscore-prefixed pattern - the rule the converter uses)
   Refers D t n  : the condition t refers to the name n, by name or by a matching selector
   HasSel t p    : a selector with pattern p occurs in t
   group / dpaths: classes of rules sharing an identifier / title / file name *)
From Coq Require Import NArith List Bool Arith Permutation.
From PS Require Import Base.Chars Base.Outcome Model.VCond Model.Validators.
Import ListNotations.
Open Scope N_scope.

Inductive Glob : str -> str -> Prop :=
| glob_nil : Glob [] []
| glob_lit c p n : c <> c_star -> Glob p n -> Glob (c :: p) (c :: n)
| glob_star p m n : Glob p n -> Glob (c_star :: p) (m ++ n).

Definition us (s : str) : bool := match s with c :: _ => c =? c_us | [] => false end.

Definition Selected (p n : str) : Prop :=
  (p = w_them \/ Glob p n) /\ (us p = true \/ us n = false).

Inductive Refers (D : list str) : ptree -> str -> Prop :=
| rf_id n : Refers D (PId n) n
| rf_sel q p n : In n D -> Selected p n -> Refers D (PSel q p) n
| rf_not a n : Refers D a n -> Refers D (PNot a) n
| rf_and l a n : In a l -> Refers D a n -> Refers D (PAnd l) n
| rf_or l a n : In a l -> Refers D a n -> Refers D (POr l) n.

Inductive HasSel : ptree -> str -> Prop :=
| hs_sel q p : HasSel (PSel q p) p
| hs_not a p : HasSel a p -> HasSel (PNot a) p
| hs_and l a p : In a l -> HasSel a p -> HasSel (PAnd l) p
| hs_or l a p : In a l -> HasSel a p -> HasSel (POr l) p.

(* the selector matches no detection of the rule *)
Definition Unmatched (D : list str) (p : str) : Prop := forall n, In n D -> ~ Selected p n.

(* ---------- classes of rules sharing a value ---------- *)
Definition val_of (v : vkind) (r : rule) : option str :=
  match v with
  | VIdUniq => r_id r
  | VTitle => r_title r
  | VFile => option_map path_name (r_path r)
  | _ => None
  end.

Definition has_val (v : vkind) (x : str) (r : rule) : bool := oid_eqb (val_of v r) (Some x).

(* the rules (in the order validated) that the validator v sees and that carry the value x *)
Definition group (E : excl) (v : vkind) (rules : list rule) (x : str) : list N :=
  map r_key (filter (fun r => negb (excluded E r v) && has_val v x r) rules).

(* two of the rules seen by the file-name validator carry file name x under different paths *)
Definition two_paths (E : excl) (rules : list rule) (x : str) : Prop :=
  exists r1 r2 p1 p2, In r1 rules /\ In r2 rules /\
    excluded E r1 VFile = false /\ excluded E r2 VFile = false /\
    r_path r1 = Some p1 /\ r_path r2 = Some p2 /\ path_name p1 = x /\ path_name p2 = x /\ p1 <> p2.

(* ---------- issues up to the order inside a reported group ---------- *)
Definition ieq (a b : issue) : Prop :=
  match a, b with
  | IUnused r n, IUnused r' n' => r = r' /\ n = n'
  | IDangling r n, IDangling r' n' => r = r' /\ n = n'
  | INoId r, INoId r' => r = r'
  | IIdColl rs x, IIdColl rs' x' => Permutation rs rs' /\ x = x'
  | ITitle rs x, ITitle rs' x' => Permutation rs rs' /\ x = x'
  | IFile rs x, IFile rs' x' => Permutation rs rs' /\ x = x'
  | _, _ => False
  end.

(* equal as multisets of issues, a reported group being a set of rules *)
Definition MEquiv (l l' : list issue) : Prop :=
  exists m, Permutation l m /\ Forall2 ieq m l'.

Definition kind_of (i : issue) : vkind :=
  match i with
  | IUnused _ _ => VUnused | IDangling _ _ => VDangling | INoId _ => VIdExist
  | IIdColl _ _ => VIdUniq | ITitle _ _ => VTitle | IFile _ _ => VFile
  end.

(* =====================  executable form (specification oracle)  ===================== *)
Fixpoint any_suffix (f : str -> bool) (n : str) : bool :=
  f n || match n with [] => false | _ :: n' => any_suffix f n' end.

Fixpoint globb (p n : str) {struct p} : bool :=
  match p with
  | [] => match n with [] => true | _ => false end
  | c :: p' =>
      if c =? c_star then any_suffix (globb p') n
      else match n with x :: n' => (x =? c) && globb p' n' | [] => false end
  end.

Definition selectedb (p n : str) : bool :=
  (str_eqb p w_them || globb p n) && (us p || negb (us n)).

(* does the expression (the generating AST of the condition text) refer to the name n *)
Fixpoint refersb (D : list str) (n : str) (t : ptree) {struct t} : bool :=
  match t with
  | PId m => str_eqb m n
  | PSel _ p => mem_str n D && selectedb p n
  | PNot a => refersb D n a
  | PAnd l => existsb (refersb D n) l
  | POr l => existsb (refersb D n) l
  end.

Fixpoint sel_pats (t : ptree) : list str :=
  match t with
  | PId _ => []
  | PSel _ p => [p]
  | PNot a => sel_pats a
  | PAnd l => flat_map sel_pats l
  | POr l => flat_map sel_pats l
  end.

Definition unmatchedb (D : list str) (p : str) : bool := negb (existsb (selectedb p) D).

Definition N_mem (k : N) (l : list N) : bool := existsb (N.eqb k) l.
Definition same_set (a b : list N) : bool :=
  forallb (fun k => N_mem k b) a && forallb (fun k => N_mem k a) b && (length a =? length b)%nat.

Fixpoint nodupN (l : list N) : bool :=
  match l with [] => true | x :: r => negb (N_mem x r) && nodupN r end.

Definition vmem (v : vkind) (vs : list vkind) : bool := existsb (vkind_eqb v) vs.

(* a source rule together with the expressions its condition texts were generated from *)
Definition srule := (rule * list ptree)%type.

Definition find_rule (k : N) (rs : list srule) : option srule :=
  find (fun sr => r_key (fst sr) =? k) rs.

Definition active (E : excl) (vs : list vkind) (v : vkind) (r : rule) : bool :=
  vmem v vs && negb (excluded E r v).

Definition distinct_paths (E : excl) (rs : list srule) (x : str) : list (list str) :=
  fold_right (fun sr acc =>
                match r_path (fst sr) with
                | Some p => if negb (excluded E (fst sr) VFile) && str_eqb (path_name p) x
                                  && negb (existsb (path_eqb p) acc) then p :: acc else acc
                | None => acc end) [] rs.

(* soundness of one reported issue *)
Definition justified (E : excl) (vs : list vkind) (rs : list srule) (i : issue) : bool :=
  match i with
  | IUnused k n =>
      match find_rule k rs with
      | Some (r, es) => active E vs VUnused r && negb (r_corr r) && mem_str n (r_dets r)
                        && negb (existsb (refersb (r_dets r) n) es)
      | None => false end
  | IDangling k p =>
      match find_rule k rs with
      | Some (r, es) => active E vs VDangling r && negb (r_corr r)
                        && mem_str p (flat_map sel_pats es) && unmatchedb (r_dets r) p
      | None => false end
  | INoId k =>
      match find_rule k rs with
      | Some (r, _) => active E vs VIdExist r && match r_id r with None => true | _ => false end
      | None => false end
  | IIdColl ks x => vmem VIdUniq vs && nodupN ks && (1 <? length ks)%nat
                    && same_set ks (group E VIdUniq (map fst rs) x)
  | ITitle ks x => vmem VTitle vs && nodupN ks && (1 <? length ks)%nat
                   && same_set ks (group E VTitle (map fst rs) x)
  | IFile ks x => vmem VFile vs && (1 <? length (distinct_paths E rs x))%nat
                  && nodupN ks && same_set ks (group E VFile (map fst rs) x)
  end.

Definition count {A} (f : A -> bool) (l : list A) : nat := length (filter f l).

Definition is_unused (k : N) (n : str) (i : issue) : bool :=
  match i with IUnused k' n' => (k' =? k) && str_eqb n' n | _ => false end.
Definition is_dangling (k : N) (p : str) (i : issue) : bool :=
  match i with IDangling k' p' => (k' =? k) && str_eqb p' p | _ => false end.
Definition is_noid (k : N) (i : issue) : bool :=
  match i with INoId k' => k' =? k | _ => false end.
Definition is_idcoll (x : str) (i : issue) : bool := match i with IIdColl _ x' => str_eqb x' x | _ => false end.
Definition is_title (x : str) (i : issue) : bool := match i with ITitle _ x' => str_eqb x' x | _ => false end.
Definition is_file (x : str) (i : issue) : bool := match i with IFile _ x' => str_eqb x' x | _ => false end.
Definition once (f : issue -> bool) (out : list issue) : bool := (count f out =? 1)%nat.

(* completeness: everything that has to be reported is reported exactly once *)
Definition complete_rule (E : excl) (vs : list vkind) (out : list issue) (sr : srule) : bool :=
  let '(r, es) := sr in
  let k := r_key r in
  (if active E vs VUnused r && negb (r_corr r) then
     forallb (fun n => if existsb (refersb (r_dets r) n) es then true
                       else once (is_unused k n) out)
             (r_dets r)
   else true) &&
  (if active E vs VDangling r && negb (r_corr r) then
     forallb (fun p => if unmatchedb (r_dets r) p
                       then once (is_dangling k p) out
                       else true)
             (flat_map sel_pats es)
   else true) &&
  (if active E vs VIdExist r then
     match r_id r with
     | None => once (is_noid k) out
     | Some _ => true end
   else true).

Definition complete_groups (E : excl) (vs : list vkind) (rs : list srule) (out : list issue) : bool :=
  forallb (fun sr =>
    let r := fst sr in
    (if active E vs VIdUniq r then
       match r_id r with
       | Some x => if (1 <? length (group E VIdUniq (map fst rs) x))%nat
                   then once (is_idcoll x) out
                   else true
       | None => true end
     else true) &&
    (if active E vs VTitle r then
       match r_title r with
       | Some x => if (1 <? length (group E VTitle (map fst rs) x))%nat
                   then once (is_title x) out
                   else true
       | None => true end
     else true) &&
    (if active E vs VFile r then
       match r_path r with
       | Some p => if (1 <? length (distinct_paths E rs (path_name p)))%nat
                   then once (is_file (path_name p)) out
                   else true
       | None => true end
     else true)) rs.

(* the property evaluated on an issue list returned by the implementation *)
Definition spec_issues (E : excl) (vs : list vkind) (rs : list srule) (out : list issue) : bool :=
  forallb (justified E vs rs) out && forallb (complete_rule E vs out) rs && complete_groups E vs rs out.
