(* The target query language: a token list is read by a stratified recursive-descent parser for an
   arbitrary assignment of the three operators to precedence levels 1..3 (1 binds tightest; NOT is
   a prefix operator at its own level, binary operators are left-associative, parentheses reset to
   the loosest level).  The parser evaluates directly under a truth assignment of the atoms. *)
From Coq Require Import List Arith Bool.
From PS Require Import Model.Backend.
Import ListNotations.
Open Scope nat_scope.

Section Parser.
Variable lvl : op -> nat.
Variable asg : nat -> bool.

Definition opat (i : nat) : option op :=
  if lvl ONot =? i then Some ONot else if lvl OAnd =? i then Some OAnd
  else if lvl OOr =? i then Some OOr else None.

Definition comb (o : op) (a b : bool) : bool :=
  match o with OAnd => a && b | OOr => a || b | ONot => a end.

Fixpoint pe (f : nat) (i : nat) (ts : list tok) {struct f} : option (bool * list tok) :=
  match f with 0 => None | S f' =>
    match i with
    | 0 => match ts with
           | TAtom a n :: r => Some (xorb (asg a) n, r)
           | TIn d _ l :: r => Some ((if d then existsb asg l else forallb asg l), r)
           | TL :: r => match pe f' 3 r with
                        | Some (v, TR :: r') => Some (v, r')
                        | _ => None end
           | _ => None end
    | S k => match opat i with
             | None => pe f' k ts
             | Some ONot => match ts with
                            | TOp ONot :: r => match pe f' i r with
                                               | Some (v, r') => Some (negb v, r')
                                               | None => None end
                            | _ => pe f' k ts end
             | Some o => match pe f' k ts with
                         | Some (v, r) => loop f' o k v r
                         | None => None end
             end
    end
  end
with loop (f : nat) (o : op) (k : nat) (v : bool) (r : list tok) {struct f} : option (bool * list tok) :=
  match f with 0 => None | S f' =>
    match r with
    | TOp o' :: r' => if op_eqb o' o then
                        match pe f' k r' with
                        | Some (v', r'') => loop f' o k (comb o v v') r''
                        | None => None end
                      else Some (v, r)
    | _ => Some (v, r)
    end
  end.

(* whole-query reading with a fuel that always suffices (see Proofs/BackendP.v) *)
Definition tparse (ts : list tok) : option bool :=
  match pe (S (4 * length ts + 4)) 3 ts with
  | Some (v, []) => Some v
  | _ => None
  end.
End Parser.

(* meaning of a condition tree *)
Section Den.
Variable asg : nat -> bool.
Fixpoint den (c : cond) : bool :=
  match c with
  | CAtom _ _ _ a => asg a
  | CExp args => existsb den args
  | COrFresh _ ps => existsb (fun p => asg (fst p)) ps
  | CNotExists a => negb (asg a)
  | CNot a => negb (den a)
  | CBin BAnd args => forallb den args
  | CBin BOr args => existsb den args
  end.
End Den.
