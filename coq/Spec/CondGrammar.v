(* C02 - the Sigma condition grammar as a generative relation, and the meaning of an expression.

   Spells s e : the text s is one of the spellings of the expression e:
     - s is a layout (Lay) of a token sequence: blanks (space, tab, LF, CR) may surround every
       token and are required where two words meet; a word is a non-empty run over [A-Za-z0-9_*-];
     - the token sequence is generated (SpellsT) by the stratified grammar
           atom := name | quantifier 'of' pattern | '(' or-expr ')'
           not-expr := 'not' not-expr | atom
           and-expr := and-expr 'and' not-expr | not-expr          (left associative)
           or-expr  := or-expr 'or' and-expr | and-expr            (left associative)
       i.e. NOT binds tighter than AND, AND tighter than OR, parentheses override and may be
       redundant.
   wf_expr e : names are words over [A-Za-z0-9_-] other than the reserved words not/and/or,
       patterns are words over [A-Za-z0-9_*]. Names may *begin* with a reserved word, may be
       1/any/all/of/them, may start with a digit, '_' or '-'.
   sem : a name stands for its detection; a selector for the OR (1, any) resp. AND (all) of exactly
       the detections, in document order, whose name matches the pattern ('them' matches every
       name), never an underscore-prefixed name unless the pattern itself starts with '_'. *)
From Coq Require Import NArith List Bool Arith.
From PS Require Import Base.Chars Model.CondParse Spec.Glob.
Import ListNotations.
Open Scope N_scope.

Inductive expr :=
| EId (n : str)
| ESel (q : quant) (p : str)
| ENot (e : expr)
| EAnd (a b : expr)
| EOr (a b : expr).

(* ---------- meaning ---------- *)
Section Sem.
  Variable vid : str -> bool.
  Variable vsel : quant -> str -> bool.
  Fixpoint semv (e : expr) : bool :=
    match e with
    | EId n => vid n
    | ESel q p => vsel q p
    | ENot a => negb (semv a)
    | EAnd a b => semv a && semv b
    | EOr a b => semv a || semv b
    end.
End Sem.

Definition us (s : str) : bool := match s with c :: _ => c =? c_us | [] => false end.

Definition selected (p n : str) : bool :=
  (str_eqb p w_them || globb p n) && (us p || negb (us n)).

Definition sel_names (dets : list str) (p : str) : list str := filter (selected p) dets.

Definition sel_val (dets : list str) (asg : str -> bool) (q : quant) (p : str) : bool :=
  match q with
  | QAll => forallb asg (sel_names dets p)
  | _ => existsb asg (sel_names dets p)
  end.

Definition sem (dets : list str) (asg : str -> bool) (e : expr) : bool :=
  semv asg (sel_val dets asg) e.

(* meaning of a parse tree as the implementation returns it (n-ary AND / OR nodes) *)
Section Den.
  Variable vid : str -> bool.
  Variable vsel : quant -> str -> bool.
  Fixpoint denv (t : ptree) : bool :=
    match t with
    | PId n => vid n
    | PSel q p => vsel q p
    | PNot a => negb (denv a)
    | PAnd l => forallb denv l
    | POr l => existsb denv l
    end.
End Den.
Definition den (dets : list str) (asg : str -> bool) (t : ptree) : bool :=
  denv asg (sel_val dets asg) t.

(* ---------- well-formed expressions ---------- *)
Definition reserved (w : str) : bool := str_eqb w w_not || str_eqb w w_and || str_eqb w w_or.

Fixpoint wf_expr (e : expr) : bool :=
  match e with
  | EId n => is_ident n && negb (reserved n)
  | ESel _ p => is_pat p
  | ENot a => wf_expr a
  | EAnd a b | EOr a b => wf_expr a && wf_expr b
  end.

Fixpoint names_of (e : expr) : list str :=
  match e with
  | EId n => [n]
  | ESel _ _ => []
  | ENot a => names_of a
  | EAnd a b | EOr a b => names_of a ++ names_of b
  end.
Fixpoint patterns_of (e : expr) : list str :=
  match e with
  | EId _ => []
  | ESel _ p => [p]
  | ENot a => patterns_of a
  | EAnd a b | EOr a b => patterns_of a ++ patterns_of b
  end.

(* every name used is a detection of the rule *)
Definition defined (dets : list str) (e : expr) : bool :=
  forallb (fun n => existsb (str_eqb n) dets) (names_of e).
(* every selector selects at least one detection *)
Definition inhabited (dets : list str) (e : expr) : bool :=
  forallb (fun p => nonempty (sel_names dets p)) (patterns_of e).

(* ---------- the grammar on tokens ---------- *)
Inductive SpellsT : nat -> list tok -> expr -> Prop :=
| sp_id n : SpellsT 0 [TW n] (EId n)
| sp_sel q p : SpellsT 0 [TW (qword q); TW w_of; TW p] (ESel q p)
| sp_par ts e : SpellsT 3 ts e -> SpellsT 0 (TL :: ts ++ [TR]) e
| sp_not ts e : SpellsT 1 ts e -> SpellsT 1 (TW w_not :: ts) (ENot e)
| sp_and ts1 ts2 a b : SpellsT 2 ts1 a -> SpellsT 1 ts2 b -> SpellsT 2 (ts1 ++ TW w_and :: ts2) (EAnd a b)
| sp_or ts1 ts2 a b : SpellsT 3 ts1 a -> SpellsT 2 ts2 b -> SpellsT 3 (ts1 ++ TW w_or :: ts2) (EOr a b)
| sp_up i ts e : SpellsT i ts e -> SpellsT (S i) ts e.

(* ---------- layout: how a token sequence is written down ---------- *)
Definition blanks (ws : str) : Prop := forallb is_blank ws = true.
Definition word (w : str) : Prop := w <> [] /\ forallb is_wordc w = true.

(* Lay b ts s : s is a layout of ts; b tells that the previous token was a word *)
Inductive Lay : bool -> list tok -> str -> Prop :=
| lay_nil b ws : blanks ws -> Lay b [] ws
| lay_word b ws w ts s : blanks ws -> (b = true -> ws <> []) -> word w ->
    Lay true ts s -> Lay b (TW w :: ts) (ws ++ w ++ s)
| lay_lpar b ws ts s : blanks ws -> Lay false ts s -> Lay b (TL :: ts) (ws ++ c_lpar :: s)
| lay_rpar b ws ts s : blanks ws -> Lay false ts s -> Lay b (TR :: ts) (ws ++ c_rpar :: s).

Definition Spells (s : str) (e : expr) : Prop :=
  exists ts, Lay false ts s /\ SpellsT 3 ts e.

(* ---------- an executable reading of the same grammar, by a different algorithm ----------
   Used by the specification oracle on raw strings: precedence by splitting at the LAST
   top-level (outside parentheses) operator of the loosest kind. *)
Fixpoint split_last (w : str) (ts : list tok) (d : nat) (pre : list tok)
         (best : option (list tok * list tok)) : option (list tok * list tok) :=
  match ts with
  | [] => best
  | t :: r =>
      let is_pattern := match pre with          (* the word after "<quantifier> of" is a pattern *)
                        | TW o :: TW q :: _ => str_eqb o w_of && match quant_of q with Some _ => true | None => false end
                        | _ => false end in
      let best' := match t with
                   | TW x => if (d =? 0)%nat && str_eqb x w && negb is_pattern then Some (rev pre, r) else best
                   | _ => best end in
      let d' := match t with TL => S d | TR => pred d | _ => d end in
      split_last w r d' (t :: pre) best'
  end.

Fixpoint balanced (ts : list tok) (d : nat) : bool :=
  match ts with
  | [] => (d =? 0)%nat
  | TL :: r => balanced r (S d)
  | TR :: r => match d with O => false | S d' => balanced r d' end
  | _ :: r => balanced r d
  end.

Fixpoint ref (f : nat) (i : nat) (ts : list tok) {struct f} : option expr :=
  match f with
  | O => None
  | S f' =>
      match i with
      | 0%nat =>
          match ts with
          | [TW n] => if is_ident n && negb (reserved n) then Some (EId n) else None
          | [TW q; TW o; TW p] =>
              match quant_of q with
              | Some qq => if str_eqb o w_of && is_pat p then Some (ESel qq p) else None
              | None => None
              end
          | TL :: r =>
              match rev r with
              | TR :: m => if balanced (rev m) 0 then ref f' 3 (rev m) else None
              | _ => None
              end
          | _ => None
          end
      | 1%nat =>
          match ts with
          | TW w :: r => if str_eqb w w_not then option_map ENot (ref f' 1 r) else ref f' 0 ts
          | _ => ref f' 0 ts
          end
      | S k =>
          let o := lvl_op k in
          match split_last (opw o) ts 0 [] None with
          | Some (l, r) =>
              match ref f' (S k) l, ref f' k r with
              | Some a, Some b => Some (match o with BAnd => EAnd a b | BOr => EOr a b end)
              | _, _ => None
              end
          | None => ref f' k ts
          end
      end
  end.

Definition ref_parse (ts : list tok) : option expr :=
  if balanced ts 0 then ref (4 * length ts + 4) 3 ts else None.

(* ---------- what is accepted at all ("no junk") ----------
   SpellsL is the grammar above with the two leniencies of the implementation made explicit:
   a reserved word may stand for a name (the implementation reads "not", "a and not" that way when
   the operator reading fails), and "of" may be fused with a pattern that starts with '*'.
   Names and patterns carry their lexical conditions here. *)
Inductive SpellsL : nat -> list tok -> expr -> Prop :=
| spl_id n : is_ident n = true -> SpellsL 0 [TW n] (EId n)
| spl_sel q p : is_pat p = true -> SpellsL 0 [TW (qword q); TW w_of; TW p] (ESel q p)
| spl_sel_fused q p' : forallb is_patc p' = true ->
    SpellsL 0 [TW (qword q); TW (w_of ++ c_star :: p')] (ESel q (c_star :: p'))
| spl_par ts e : SpellsL 3 ts e -> SpellsL 0 (TL :: ts ++ [TR]) e
| spl_not ts e : SpellsL 1 ts e -> SpellsL 1 (TW w_not :: ts) (ENot e)
| spl_and ts1 ts2 a b : SpellsL 2 ts1 a -> SpellsL 1 ts2 b -> SpellsL 2 (ts1 ++ TW w_and :: ts2) (EAnd a b)
| spl_or ts1 ts2 a b : SpellsL 3 ts1 a -> SpellsL 2 ts2 b -> SpellsL 3 (ts1 ++ TW w_or :: ts2) (EOr a b)
| spl_up i ts e : SpellsL i ts e -> SpellsL (S i) ts e.

Definition SpellsLenient (s : str) (e : expr) : Prop :=
  exists ts, Lay false ts s /\ SpellsL 3 ts e.

(* the expression an (n-ary) parse tree stands for: same-operator runs associate to the left *)
Fixpoint unflat (t : ptree) : expr :=
  match t with
  | PId n => EId n
  | PSel q p => ESel q p
  | PNot a => ENot (unflat a)
  | PAnd l => match l with
              | [] => EId []
              | x :: r => fold_left (fun a y => EAnd a (unflat y)) r (unflat x)
              end
  | POr l => match l with
             | [] => EId []
             | x :: r => fold_left (fun a y => EOr a (unflat y)) r (unflat x)
             end
  end.
