(* Specification of Base64 (RFC 4648, section 4) over bit strings, and the notion "occurs in". *)
From Coq Require Import NArith List Bool.
From PS Require Import Base.Chars.
Import ListNotations.
Open Scope N_scope.

(* octets *)
Definition byte_ok (b : N) : bool := b <? 256.
Definition bytes_ok (bs : list N) : bool := forallb byte_ok bs.

(* the bits of an octet, most significant first; the bit string of an octet string *)
Definition byte_bits (b : N) : list bool :=
  [N.testbit b 7; N.testbit b 6; N.testbit b 5; N.testbit b 4;
   N.testbit b 3; N.testbit b 2; N.testbit b 1; N.testbit b 0].
Definition bits (bs : list N) : list bool := flat_map byte_bits bs.

(* value of a bit string read as a binary number, most significant bit first *)
Definition b2n (b : bool) : N := if b then 1 else 0.
Definition bits_val (l : list bool) : N := fold_left (fun acc b => 2 * acc + b2n b) l 0.

(* Table 1 of RFC 4648: "ABCDEFGHIJKLMNOPQRSTUVWXYZabcdefghijklmnopqrstuvwxyz0123456789+/" *)
Definition alphabet : str :=
  [65;66;67;68;69;70;71;72;73;74;75;76;77;78;79;80;81;82;83;84;85;86;87;88;89;90;
   97;98;99;100;101;102;103;104;105;106;107;108;109;110;111;112;113;114;115;116;117;118;119;120;121;122;
   48;49;50;51;52;53;54;55;56;57;43;47].
Definition c_pad : char := 61.   (* = *)
Definition sextet (g : list bool) : char := nth (N.to_nat (bits_val g)) alphabet 0.

(* The input bit string is cut into groups of six bits from the left. *)
(* all groups; a shorter last group is filled with zero bits on the right *)
Fixpoint groups6 (l : list bool) : list (list bool) :=
  match l with
  | b0 :: b1 :: b2 :: b3 :: b4 :: b5 :: r => [b0; b1; b2; b3; b4; b5] :: groups6 r
  | [] => []
  | _ => [firstn 6 (l ++ repeat false 5)]
  end.
(* only the complete groups *)
Fixpoint full_groups6 (l : list bool) : list (list bool) :=
  match l with
  | b0 :: b1 :: b2 :: b3 :: b4 :: b5 :: r => [b0; b1; b2; b3; b4; b5] :: full_groups6 r
  | _ => []
  end.
Definition enc6 (l : list bool) : str := map sextet (groups6 l).
Definition full6 (l : list bool) : str := map sextet (full_groups6 l).

(* RFC 4648: every group of six bits is translated into one character of the alphabet; when
   fewer than 24 bits remain at the end, zero bits are added on the right to form an integral
   number of 6-bit groups and the text is padded with "=" to a multiple of four characters. *)
Definition rfc4648 (bs : list N) : str :=
  let cs := enc6 (bits bs) in
  cs ++ repeat c_pad (Nat.modulo (4 - Nat.modulo (length cs) 4) 4).

(* occurrence of a text inside another *)
Definition infix (v t : str) : Prop := exists a b, t = a ++ v ++ b.
Definition occurs_at (n : nat) (v t : str) : Prop := exists a b, t = a ++ v ++ b /\ length a = n.

Fixpoint infixb (v t : str) : bool :=
  prefixb v t || match t with [] => false | _ :: t' => infixb v t' end.

(* The part of the Base64 text of  pre ++ p ++ suf  that is determined by p alone, when p starts
   k bits after a group boundary (k = 0, 4, 2 for length pre mod 3 = 0, 1, 2): the complete
   6-bit groups of the bit string of p after dropping its first k bits. *)
Definition lead_bits (i : nat) : nat := match i with 0 => 0 | 1 => 4 | _ => 2 end%nat.
Definition payload_text (i : nat) (p : list N) : str := full6 (skipn (lead_bits i) (bits p)).
