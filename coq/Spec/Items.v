(* Specification view of a Sigma string: the list of its literal characters and wildcards,
   a wildcard matching relation, and the readers of the plain form, of a target literal and
   of the regular-expression fragment emitted for wildcard strings. *)
From Coq Require Import NArith List Bool.
From PS Require Import Base.Chars Model.SString.
Import ListNotations.
Open Scope N_scope.

Inductive item := Lit (c : char) | Multi | Single | Ph (name : str).

Definition item_eqb (a b : item) : bool :=
  match a, b with
  | Lit x, Lit y => N.eqb x y
  | Multi, Multi | Single, Single => true
  | Ph x, Ph y => str_eqb x y
  | _, _ => false
  end.

Definition part_items (p : part) : list item :=
  match p with
  | PStr s => map Lit s
  | PMulti => [Multi]
  | PSingle => [Single]
  | PPh n => [Ph n]
  end.
Definition items (v : sstring) : list item := flat_map part_items v.

(* The Sigma specification's reading of a value string (escape = true):
   backslash before '*', '?' or backslash yields that character as a literal; any other
   backslash is a plain character; '*' and '?' are wildcards. *)
Definition special_item (c : char) : item := if N.eqb c c_star then Multi else Single.
Fixpoint iparse (s : str) : list item :=
  match s with
  | [] => []
  | c :: s' =>
    if N.eqb c c_bs then
      match s' with
      | [] => [Lit c_bs]
      | d :: s'' => if is_special d || N.eqb d c_bs then Lit d :: iparse s''
                    else Lit c_bs :: Lit d :: iparse s''
      end
    else if is_special c then special_item c :: iparse s'
    else Lit c :: iparse s'
  end.

(* reading without escaping (regular expressions are stored this way) *)
Definition iparse_noesc (s : str) : list item :=
  map (fun c => if is_special c then special_item c else Lit c) s.

(* wildcard matching: which subject strings a pattern denotes *)
Fixpoint wild_match (p : list item) (s : str) {struct p} : bool :=
  match p with
  | [] => match s with [] => true | _ => false end
  | Lit c :: p' => match s with x :: s' => N.eqb c x && wild_match p' s' | [] => false end
  | Single :: p' => match s with _ :: s' => wild_match p' s' | [] => false end
  | Multi :: p' =>
      (fix go (s : str) : bool :=
         wild_match p' s || match s with [] => false | _ :: s' => go s' end) s
  | Ph _ :: _ => false
  end.

(* the plain form, on items *)
Definition item_plain (i : item) : str :=
  match i with
  | Lit c => if is_special c then [c_bs; c] else [c]
  | Multi => [c_star]
  | Single => [c_qm]
  | Ph n => c_pct :: n ++ [c_pct]
  end.
Definition plain_items (l : list item) : str := flat_map item_plain l.

(* The domain on which the plain form is faithful: a literal backslash is never directly
   followed by a wildcard, by a literal '*', '?' or by another backslash. *)
Fixpoint no_bs_adjacent (l : list item) : bool :=
  match l with
  | [] => true
  | Lit c :: l' =>
      (if N.eqb c c_bs then
         match l' with
         | [] => true
         | Lit d :: _ => negb (is_special d || N.eqb d c_bs)
         | _ => false
         end
       else true) && no_bs_adjacent l'
  | Ph _ :: _ => false
  | _ :: l' => no_bs_adjacent l'
  end.

(* Reader of a target-language literal under an escaping configuration: the escape character
   makes the next character literal; a wildcard token stands for the wildcard; everything else
   is itself. Wildcards are tried multi first. *)
Definition starts (w : option str) (s : str) : option str :=
  match w with
  | Some (x :: w') => if prefixb (x :: w') s then Some (skipn (length (x :: w')) s) else None
  | _ => None
  end.
Fixpoint tdecode (fuel : nat) (K : ecfg) (s : str) : option (list item) :=
  match fuel with
  | O => None
  | S f =>
    match s with
    | [] => Some []
    | c :: s' =>
      if match e_esc K with Some e => N.eqb e c | None => false end then
        match s' with
        | d :: s'' => option_map (cons (Lit d)) (tdecode f K s'')
        | [] => None
        end
      else match starts (e_multi K) s with
           | Some r => option_map (cons Multi) (tdecode f K r)
           | None =>
             match starts (e_single K) s with
             | Some r => option_map (cons Single) (tdecode f K r)
             | None => option_map (cons (Lit c)) (tdecode f K s')
             end
           end
    end
  end.
Definition tread (K : ecfg) (s : str) : option (list item) := tdecode (S (length s)) K s.

(* what remains of a value after the configured character filter *)
Definition filter_items (K : ecfg) (l : list item) : list item :=
  filter (fun i => match i with Lit c => negb (mem c (e_filter K)) | _ => true end) l.

(* Reader of the regular-expression fragment: "\x" is the literal x, ".*" any string,
   "." any character, any other character itself. *)
Fixpoint rdecode (s : str) : option (list item) :=
  match s with
  | [] => Some []
  | c :: s' =>
    if N.eqb c c_bs then
      match s' with
      | d :: s'' => option_map (cons (Lit d)) (rdecode s'')
      | [] => None
      end
    else if N.eqb c c_dot then
      match s' with
      | d :: s'' => if N.eqb d c_star then option_map (cons Multi) (rdecode s'')
                    else option_map (cons Single) (rdecode s')
      | [] => Some [Single]
      end
    else option_map (cons (Lit c)) (rdecode s')
  end.

(* Python slice semantics on the item list (the specification of SigmaString.__getitem__ for
   in-range indices): negative indices count from the end and are clamped at 0 as in Python, a missing
   stop means "to the end"; the library may instead reject out-of-range bounds with IndexError. *)
From Coq Require Import ZArith.
Definition spec_slice (l : list item) (start0 stop0 : option Z) : option (list item) :=
  let len := Z.of_nat (length l) in
  let start := match start0 with Some x => x | None => 0%Z end in
  let start := Z.max 0 (if (start <? 0)%Z then (len + start)%Z else start) in
  let stop := Z.max 0 (match stop0 with Some x => if (x <? 0)%Z then (len + x)%Z else x | None => len end) in
  Some (firstn (Z.to_nat (stop - start)) (skipn (Z.to_nat start) l)).

(* Reader of a *quoted* target literal: opening quote, body read as by tdecode, the first
   unescaped quote character closes the literal and must be its last character. *)
Fixpoint qdecode (fuel : nat) (K : ecfg) (q : char) (s : str) : option (list item) :=
  match fuel with
  | O => None
  | S f =>
    match s with
    | [] => None                                   (* unterminated literal *)
    | c :: s' =>
      if match e_esc K with Some e => N.eqb e c | None => false end then
        match s' with
        | d :: s'' => option_map (cons (Lit d)) (qdecode f K q s'')
        | [] => None
        end
      else if N.eqb c q then match s' with [] => Some [] | _ => None end
      else match starts (e_multi K) s with
           | Some r => option_map (cons Multi) (qdecode f K q r)
           | None =>
             match starts (e_single K) s with
             | Some r => option_map (cons Single) (qdecode f K q r)
             | None => option_map (cons (Lit c)) (qdecode f K q s')
             end
           end
    end
  end.
Definition qread (K : ecfg) (q : char) (s : str) : option (list item) :=
  match s with
  | c :: body => if N.eqb c q then qdecode (S (length body)) K q body else None
  | [] => None
  end.
