(* C09 - specification: what "references resolve the same way whatever the document order" means.
   Declarative notions used by the theorems, and executable oracles that the correspondence check
   evaluates on the SOURCE documents and the IMPLEMENTATION's output (never on the model's output).
   Only the data types of Model.RefOrder (doc, ref, matches) are shared with the model. *)
From Coq Require Import NArith List Bool Arith Relations Permutation.
From PS Require Import Base.Chars Base.Outcome Model.RefOrder.
Import ListNotations.
Local Open Scope nat_scope.

(* ---------------------------------------------------------------------------------------- *)
(* declarative part *)

(* rules are positions in the collection's document list; rr i = the rules rule i refers to *)
Definition refers (rr : list (list nat)) (c r : nat) : Prop := In r (nth c rr []).

(* every referenced rule occurs before each of its referrers *)
Definition topo_ok (rr : list (list nat)) (ord : list nat) : Prop :=
  forall l1 i l2, ord = l1 ++ i :: l2 -> incl (nth i rr []) l1.

(* no rule refers to itself, directly or through other correlation rules *)
Definition acyclic (rr : list (list nat)) : Prop :=
  forall i, ~ clos_trans nat (refers rr) i i.

(* the same notions on documents, independent of positions (used for "every document order") *)
Definition names (ds : list doc) : list str :=
  flat_map (fun d => match d_name d with Some n => [n] | None => [] end) ds.
Definition ids (ds : list doc) : list str :=
  flat_map (fun d => match d_id d with Some n => [n] | None => [] end) ds.
(* a rule set in which every name and every id is carried by one document only *)
Definition unique_keys (ds : list doc) : Prop := NoDup (names ds) /\ NoDup (ids ds).

(* c refers to d: one of c's reference strings is d's name / id *)
Definition refers_doc (ds : list doc) (c d : doc) : Prop :=
  In c ds /\ In d ds /\ exists r, In r (doc_refs c) /\ matches r d = true.
Definition acyclic_docs (ds : list doc) : Prop :=
  forall d, ~ clos_trans doc (refers_doc ds) d d.

(* the emitted queries, tagged with the document (resp. its title) instead of its position *)
Definition no_doc : doc := {| d_title := []; d_name := None; d_id := None; d_body := Plain [] |}.
Definition by_doc {Q} (ds : list doc) (em : list (nat * Q)) : list (doc * Q) :=
  map (fun iq => (nth (fst iq) ds no_doc, snd iq)) em.
Definition by_title {Q} (ds : list doc) (em : list (nat * Q)) : list (str * Q) :=
  map (fun iq => (d_title (nth (fst iq) ds no_doc), snd iq)) em.

(* a reference nobody answers to *)
Definition dangling (ds : list doc) (r : ref) : Prop := forall d, In d ds -> matches r d = false.
Definition has_dangling (ds : list doc) : Prop :=
  exists c r, In c ds /\ In r (doc_refs c) /\ dangling ds r.

(* ---------------------------------------------------------------------------------------- *)
(* executable part (oracles) *)
Fixpoint nodupb (l : list str) : bool :=
  match l with
  | [] => true
  | x :: t => negb (existsb (str_eqb x) t) && nodupb t
  end.
Definition unique_keysb (ds : list doc) : bool := nodupb (names ds) && nodupb (ids ds).
Definition unique_titlesb (ds : list doc) : bool := nodupb (map d_title ds).

Definition danglingb (ds : list doc) (r : ref) : bool := negb (existsb (matches r) ds).
Definition has_danglingb (ds : list doc) : bool :=
  existsb (fun c => existsb (danglingb ds) (doc_refs c)) ds.

(* positions of the documents that answer to r *)
Fixpoint answers (r : ref) (ds : list doc) (i : nat) : list nat :=
  match ds with
  | [] => []
  | d :: t => if matches r d then i :: answers r t (S i) else answers r t (S i)
  end.
(* the rules document c refers to (all answering documents; exactly one each under unique keys) *)
Definition targets (ds : list doc) (c : doc) : list nat :=
  flat_map (fun r => answers r ds 0) (doc_refs c).

(* acyclicity by exhaustion: a rule is "grounded" once everything it refers to is grounded;
   n rounds ground every rule of an acyclic set of n rules *)
Definition ground_round (ds : list doc) (g : list nat) : list nat :=
  filter (fun i => match nth_error ds i with
                   | Some d => forallb (fun j => existsb (Nat.eqb j) g) (targets ds d)
                   | None => false end) (seq 0 (length ds)).
Fixpoint ground (ds : list doc) (k : nat) : list nat :=
  match k with 0 => [] | S k' => ground_round ds (ground ds k') end.
Definition acyclicb (ds : list doc) : bool := Nat.eqb (length (ground ds (length ds))) (length ds).

(* multisets as lists *)
Section MS.
  Variable A : Type.
  Variable eqb : A -> A -> bool.
  Fixpoint remove1 (x : A) (l : list A) : option (list A) :=
    match l with
    | [] => None
    | y :: t => if eqb x y then Some t
                else match remove1 x t with Some t' => Some (y :: t') | None => None end
    end.
  (* a - b, None when b is not contained in a *)
  Fixpoint msub (a b : list A) : option (list A) :=
    match b with
    | [] => Some a
    | x :: t => match remove1 x a with Some a' => msub a' t | None => None end
    end.
  Definition mincl (b a : list A) : bool := match msub a b with Some _ => true | None => false end.
  Definition meq (a b : list A) : bool := match msub a b with Some [] => true | _ => false end.
End MS.
Arguments remove1 {A}.
Arguments msub {A}.
Arguments mincl {A}.
Arguments meq {A}.

(* position of the (first) document with a title *)
Fixpoint title_pos (ds : list doc) (t : str) (i : nat) : option nat :=
  match ds with
  | [] => None
  | d :: r => if str_eqb (d_title d) t then Some i else title_pos r t (S i)
  end.

(* the order (given by titles) lists every referenced rule before each referrer *)
Fixpoint topo_titles (ds : list doc) (seen : list nat) (ord : list str) : bool :=
  match ord with
  | [] => true
  | t :: rest =>
      match title_pos ds t 0 with
      | None => false
      | Some i =>
          match nth_error ds i with
          | None => false
          | Some d => forallb (fun j => existsb (Nat.eqb j) seen) (targets ds d)
                      && topo_titles ds (i :: seen) rest
          end
      end
  end.

(* what the property fixes about a rule's own output, from the source documents only:
   referrers = correlation rules one of whose references is answered by document i *)
Definition referrers (ds : list doc) (i : nat) : list doc :=
  filter (fun c => existsb (Nat.eqb i) (targets ds c)) ds.
Inductive emission := MustEmit | MustNotEmit | Unconstrained.
Definition emission_of (ds : list doc) (i : nat) : emission :=
  match referrers ds i with
  | [] => MustEmit
  | l => if forallb doc_generate l then MustEmit
         else if forallb (fun c => negb (doc_generate c)) l then MustNotEmit
         else Unconstrained
  end.

(* correlation rule k (asking for generation or not: g) refers to rule i *)
Definition referrer (ds : list doc) (rr : list (list nat)) (k i : nat) (g : bool) : Prop :=
  exists d, nth_error ds k = Some d /\ is_corr d = true /\ doc_generate d = g /\ In i (nth k rr []).

(* two runs of the pipeline on two orders p, ds of the same documents agree: both fail with the same
   error, or both succeed and emit the same multiset of (document, query) *)
Definition same_outcome {Q} (p ds : list doc) (a b : Outcome.outcome (converted Q)) : Prop :=
  match a, b with
  | Outcome.Ok c', Outcome.Ok c => Permutation (by_doc p (c_emitted c')) (by_doc ds (c_emitted c))
  | Outcome.SigmaErr e', Outcome.SigmaErr e => e' = e
  | _, _ => False
  end.
