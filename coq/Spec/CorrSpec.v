(* Specification side of C10: what a correlation query must contain, written per element and per
   field name rather than as a run of the converter.
   expected K P r is the bracket tree the property demands (search part always in the multi-rule
   form, the text of an extended condition left out: its meaning is specified by the truth-table
   semantics of Spec/Target.v):
   - for every referenced rule, in reference order, every query that rule converts to on its own
     (finalised only if the backend opts in), tagged with the rule's name or id;
   - per rule the alias normalisations of the aliases that name *that rule* (whatever identifier
     was used), the target field renamed by the pipeline items that apply to *that rule*;
   - the time span: in seconds = count x unit length, unit-mapped, or as written;
   - group-by fields renamed name by name (aliases are not renamed), condition operator, count,
     renamed condition field, percentile, referenced rule ids. *)
From Coq Require Import String Ascii.
From Coq Require Import List NArith ZArith Bool Arith.
From PS Require Import Base.Chars Base.Outcome Model.Backend Model.BTree Model.Corr.
Import ListNotations.
Open Scope string_scope.
Open Scope list_scope.
Open Scope N_scope.

(* renaming of one field name by the items that apply to a rule with log source categories cats *)
Fixpoint renl (P : list pitem) (cats : list str) (x : str) : list str :=
  match P with
  | [] => [x]
  | it :: r => if matches it cats then flat_map (renl r cats) (apply_name (pi_f it) x) else renl r cats x
  end.
(* the same where exactly one name must result at every step *)
Fixpoint ren1 (P : list pitem) (cats : list str) (x : str) : outcome str :=
  match P with
  | [] => Ok x
  | it :: r => if matches it cats then obind (single (apply_name (pi_f it) x)) (ren1 r cats) else ren1 r cats x
  end.
(* group-by names: alias names are never renamed *)
Fixpoint reng (P : list pitem) (cats : list str) (als : list str) (x : str) : list str :=
  match P with
  | [] => [x]
  | it :: r => if matches it cats
               then flat_map (reng r cats als) (if mem_str x als then [x] else apply_name (pi_f it) x)
               else reng r cats als x
  end.

Definition own_queries (K : kcfg) (ri : rinfo) : list (list node) :=
  if k_finalize K then ri_fin ri else ri_raw ri.

(* normalisations for one referenced rule: entries of every alias that resolve to the same document *)
Definition exp_norm (K : kcfg) (P : list pitem) (als : list (str * list (str * nat * str))) (ref : rref)
  : outcome (list node) :=
  match als with
  | [] => Ok []
  | _ =>
    if negb (k_norm K) then Crash C_NotImpl      (* the backend has no normalisation templates *)
    else
    obind (mapM (fun am : str * list (str * nat * str) =>
                   mapM (fun e : str * nat * str =>
                           obind (ren1 P (ri_cats (rr_info ref)) (snd e))
                                 (fun fl => Ok (E (lit "a") [E (lit "al") (txt (fst am)); E (lit "f") (txt fl)])))
                        (filter (fun e : str * nat * str => Nat.eqb (snd (fst e)) (rr_doc ref)) (snd am)))
                als)
          (fun ll => Ok (concat ll))
  end.

Definition exp_pairs (K : kcfg) (refs : list rref) : list (rref * list node) :=
  flat_map (fun r => map (pair r) (own_queries K (rr_info r))) refs.

Definition exp_fieldref (P : list pitem) (cats : list str) (f : fieldref) : outcome fieldref :=
  match f with
  | FNone => Ok FNone
  | FOne x => obind (ren1 P cats x) (fun y => Ok (FOne y))
  | FMany l => obind (mapM (ren1 P cats) l) (fun l' => Ok (FMany l'))
  end.

Definition expected (K : kcfg) (P : list pitem) (r : crule) : outcome (list node) :=
  match parse_ts (r_ts r) with
  | None => SigmaErr E_Timespan
  | Some t =>
    let refs := referenced r in
    let c := the_cond r in
    let cats := flat_map (fun rf => ri_cats (rr_info rf)) refs in
    let ts := render_ts (k_ts K) (r_ts r) t in
    let gb := option_map (flat_map (reng P cats (map fst (r_aliases r)))) (r_gb r) in
    let fields := flat_map (renl P cats) (r_fields r) in
    let reffields := flat_map (fun rf => flat_map (renl P (ri_cats (rr_info rf))) (ri_fields (rr_info rf))) refs in
    let ext := is_ext c in
    (* every alias target must have exactly one new name, also in entries for rules that are not referenced *)
    obind (mapM (fun am : str * list (str * nat * str) =>
                   mapM (fun e : str * nat * str =>
                           ren1 P (match find (fun rf => Nat.eqb (rr_doc rf) (snd (fst e))) refs with
                                   | Some rf => ri_cats (rr_info rf)
                                   | None => cats
                                   end) (snd e))
                        (snd am))
                (r_aliases r)) (fun _ =>
    obind (mapM (fun rq : rref * list node =>
                   obind (exp_norm K P (r_aliases r) (fst rq))
                         (fun n => Ok (E (lit "r") [E (lit "id") (txt (ruleid (rr_info (fst rq))));
                                                    E (lit "q") (snd rq); E (lit "n") n])))
                (exp_pairs K refs)) (fun entries =>
    obind (match c with CBasic _ _ f _ => exp_fieldref P cats f | CExt _ => Ok FNone end) (fun cf =>
    obind (match r_type r, c with
           | TValuePercentile, CBasic _ _ _ None => SigmaErr E_Conversion
           | _, _ => Ok tt
           end) (fun _ =>
    let rr := E (lit "rr") (rids refs) in
    let g := E (lit "g") (groupby_nodes K gb) in
    let tse := E (lit "ts") (txt ts) in
    Ok (txt (fin_pre K) ++
        [E (if k_own_frame K then lit "Q." ++ ctag (r_type r) ext else lit "Q.default")
           ([E (lit "SM") entries] ++
            (if k_typing K
             then [E (lit "TY") (map (fun rq : rref * list node =>
                                        E (lit "t") [E (lit "id") (txt (ruleid (rr_info (fst rq)))); E (lit "q") (snd rq)])
                                     (exp_pairs K refs))]
             else []) ++
            [tse;
             E (lit "A." ++ ctag (r_type r) ext)
               [tse;
                E (lit "fld") (txt (if ext then [] else field_text cf));
                E (lit "pct") (txt (match c with CBasic _ _ _ (Some p) => dec_of_Z p | _ => [] end));
                rr;
                E (lit "fs") (fields_nodes K gb (reffields ++ fields));
                g];
             E (lit "C." ++ ctag (r_type r) ext)
               (match c with
                | CBasic o cnt _ _ => [E (lit "op") (txt (op_text o)); E (lit "cnt") (txt (dec_of_Z cnt));
                                       E (lit "fld") (txt (field_text cf)); rr]
                | CExt _ => [E (lit "x") []; rr]
                end);
             g])]
        ++ txt (fin_suf K))))))
  end.

(* what the oracle does with the tree read back from a query before comparing it with expected:
   the single-rule search form is rewritten into the multi-rule form (the id of the only referenced
   rule is supplied), and the text of an extended condition is set aside *)
Definition erase_x (n : node) : node :=
  match n with
  | E tag kids => if str_eqb tag (lit "x") then E tag [] else n
  | _ => n
  end.
Definition norm_kid (id0 : str) (n : node) : node :=
  match n with
  | E tag kids =>
      if str_eqb tag (lit "S1") then E (lit "SM") [E (lit "r") (E (lit "id") (txt id0) :: kids)]
      else if prefixb (lit "C.") tag then E tag (map erase_x kids)
      else n
  | _ => n
  end.
Definition normalize (id0 : str) (l : list node) : list node :=
  map (fun n => match n with E tag kids => E tag (map (norm_kid id0) kids) | _ => n end) l.
Definition first_id (r : crule) : str :=
  match referenced r with rf :: _ => ruleid (rr_info rf) | [] => [] end.

(* the extended condition found in a tree *)
Definition find_x (l : list node) : option (list node) :=
  let kids := flat_map (fun n => match n with E _ k => k | _ => [] end) l in
  let ckids := flat_map (fun n => match n with E tag k => if prefixb (lit "C.") tag then k else [] | _ => [] end) kids in
  match flat_map (fun n => match n with E tag k => if str_eqb tag (lit "x") then [k] else [] | _ => [] end) ckids with
  | [x] => Some x
  | _ => None
  end.

(* lexer of the target language of the extended condition: text is cut at blanks and parentheses,
   a <ref|id> element is the atom whose expected id it carries *)
Fixpoint index_of (x : str) (l : list str) (i : nat) : option nat :=
  match l with [] => None | y :: r => if str_eqb x y then Some i else index_of x r (S i) end.
Definition word_tok (w : str) : option (list tok) :=
  match w with
  | [] => Some []
  | _ => if str_eqb w (lit "and") then Some [TOp OAnd] else if str_eqb w (lit "or") then Some [TOp OOr]
         else if str_eqb w (lit "not") then Some [TOp ONot] else None
  end.
Fixpoint lex_text (s : str) (w : str) : option (list tok) :=
  match s with
  | [] => word_tok (rev w)
  | c :: r =>
    if c =? 32 then match word_tok (rev w), lex_text r [] with Some a, Some b => Some (a ++ b) | _, _ => None end
    else if c =? 40 then match word_tok (rev w), lex_text r [] with Some a, Some b => Some (a ++ TL :: b) | _, _ => None end
    else if c =? 41 then match word_tok (rev w), lex_text r [] with Some a, Some b => Some (a ++ TR :: b) | _, _ => None end
    else lex_text r (c :: w)
  end.
Fixpoint lex_nodes (ids : list str) (l : list node) : option (list tok) :=
  match l with
  | [] => Some []
  | T s :: r => match lex_text s [], lex_nodes ids r with Some a, Some b => Some (a ++ b) | _, _ => None end
  | E tag [T name] :: r =>
      if str_eqb tag (lit "ref")
      then match index_of name ids 0, lex_nodes ids r with Some a, Some b => Some (TAtom a false :: b) | _, _ => None end
      else None
  | _ => None
  end.
