(* C11 - specification: which rules a filter targets, and what a narrowed rule means.

   A filter changes a rule iff the rule is a detection rule, the filter's log source covers the
   rule's log source, and the filter's rule list names the rule (or is 'any').
   A narrowed rule: every condition evaluates, for every truth assignment to the detection OBJECTS
   of rule and filter, to (the rule's condition over the rule's name->object bindings) AND
   (the filter's condition over the filter's name->object bindings). Saying it over objects makes
   capture visible: a rule selector that picks up a filter detection, or a filter identifier that
   resolves to a rule detection, changes the truth table. *)
From Coq Require Import NArith ZArith List Bool.
From PS Require Import Base.Chars Base.Outcome Model.FCondParse Model.FCond Model.Filter.
Import ListNotations.
Open Scope N_scope.

(* every attribute the filter's log source specifies has the same value in the rule's *)
Definition covers (f r : logsource) : Prop :=
  (forall x, ls_cat f = Some x -> ls_cat r = Some x) /\
  (forall x, ls_prod f = Some x -> ls_prod r = Some x) /\
  (forall x, ls_serv f = Some x -> ls_serv r = Some x).

(* a reference names a rule: by id when the text is a UUID, else by name; a number is a position in
   the one-rule collection the lookup is made in (0 or -1, an artefact kept by the specification
   because it is what "is contained in the collection [rule]" means for an int) *)
Definition names_rule (ref : ruleref) (r : rule) : Prop :=
  match ref with
  | RText _ (Some u) => r_id r = Some u
  | RText s None => r_name r = Some s
  | RInt z => z = 0%Z \/ z = (-1)%Z
  end.

Definition targets (f : sfilter) (r : rule) : Prop :=
  f_rules f = FAny \/ exists l ref, f_rules f = FRefs l /\ In ref l /\ names_rule ref r.

Definition applies (f : sfilter) (r : rule) : Prop :=
  r_kind r = KDetection /\ covers (f_ls f) (r_ls r) /\ targets f r.

(* executable form, used by the specification oracle of the correspondence check *)
Definition covers_attr (f r : option str) : bool :=
  match f, r with None, _ => true | Some x, Some y => str_eqb x y | Some _, None => false end.
Definition covers_b (f r : logsource) : bool :=
  forallb (fun g : logsource -> option str => covers_attr (g f) (g r)) [ls_cat; ls_prod; ls_serv].
Definition names_rule_b (r : rule) (ref : ruleref) : bool :=
  match ref with
  | RText _ (Some u) => option_eqb N.eqb (r_id r) (Some u)
  | RText s None => option_eqb str_eqb (r_name r) (Some s)
  | RInt z => (z =? 0)%Z || (z =? -1)%Z
  end.
Definition applies_b (f : sfilter) (r : rule) : bool :=
  match r_kind r with KDetection => true | KCorrelation => false end
  && covers_b (f_ls f) (r_ls r)
  && match f_rules f with FAny => true | FRefs l => existsb (names_rule_b r) l end.

(* the truth value of a condition of a detection section, objects valued by asgd; None when the
   condition does not load or contains a vanished (None) argument *)
Definition cond_value (d : dets) (c : str) (asgd : N -> bool) : option bool :=
  match cond_tree d c with
  | Ok (Some t) => ceval (asg_of d asgd) t
  | _ => None
  end.

(* r' is r narrowed by f *)
Definition narrowed (r : rule) (f : sfilter) (r' : rule) : Prop :=
  Forall2 (fun c c' => forall asgd, exists x y,
             cond_value (r_dets r) c asgd = Some x /\
             cond_value (f_dets f) (f_cond f) asgd = Some y /\
             cond_value (r_dets r') c' asgd = Some (x && y))
          (r_conds r) (r_conds r').
