(* Specification of the Sigma value modifiers on the specification view of strings
   (Spec.Items: a string is the list of its literal characters, wildcards and placeholders -
   no grouping into parts, no placeholder trick, no in-place mutation).

   [sp_from_mapping] is the executable form used by the correspondence check (judge bit 2): it is
   evaluated on the source input, and its result is compared with the *implementation's* values.
   The declarative content of the individual definitions (wildcard semantics of contains /
   startswith / endswith, the variant set of windash, the placeholder reading of expand) is
   stated and proved in Proofs/ModSpecP.v; that the model of the code refines this
   specification is proved in Proofs/ModifiersP.v. *)
From Coq Require Import NArith ZArith List Bool.
From PS Require Import Base.Chars Base.Outcome Model.SString Model.ModBytes Model.Modifiers Spec.Items.
Import ListNotations.
Open Scope N_scope.

Definition istr := list item.
Definition sval := gval istr.

(* ---------- wildcard-adding modifiers ---------- *)
Definition is_multi_item (i : item) : bool := match i with Multi => true | _ => false end.
Definition sp_front (l : istr) : istr := match l with Multi :: _ => l | _ => Multi :: l end.
Fixpoint ends_multi_item (l : istr) : bool :=
  match l with [] => false | [i] => is_multi_item i | _ :: l' => ends_multi_item l' end.
Definition sp_back (l : istr) : istr := if ends_multi_item l then l else l ++ [Multi].
Definition sp_contains (l : istr) : istr := sp_back (sp_front l).

(* regular expressions: ".*" is put in front / behind unless the text already starts with ".*" or
   "^" / ends with ".*" or "$" *)
Definition sp_re_front (l : istr) : istr :=
  let t := plain_items l in
  if prefixb dotstar t || prefixb [94] t then l else Lit c_dot :: Multi :: l.
Definition suffixb (p s : str) : bool := prefixb (rev p) (rev s).
Definition sp_re_back (t : str) (l : istr) : istr :=
  if suffixb dotstar t || suffixb [36] t then l else l ++ [Lit c_dot; Multi].

(* ---------- windash: the variants of a string ---------- *)
(* a parameter-position dash: '-' or '/', not preceded by a word character (in the same run of
   literal characters), directly followed by a word character *)
Definition next_is_word (w : char -> bool) (l : istr) : bool :=
  match l with Lit d :: _ => w d | _ => false end.
Fixpoint variants (w : char -> bool) (prev_word : bool) (l : istr) : list istr :=
  match l with
  | [] => [[]]
  | Lit c :: l' =>
      if is_dash c && negb prev_word && next_is_word w l'
      then flat_map (fun d => map (cons (Lit d)) (variants w false l')) dashes
      else map (cons (Lit c)) (variants w (w c) l')
  | i :: l' => map (cons i) (variants w false l')
  end.

(* ---------- expand: %name% -> placeholder ---------- *)
(* literal characters up to the next literal '%' (None if a wildcard / placeholder / the end comes first) *)
Fixpoint take_name (l : istr) (acc : str) : option (str * istr) :=
  match l with
  | Lit c :: l' => if N.eqb c c_pct then Some (acc, l') else take_name l' (acc ++ [c])
  | _ => None
  end.
Fixpoint sp_expand_go (fuel : nat) (l : istr) : istr :=
  match fuel with
  | O => l
  | S f =>
    match l with
    | [] => []
    | Lit c :: l' =>
        if N.eqb c c_pct then
          match take_name l' [] with
          | Some (x :: name, rest) => Ph (x :: name) :: sp_expand_go f rest   (* %name% *)
          | _ => Lit c :: sp_expand_go f l'
          end
        else if N.eqb c c_bs then
          match l' with
          | Lit d :: l'' => if N.eqb d c_pct then Lit c_pct :: sp_expand_go f l''   (* \% -> % *)
                            else Lit c :: sp_expand_go f l'
          | _ => Lit c :: sp_expand_go f l'
          end
        else Lit c :: sp_expand_go f l'
    | i :: l' => i :: sp_expand_go f l'
    end
  end.
Definition sp_expand (l : istr) : istr := sp_expand_go (S (length l)) l.

(* ---------- encodings (content is property C04's subject; here: frame and typing) ---------- *)
Definition has_wildcard (l : istr) : bool :=
  existsb (fun i => match i with Multi | Single => true | _ => false end) l.
Definition flush_run (enc : str -> list byte) (run : str) : option istr :=
  option_map (map Lit) (utf8_decode (enc run)).
Fixpoint sp_recode (enc : str -> list byte) (l : istr) (run : str) : option istr :=
  match l with
  | [] => flush_run enc run
  | Lit c :: l' => sp_recode enc l' (run ++ [c])
  | i :: l' =>
      match flush_run enc run, sp_recode enc l' [] with
      | Some a, Some b => Some (a ++ i :: b)
      | _, _ => None
      end
  end.
(* the characters of the value itself (no escaping of literal wildcard characters) *)
Definition raw_items (l : istr) : str :=
  flat_map (fun i => match i with
                     | Lit c => [c] | Multi => [c_star] | Single => [c_qm]
                     | Ph n => c_pct :: n ++ [c_pct] end) l.
Definition sp_b64 (l : istr) : istr := iparse (b64 (utf8 (raw_items l))).
Definition sp_b64_offset (l : istr) (i : nat) : istr :=
  let start := match i with 0 => 0 | 1 => 2 | _ => 3 end%nat in
  let stop := match Nat.modulo (length (utf8 (raw_items l)) + i) 3 with 0 => None | 1 => Some 3 | _ => Some 2 end%nat in
  iparse (py_slice (b64 (repeat c_space i ++ utf8 (raw_items l))) start stop).

(* ---------- which value types a modifier is defined on ---------- *)
Inductive kind := KStr | KNum | KBool | KNull | KRe | KCidr | KCmp | KFieldRef | KExists | KOther.
Definition kind_of {S} (a : atomv S) : kind :=
  match a with
  | AStr _ _ => KStr | ANum _ => KNum | ABool _ => KBool | ANull => KNull | ARe _ _ _ _ => KRe
  | ACidr _ => KCidr | ACmp _ _ => KCmp | AFieldRef _ _ _ => KFieldRef | AExists _ => KExists
  | AOther => KOther
  end.
Definition sp_defined_on (m : modifier) (k : kind) : bool :=
  match k, m with
  | KStr, (MContains | MStartswith | MEndswith | MBase64 | MBase64Offset | MWide | MUtf16 | MUtf16be
           | MWindash | MRe | MCased | MCidr | MFieldref | MExpand) => true
  | KRe, (MContains | MStartswith | MEndswith | MFlag _ | MExpand) => true
  | KFieldRef, (MContains | MStartswith | MEndswith) => true
  | KNum, (MCmp _ | MTs _) => true
  | KBool, MExists => true
  | _, _ => false
  end.

Definition all_lits (l : istr) : option str :=
  fold_right (fun i r => match i, r with Lit c, Some s => Some (c :: s) | _, _ => None end) (Some []) l.

Definition ret (a : atomv istr) : option sval := Some (VAtom a).
Definition sp_re (O : oracles) (l : istr) (fi fm fs : bool) : option sval :=
  if re_ok O (plain_items l) then ret (ARe l fi fm fs) else None.

(* the meaning of one value modifier on one (non-expansion) value; [first]: no modifier precedes *)
Definition sp_modify (O : oracles) (has_field first : bool) (m : modifier) (a : atomv istr) : option sval :=
  if negb (sp_defined_on m (kind_of a)) then None else
  match m, a with
  | MContains, AStr c l => ret (AStr c (sp_contains l))
  | MStartswith, AStr c l => ret (AStr c (sp_back l))
  | MEndswith, AStr c l => ret (AStr c (sp_front l))
  | MContains, ARe l fi fm fs => sp_re O (sp_re_back (plain_items l) (sp_re_front l)) fi fm fs
  | MStartswith, ARe l fi fm fs => sp_re O (sp_re_back (plain_items l) l) fi fm fs
  | MEndswith, ARe l fi fm fs => sp_re O (sp_re_front l) fi fm fs
  | MContains, AFieldRef f _ _ => ret (AFieldRef f true true)
  | MStartswith, AFieldRef f _ ew => ret (AFieldRef f true ew)
  | MEndswith, AFieldRef f sw _ => ret (AFieldRef f sw true)
  | MBase64, AStr _ l => if has_wildcard l then None else ret (AStr false (sp_b64 l))
  | MBase64Offset, AStr _ l =>
      if has_wildcard l then None
      else Some (VExp (map (fun i => VAtom (AStr false (sp_b64_offset l i))) [0; 1; 2]%nat))
  | MWide, AStr _ l => option_map (fun r => VAtom (AStr false r)) (sp_recode utf16le l [])
  | MUtf16be, AStr _ l => option_map (fun r => VAtom (AStr false r)) (sp_recode utf16be l [])
  | MUtf16, AStr _ l => option_map (fun r => VAtom (AStr false (Lit 65279 :: r))) (sp_recode utf16le l [])
  | MWindash, AStr c l => Some (VExp (map (fun x => VAtom (AStr c x)) (variants (word O) false l)))
  | MRe, AStr _ l =>
      (* only on an unmodified value; the text is kept verbatim, '*' and '?' are regex syntax *)
      if first then match all_lits l with
                    | Some s => sp_re O (iparse_noesc s) false false false
                    | None => None
                    end
      else None
  | MFlag FI, ARe l _ fm fs => ret (ARe l true fm fs)
  | MFlag FM, ARe l fi _ fs => ret (ARe l fi true fs)
  | MFlag FS, ARe l fi fm _ => ret (ARe l fi fm true)
  | MCased, AStr _ l => ret (AStr true l)
  | MCidr, AStr _ l =>
      if first && cidr_ok O (plain_items l) then ret (ACidr (plain_items l)) else None
  | MCmp o, ANum n => ret (ACmp o n)
  | MFieldref, AStr _ l => if has_wildcard l then None else ret (AFieldRef (plain_items l) false false)
  | MExists, ABool b => if has_field && first then ret (AExists b) else None
  | MExpand, AStr c l => ret (AStr c (sp_expand l))
  | MExpand, ARe l fi fm fs => sp_re O (sp_expand l) fi fm fs
  | MTs p, ANum n => ret (ANum (NTs p (num_trunc n)))
  | _, _ => None
  end.

(* values produced by an expanding modifier stay one group; later modifiers act on each member *)
Fixpoint sp_apply (O : oracles) (has_field first : bool) (m : modifier) (v : sval) {struct v}
  : option (list sval) :=
  match v with
  | VAtom a => option_map (fun r => [r]) (sp_modify O has_field first m a)
  | VExp l =>
      option_map (fun r => [VExp r])
        ((fix go (l : list sval) : option (list sval) :=
            match l with
            | [] => Some []
            | x :: r => match sp_apply O has_field first m x, go r with
                        | Some a, Some b => Some (a ++ b)
                        | _, _ => None
                        end
            end) l)
  end.

Fixpoint sp_flat {A B} (f : A -> option (list B)) (l : list A) : option (list B) :=
  match l with
  | [] => Some []
  | x :: r => match f x, sp_flat f r with Some a, Some b => Some (a ++ b) | _, _ => None end
  end.

(* the chain: 'all' switches the linking to AND, 'neq' negates the item, both leave the values
   alone; every other modifier maps over the values *)
Fixpoint sp_chain (O : oracles) (has_field first : bool) (ms : list modifier)
                  (st : list sval * bool * bool) : option (list sval * bool * bool) :=
  match ms with
  | [] => Some st
  | m :: ms' =>
      let '(vs, a, n) := st in
      match m with
      | MAll => sp_chain O has_field false ms' (vs, true, n)
      | MNeq => sp_chain O has_field false ms' (vs, a, true)
      | _ => match sp_flat (sp_apply O has_field first m) vs with
             | Some vs' => sp_chain O has_field false ms' (vs', a, n)
             | None => None
             end
      end
  end.

(* the modifier names of the Sigma specification *)
Definition sp_names : list (str * modifier) := [
  ([99;111;110;116;97;105;110;115], MContains);          (* contains *)
  ([115;116;97;114;116;115;119;105;116;104], MStartswith); (* startswith *)
  ([101;110;100;115;119;105;116;104], MEndswith);        (* endswith *)
  ([97;108;108], MAll);                                  (* all *)
  ([110;101;113], MNeq);                                 (* neq *)
  ([99;97;115;101;100], MCased);                         (* cased *)
  ([101;120;105;115;116;115], MExists);                  (* exists *)
  ([99;105;100;114], MCidr);                             (* cidr *)
  ([102;105;101;108;100;114;101;102], MFieldref);        (* fieldref *)
  ([101;120;112;97;110;100], MExpand);                   (* expand *)
  ([119;105;110;100;97;115;104], MWindash);              (* windash *)
  ([114;101], MRe);                                      (* re *)
  ([105], MFlag FI); ([105;103;110;111;114;101;99;97;115;101], MFlag FI);   (* i, ignorecase *)
  ([109], MFlag FM); ([109;117;108;116;105;108;105;110;101], MFlag FM);     (* m, multiline *)
  ([115], MFlag FS); ([100;111;116;97;108;108], MFlag FS);                  (* s, dotall *)
  ([108;116], MCmp OLt); ([108;116;101], MCmp OLte);                        (* lt, lte *)
  ([103;116], MCmp OGt); ([103;116;101], MCmp OGte);                        (* gt, gte *)
  ([109;105;110;117;116;101], MTs TMinute); ([104;111;117;114], MTs THour); (* minute, hour *)
  ([100;97;121], MTs TDay); ([119;101;101;107], MTs TWeek);                 (* day, week *)
  ([109;111;110;116;104], MTs TMonth); ([121;101;97;114], MTs TYear);       (* month, year *)
  ([98;97;115;101;54;52], MBase64);                                         (* base64 *)
  ([98;97;115;101;54;52;111;102;102;115;101;116], MBase64Offset);           (* base64offset *)
  ([119;105;100;101], MWide); ([117;116;102;49;54], MUtf16); ([117;116;102;49;54;98;101], MUtf16be)
].

Fixpoint sp_lookup_all (ids : list str) : option (list modifier) :=
  match ids with
  | [] => Some []
  | id :: r => match lookup_modifier sp_names id, sp_lookup_all r with
               | Some m, Some ms => Some (m :: ms)
               | _, _ => None
               end
  end.

(* plain values: strings are read by the specification's reader (verbatim under 're'), integral
   floats are integers, non-finite floats and other types are not Sigma values *)
Definition sp_value (has_re : bool) (v : yv) : option sval :=
  match v with
  | YStr s => Some (VAtom (AStr false (if has_re then map Lit s else iparse s)))
  | YInt z => Some (VAtom (ANum (NPlain (NInt z))))
  | YFloat n d => Some (VAtom (ANum (NPlain (if Pos.eqb d 1 then NInt n else NFloat n d))))
  | YBool b => Some (VAtom (ABool b))
  | YNull => Some (VAtom ANull)
  | YNonFinite | YOther => None
  end.
Fixpoint sp_values (has_re : bool) (l : list yv) : option (list sval) :=
  match l with
  | [] => Some []
  | v :: r => match sp_value has_re v, sp_values has_re r with
              | Some a, Some b => Some (a :: b)
              | _, _ => None
              end
  end.

(* field and modifier names of a key "field|mod1|mod2" *)
Definition sp_key (key : option str) : bool * list str :=
  match key with
  | None => (false, [])
  | Some k => match split_on c_pipe k [] with
              | f :: ids => (negb (match f with [] => true | _ => false end), ids)
              | [] => (false, [])
              end
  end.

Definition sp_from_mapping (O : oracles) (key : option str) (val : yin)
  : option (list sval * bool * bool) :=
  let '(has_field, ids) := sp_key key in
  match sp_lookup_all ids with
  | None => None
  | Some ms =>
      match sp_values (existsb is_re ms) (match val with YOne v => [v] | YMany l => l end) with
      | None => None
      | Some vs => sp_chain O has_field true ms (vs, false, false)
      end
  end.

(* the specification view of a model value *)
Definition amap {S T} (f : S -> T) (a : atomv S) : atomv T :=
  match a with
  | AStr c s => AStr c (f s) | ANum n => ANum n | ABool b => ABool b | ANull => ANull
  | ARe s fi fm fs => ARe (f s) fi fm fs | ACidr c => ACidr c | ACmp o n => ACmp o n
  | AFieldRef x sw ew => AFieldRef x sw ew | AExists b => AExists b | AOther => AOther
  end.
Fixpoint gmap {S T} (f : S -> T) (v : gval S) : gval T :=
  match v with
  | VAtom a => VAtom (amap f a)
  | VExp l => VExp (map (gmap f) l)
  end.
Definition view (v : mval) : sval := gmap items v.
