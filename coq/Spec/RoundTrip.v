(* Specification side of C06: the domain on which the plain form of a loaded detection is read
   back as the very same object, the invariant every loaded detection satisfies, and a boolean
   meaning of detections used to compare a detection with its serialised-and-reloaded form when
   the two differ in shape. *)
From Coq Require Import NArith ZArith List Bool.
From PS Require Import Base.Chars Base.Outcome Model.SString Spec.Items Model.Serialize.
Import ListNotations.
Open Scope N_scope.

Definition has_re (ms : list mcls) : bool := has_mod M_RegularExpression ms.

(* a string value is written faithfully: regular expressions verbatim, other strings when no
   literal backslash directly precedes a wildcard, a literal wildcard character or a backslash (D10) *)
Definition sval_dom (re : bool) (v : sval) : bool :=
  match v with
  | SStr s => re || no_bs_adjacent (items s)
  | _ => true
  end.

Fixpoint notin (k : str) (l : list str) : bool :=
  match l with [] => true | x :: r => negb (str_eqb x k) && notin k r end.
Fixpoint nodupb (l : list str) : bool :=
  match l with [] => true | x :: r => notin x r && nodupb r end.

Definition is_err {A} (x : outcome A) : bool := match x with Ok _ => false | _ => true end.

Section Dom.
Context {T : Type}.

Definition item_key (i : item T) : str := key_of (i_field i) (i_mods i).

(* the unbound null keyword: to_plain() returns None for it and SigmaDetection.to_plain drops it *)
Definition null_kw (i : item T) : bool :=
  match i_field i, i_mods i, i_orig i with
  | None, [], Some [SNull] => true
  | _, _, _ => false
  end.

Definition dom_item (i : item T) : bool :=
  negb (null_kw i) &&
  match i_orig i with
  | Some o => forallb (sval_dom (has_re (i_mods i))) o
  | None => false
  end.

(* a nested detection that is written as one plain value *)
Definition plain_single (d : det T) : bool :=
  match d with
  | DItems [i] => match i_field i, i_mods i, i_orig i with
                  | None, [], Some [_] => true
                  | _, _, _ => false
                  end
  | _ => false
  end.

(* Domain of the identity theorem:
   - values as above, no dropped null keyword;
   - the keys written for the items of one mapping are pairwise different (two source keys that
     differ only in a modifier alias - i/ignorecase, m/multiline, s/dotall - are written as the same
     key and take the merge path, see meaning-preservation below);
   - a list of nested detections is not written as a list of plain values only (it would be read
     back as one keyword item with the same meaning) *)
Fixpoint dom (d : det T) : bool :=
  match d with
  | DItems l => forallb dom_item l && nodupb (map item_key l)
  | DSubs l => forallb dom l && existsb (fun s => negb (plain_single s)) l
  | DMixed | DItemsOr _ => false
  end.

(* some item lost its original values (disable_conversion_to_plain) *)
Fixpoint has_disabled (d : det T) : bool :=
  match d with
  | DItems l => existsb (fun i => match i_orig i with None => true | _ => false end) l
  | DSubs l => existsb has_disabled l
  | DItemsOr l => existsb (fun i => match i_orig i with None => true | _ => false end) l
  | DMixed => false
  end.

Definition dom_dets (r : dets T) : bool := forallb (fun nd => dom (snd nd)) (ds_dets r).

(* ---------- invariant of loaded detections ---------- *)
Variable apply_mods : option str -> list mcls -> list sval -> outcome T.

Definition field_ok (f : option str) : Prop :=
  match f with None => True | Some x => x <> [] /\ mem c_pipe x = false end.

Definition inv_val (re : bool) (v : sval) : Prop :=
  if re then exists s, v = SStr [PStr s]
  else match v with
       | SStr s => exists t, s = parse true t
       | SNum _ | SFlt _ | SBool _ | SNull => True
       | _ => False
       end.

Definition inv_item (i : item T) : Prop :=
  field_ok (i_field i) /\
  exists o, i_orig i = Some o /\ apply_mods (i_field i) (i_mods i) o = Ok (i_val i) /\
            Forall (inv_val (has_re (i_mods i))) o.

Fixpoint inv (d : det T) : Prop :=
  match d with
  | DItems l => Forall inv_item l
  | DSubs l => (fix go (l : list (det T)) : Prop :=
                  match l with [] => True | x :: r => inv x /\ go r end) l
  | DMixed | DItemsOr _ => False
  end.
End Dom.

(* ---------- meaning of a written mapping (for the merge path) ----------
   A mapping is the AND of its entries.  An entry key|... : values is read by from_mapping as: the
   values are AND-linked iff `all` is among the modifier identifiers, else OR-linked; every value is an
   atom of the key without its `all` identifiers (same field, same value modifiers).  Which atoms hold
   is an arbitrary assignment h. *)
Definition s_allid : str := [97; 108; 108].    (* all *)
Definition segs_all (k : str) : bool := existsb (str_eqb s_allid) (tl (split_pipe k)).
Definition base_key (k : str) : list str :=
  match split_pipe k with
  | f :: ids => f :: filter (fun s => negb (str_eqb s_allid s)) ids
  | [] => []
  end.
Section Meaning.
Variable h : list str -> pv -> bool.
Definition den_entry (kv : str * mval) : bool :=
  if segs_all (fst kv) then forallb (h (base_key (fst kv))) (vals_of (snd kv))
  else existsb (h (base_key (fst kv))) (vals_of (snd kv)).
Definition den_map (m : list (str * mval)) : bool := forallb den_entry m.
End Meaning.
(* to_plain decides by the substring test "|all" in k; for the keys it writes this is the same as
   from_mapping's reading (Proofs: key_of_wf) *)
Definition key_wf (k : str) : Prop := infixb s_all k = segs_all k.
