(* C14 - specification: a processing pipeline IS (transformation items, query post-processing
   items, finalizers, variables).  Addition is componentwise concatenation and right-biased
   union of the variables; a conversion runs the four stages in order:
     transformations (per rule, item order) -> conversion -> post-processing (per emitted
     query, item order) -> finalizers (once, on the whole output, in order).
   Nothing here knows about object identity, ownership or the heap. *)
From Coq Require Import NArith ZArith List Bool.
From PS Require Import Base.Chars Base.Outcome.
Import ListNotations.
Open Scope N_scope.

(* ---- insertion-ordered dictionaries with string keys (Python dict) ---- *)
Definition dict := list (str * str).
Fixpoint lookup (k : str) (d : dict) : option str :=
  match d with
  | [] => None
  | (k', v) :: d' => if str_eqb k k' then Some v else lookup k d'
  end.
Fixpoint dset (d : dict) (k v : str) : dict :=            (* d[k] = v *)
  match d with
  | [] => [(k, v)]
  | (k', v') :: d' => if str_eqb k k' then (k', v) :: d' else (k', v') :: dset d' k v
  end.
Definition dmerge (a b : dict) : dict :=                  (* {**a, **b} *)
  fold_left (fun d kv => dset d (fst kv) (snd kv)) b a.

(* ---- the item language of the correspondence (built-in transformations only) ---- *)
Inductive ikind :=
| KSetState (k v : str)        (* set_state *)
| KSuffix (s : str)            (* field_name_suffix *)
| KAddCond (f v : str).        (* add_condition {f: v} *)
(* one optional rule condition of an item *)
Inductive pcond :=
| CNone
| CState (k v : str)           (* processing_state: pipeline.state[k] == v *)
| CApplied (id : str).         (* processing_item_applied: the rule was processed by the item with this identifier,
                                  a transformation item or a query post-processing item *)
(* uid = identity of the Python object; id = its `identifier` *)
Record pitem := { i_uid : N; i_id : str; i_kind : ikind; i_cond : pcond }.
Inductive pkind :=
| PEmbed (pre suf : str)       (* embed *)
| PTplState (k : str)          (* simple_template "{query}|{pipeline.state[k]}" *)
| PTplVar (k : str).           (* simple_template "{query}|{pipeline.vars[k]}" *)
Record ppost := { q_uid : N; q_id : str; q_kind : pkind; q_cond : pcond }.
Record pfin := { f_uid : N; f_sep : str; f_pre : str; f_suf : str }.   (* concat finalizer *)

Record apipe := { a_items : list pitem; a_post : list ppost; a_fin : list pfin; a_vars : dict }.
Definition aempty : apipe := {| a_items := []; a_post := []; a_fin := []; a_vars := [] |}.
Definition aplus (p q : apipe) : apipe :=
  {| a_items := a_items p ++ a_items q; a_post := a_post p ++ a_post q;
     a_fin := a_fin p ++ a_fin q; a_vars := dmerge (a_vars p) (a_vars q) |}.
Definition aconcat (l : list apipe) : apipe := fold_left aplus l aempty.
(* equality up to the representation of the variable map *)
Definition aeq (p q : apipe) : Prop :=
  a_items p = a_items q /\ a_post p = a_post q /\ a_fin p = a_fin q /\
  forall k, lookup k (a_vars p) = lookup k (a_vars q).

(* an object can sit in one pipeline only: error tags of the first object met twice *)
Definition E_ProcItem : N := 20.   (* SigmaProcessingItemError *)
Definition E_Transf : N := 21.     (* SigmaTransformationError *)
Definition E_NotFound : N := 22.   (* SigmaPipelineNotFoundError *)
Definition C_Key : N := 30.        (* KeyError *)
Definition C_Attr : N := 31.       (* AttributeError *)
Definition memN (u : N) (l : list N) : bool := existsb (N.eqb u) l.
Fixpoint first_dup (seen : list N) (us : list (N * N)) : option N :=
  match us with
  | [] => None
  | (u, t) :: us' => if memN u seen then Some t else first_dup (u :: seen) us'
  end.
Definition tagged (its : list pitem) (ps : list ppost) (fs : list pfin) : list (N * N) :=
  map (fun i => (i_uid i, E_ProcItem)) its ++ map (fun q => (q_uid q, E_ProcItem)) ps
  ++ map (fun f => (f_uid f, E_Transf)) fs.
Definition atagged (p : apipe) := tagged (a_items p) (a_post p) (a_fin p).
(* p + q as the specification sees it: defined when no object occurs twice *)
Definition aplus_checked (p q : apipe) : outcome apipe :=
  match first_dup [] (atagged (aplus p q)) with
  | None => Ok (aplus p q)
  | Some t => SigmaErr t
  end.

(* ---- rules of the correspondence: detection {field: value}, condition sel or [sel, sel] ---- *)
Record rule := { r_field : str; r_value : str; r_two : bool }.
Inductive fmt := FDefault | FTest | FState.

(* stage 1: transformations, in item order, on one rule *)
Record tstate := { t_conj : list (str * str);   (* conjuncts of the condition, in query order *)
                   t_state : dict;              (* pipeline.state *)
                   t_applied : list bool;       (* pipeline.applied *)
                   t_ids : list str;            (* pipeline.applied_ids (in order of first insertion) *)
                   t_rids : list str }.         (* rule.applied_processing_items: what the rule was processed by so far *)
(* the condition of item i is evaluated in the situation left by the items before it *)
Definition cond_holds (st : dict) (rids : list str) (c : pcond) : bool :=
  match c with
  | CNone => true
  | CState k v => match lookup k st with Some v' => str_eqb v' v | None => false end
  | CApplied i => existsb (str_eqb i) rids
  end.
Definition add_id (ids : list str) (i : str) : list str :=
  if existsb (str_eqb i) ids then ids else ids ++ [i].
Definition a_item_step (t : tstate) (i : pitem) : tstate :=
  if cond_holds (t_state t) (t_rids t) (i_cond i) then
    let conj := match i_kind i with
                | KSuffix s => map (fun fv => (fst fv ++ s, snd fv)) (t_conj t)
                | KAddCond f v => (f, v) :: t_conj t
                | KSetState _ _ => t_conj t
                end in
    let st := match i_kind i with KSetState k v => dset (t_state t) k v | _ => t_state t end in
    {| t_conj := conj; t_state := st; t_applied := t_applied t ++ [true];
       t_ids := add_id (t_ids t) (i_id i); t_rids := add_id (t_rids t) (i_id i) |}
  else
    {| t_conj := t_conj t; t_state := t_state t; t_applied := t_applied t ++ [false];
       t_ids := t_ids t; t_rids := t_rids t |}.
Definition t_init (r : rule) : tstate :=
  {| t_conj := [(r_field r, r_value r)]; t_state := []; t_applied := []; t_ids := []; t_rids := [] |}.
Definition stage_transform (its : list pitem) (r : rule) : tstate :=
  fold_left a_item_step its (t_init r).

(* stage 2: conversion of the (restricted) rule and the format-specific query finalisation *)
Fixpoint join (sep : str) (l : list str) : str :=
  match l with
  | [] => []
  | [x] => x
  | x :: l' => x ++ sep ++ join sep l'
  end.
Definition s_and : str := [32; 97; 110; 100; 32].            (* " and " *)
Definition conj_text (fv : str * str) : str := fst fv ++ [61; 34] ++ snd fv ++ [34].   (* f="v" *)
Definition query_of (conj : list (str * str)) : str := join s_and (map conj_text conj).
Definition s_index : str := [105; 110; 100; 101; 120].
Definition s_default : str := [100; 101; 102; 97; 117; 108; 116].
Definition fmt_query (f : fmt) (st : dict) (q : str) : str :=
  match f with
  | FDefault => q
  | FTest => [91; 32] ++ q ++ [32; 93]
  | FState => s_index ++ [61] ++ match lookup s_index st with Some v => v | None => s_default end
              ++ [32; 40] ++ q ++ [41]
  end.
Definition stage_convert (f : fmt) (r : rule) (t : tstate) : list str :=
  let q := fmt_query f (t_state t) (query_of (t_conj t)) in
  if r_two r then [q; q] else [q].

(* stage 3: post-processing of one emitted query, in item order; the accumulator is the query, the
   pipeline's applied_ids and what the rule was processed by (embed marks the rule, simple_template
   does not); the latter two carry over to the next query of the same rule *)
Record pacc := { pa_q : str; pa_ids : list str; pa_rids : list str }.
Definition post_mark (p : ppost) (q : str) (a : pacc) (mark : bool) : pacc :=
  {| pa_q := q; pa_ids := add_id (pa_ids a) (q_id p);
     pa_rids := if mark then add_id (pa_rids a) (q_id p) else pa_rids a |}.
Definition a_post_step (st vars : dict) (acc : outcome pacc) (p : ppost) : outcome pacc :=
  obind acc (fun a =>
    if cond_holds st (pa_rids a) (q_cond p) then
      match q_kind p with
      | PEmbed x y => Ok (post_mark p (x ++ pa_q a ++ y) a true)
      | PTplState k => match lookup k st with
                       | Some v => Ok (post_mark p (pa_q a ++ [124] ++ v) a false)
                       | None => Crash C_Key end
      | PTplVar k => match lookup k vars with
                     | Some v => Ok (post_mark p (pa_q a ++ [124] ++ v) a false)
                     | None => Crash C_Key end
      end
    else Ok a).
Definition stage_post_one (ps : list ppost) (st vars : dict) (q : str) (ids rids : list str) :=
  fold_left (a_post_step st vars) ps (Ok {| pa_q := q; pa_ids := ids; pa_rids := rids |}).
Fixpoint stage_post (ps : list ppost) (st vars : dict) (qs : list str) (ids rids : list str)
  : outcome (list str * list str) :=
  match qs with
  | [] => Ok ([], ids)
  | q :: qs' => obind (stage_post_one ps st vars q ids rids) (fun a =>
                obind (stage_post ps st vars qs' (pa_ids a) (pa_rids a)) (fun r => Ok (pa_q a :: fst r, snd r)))
  end.

(* stage 4: finalizers, once, on the whole output (a list, or the string made by an earlier one:
   str.join over a string joins its characters) *)
Inductive output := OList (l : list str) | OStr (s : str).
Definition fin_step (o : output) (f : pfin) : output :=
  OStr (f_pre f ++ join (f_sep f) (match o with OList l => l | OStr s => map (fun c => [c]) s end)
        ++ f_suf f).
Definition stage_final (fs : list pfin) (qs : list str) : output := fold_left fin_step fs (OList qs).

(* what a conversion shows: output, (applied, state) after the transformations of every rule,
   applied_ids after the last rule, vars of the pipeline *)
Record result := { o_out : output; o_rules : list (list bool * dict); o_ids : list str; o_vars : dict }.
Record racc := { ra_qs : list str; ra_obs : list (list bool * dict); ra_ids : list str }.
Definition abs_rule (f : fmt) (P : apipe) (acc : outcome racc) (r : rule) : outcome racc :=
  obind acc (fun a =>
    let t := stage_transform (a_items P) r in
    obind (stage_post (a_post P) (t_state t) (a_vars P) (stage_convert f r t) (t_ids t) (t_rids t)) (fun qi =>
    Ok {| ra_qs := ra_qs a ++ fst qi; ra_obs := ra_obs a ++ [(t_applied t, t_state t)];
          ra_ids := snd qi |})).
Definition abs_run (f : fmt) (P : apipe) (rules : list rule) : outcome result :=
  obind (fold_left (abs_rule f P) rules (Ok {| ra_qs := []; ra_obs := []; ra_ids := [] |})) (fun a =>
    Ok {| o_out := stage_final (a_fin P) (ra_qs a); o_rules := ra_obs a; o_ids := ra_ids a;
          o_vars := a_vars P |}).

(* the backend assembles: own pipeline, then the user's, then the output-format pipeline *)
Definition s_backend : str := [98; 97; 99; 107; 101; 110; 100].
Definition s_output_format : str := [111;117;116;112;117;116;95;102;111;114;109;97;116].
Definition s_backend_name : str := [84;101;115;116;32;98;97;99;107;101;110;100].      (* "Test backend" *)
Definition fmt_name (f : fmt) : str :=
  match f with FDefault => s_default | FTest => [116;101;115;116] | FState => [115;116;97;116;101] end.
Definition with_backend_vars (f : fmt) (P : apipe) : apipe :=
  {| a_items := a_items P; a_post := a_post P; a_fin := a_fin P;
     a_vars := dset (dset (a_vars P) s_backend s_backend_name) s_output_format (fmt_name f) |}.

(* resolver order: (priority, name), Python tuple / int / str comparison *)
Fixpoint str_leb (a b : str) : bool :=
  match a, b with
  | [], _ => true
  | _ :: _, [] => false
  | x :: a', y :: b' => if N.ltb x y then true else if N.eqb x y then str_leb a' b' else false
  end.
Definition key := (Z * str)%type.
Definition key_leb (a b : key) : bool :=
  if Z.ltb (fst a) (fst b) then true else if Z.eqb (fst a) (fst b) then str_leb (snd a) (snd b) else false.
Section Sort.
  Context {A : Type} (leb : A -> A -> bool).
  (* the result of any stable sort: insertion from the right keeps equal keys in argument order *)
  Fixpoint insert (x : A) (l : list A) : list A :=
    match l with
    | [] => [x]
    | y :: l' => if leb x y then x :: l else y :: insert x l'
    end.
  Fixpoint isort (l : list A) : list A :=
    match l with [] => [] | x :: l' => insert x (isort l') end.
End Sort.

(* resolver: every spec is looked up first (the last registered pipeline of a name wins), then the
   entries are ordered by (priority, spec) - stably - and summed *)
Section Resolver.
  Context {A : Type} (nm : A -> option str) (pr : A -> Z).
  Definition oname_eqb (n : option str) (s : str) : bool :=
    match n with Some x => str_eqb x s | None => false end.
  Fixpoint reg_lookup (reg : list A) (s : str) : option A :=
    match reg with
    | [] => None
    | p :: reg' => match reg_lookup reg' s with
                   | Some q => Some q
                   | None => if oname_eqb (nm p) s then Some p else None
                   end
    end.
  Fixpoint resolve_all (reg : list A) (specs : list str) : option (list (A * str)) :=
    match specs with
    | [] => Some []
    | s :: specs' => match reg_lookup reg s, resolve_all reg specs' with
                     | Some p, Some l => Some ((p, s) :: l)
                     | _, _ => None
                     end
    end.
  Definition info_key (x : A * str) : key := (pr (fst x), snd x).
  Definition info_leb (x y : A * str) : bool := key_leb (info_key x) (info_key y).
  Definition resolve_order (reg : list A) (specs : list str) : option (list A) :=
    match resolve_all reg specs with
    | None => None
    | Some l => Some (map fst (isort info_leb l))
    end.
End Resolver.

(* ---- histories, as the specification sees them: values only, no objects ----
   registers hold pipelines; the operations are the public API calls of the property *)
Inductive itree := ILeaf (i : nat) | IPlus (a b : itree).
Inductive op :=
| OpTree (e : itree)                     (* push the value of a bracketing of + over registers *)
| OpResolve (specs : list str)           (* push resolver.resolve(specs); resolver table given with the history *)
| OpSum (l : list nat)                   (* push sum([regs...]) (non-empty lists: 0 + p is p, then +) *)
| OpInit (b : bool) (u : option nat) (f : fmt)     (* backend object b: processing_pipeline := reg u; init_processing_pipeline(f) *)
| OpRun (b : bool) (f : fmt)                       (* backend object b: convert_rule(rule, f) on every rule + finalize(queries, f) *)
| OpConvert (b : bool) (u : option nat) (f : fmt). (* backend object b: processing_pipeline := reg u; convert(rules, f) *)
Definition C_Harness : N := 98.          (* ill-formed program (register out of range): never generated *)

Fixpoint itree_ok (n : nat) (e : itree) : bool :=
  match e with ILeaf i => Nat.ltb i n | IPlus a b => itree_ok n a && itree_ok n b end.
Fixpoint aeval (regs : list apipe) (e : itree) : outcome apipe :=
  match e with
  | ILeaf i => match nth_error regs i with Some p => Ok p | None => Crash C_Harness end
  | IPlus a b => obind (aeval regs a) (fun pa => obind (aeval regs b) (fun pb => aplus_checked pa pb))
  end.
Definition asum (l : list apipe) : outcome apipe :=
  match l with
  | [] => Ok aempty
  | p :: l' => fold_left (fun acc q => obind acc (fun s => aplus_checked s q)) l' (Ok p)
  end.
(* the resolver table: identifier -> a registered pipeline object, or something that yields a fresh
   pipeline at every resolution (a callable, or a YAML file named by the spec). Identifiers are
   unrelated to the `name` of the pipelines. *)
Record pdef := { d_items : list pitem; d_post : list ppost; d_fin : list pfin; d_vars : dict;
                 d_prio : Z; d_name : option str }.
Inductive rent (A : Type) :=
| RObj (a : A)               (* a registered pipeline object *)
| RCall (d : pdef)           (* a callable / YAML file: a fresh pipeline with this definition at every resolution *)
| RSeq (ds : list pdef).     (* a callable with a memory: its k-th call yields the k-th definition (the last one
                                from then on).  k is the instantiation counter of the whole history, which is
                                the entry's own call count when it is the only callable / file of the table *)
Arguments RObj {A} a.
Arguments RCall {A} d.
Arguments RSeq {A} ds.
Definition def_empty : pdef := {| d_items := []; d_post := []; d_fin := []; d_vars := []; d_prio := 0%Z; d_name := None |}.
Definition seq_pick (c : N) (ds : list pdef) : pdef := nth (N.to_nat c) ds (last ds def_empty).
Definition tab_nm {A} (e : str * rent A) : option str := Some (fst e).
Definition apipe_of (d : pdef) : apipe :=
  {| a_items := d_items d; a_post := d_post d; a_fin := d_fin d; a_vars := d_vars d |}.
(* fresh objects: the c-th instantiation gets identities FRESH_BASE + 64 c, ... *)
Definition FRESH_BASE : N := 1048576.
Fixpoint renum_items (u : N) (l : list pitem) : list pitem :=
  match l with
  | [] => []
  | i :: l' => {| i_uid := u; i_id := i_id i; i_kind := i_kind i; i_cond := i_cond i |} :: renum_items (N.succ u) l'
  end.
Fixpoint renum_post (u : N) (l : list ppost) : list ppost :=
  match l with
  | [] => []
  | q :: l' => {| q_uid := u; q_id := q_id q; q_kind := q_kind q; q_cond := q_cond q |} :: renum_post (N.succ u) l'
  end.
Fixpoint renum_fin (u : N) (l : list pfin) : list pfin :=
  match l with
  | [] => []
  | x :: l' => {| f_uid := u; f_sep := f_sep x; f_pre := f_pre x; f_suf := f_suf x |} :: renum_fin (N.succ u) l'
  end.
Definition renum (c : N) (d : pdef) : pdef :=
  let u0 := FRESH_BASE + 64 * c in
  let u1 := u0 + N.of_nat (length (d_items d)) in
  let u2 := u1 + N.of_nat (length (d_post d)) in
  {| d_items := renum_items u0 (d_items d); d_post := renum_post u1 (d_post d); d_fin := renum_fin u2 (d_fin d);
     d_vars := d_vars d; d_prio := d_prio d; d_name := d_name d |}.
Definition aval := (apipe * Z)%type.      (* a pipeline value and its priority *)
Definition aent_prio (e : str * rent aval) : Z :=
  match snd e with RObj a => snd a | RCall d => d_prio d | RSeq ds => d_prio (seq_pick 0 ds) end.
Fixpoint ainst_all (c : N) (l : list ((str * rent aval) * str)) : list (aval * str) * N :=
  match l with
  | [] => ([], c)
  | es :: l' => match snd (fst es) with
                | RObj a => let r := ainst_all c l' in ((a, snd es) :: fst r, snd r)
                | RCall d => let r := ainst_all (N.succ c) l' in
                             (((apipe_of (renum c d), d_prio d), snd es) :: fst r, snd r)
                | RSeq ds => let d := seq_pick c ds in
                             let r := ainst_all (N.succ c) l' in
                             (((apipe_of (renum c d), d_prio d), snd es) :: fst r, snd r)
                end
  end.
(* every spec is looked up (and instantiated) first, then ordered by (priority, spec), then summed *)
Definition aresolve (c : N) (t : list (str * rent aval)) (specs : list str) : outcome apipe * N :=
  match resolve_all tab_nm t specs with
  | None => (SigmaErr E_NotFound, c)
  | Some l => let r := ainst_all c l in
              (asum (map (fun x : aval * str => fst (fst x)) (isort (info_leb (fun a : aval => snd a)) (fst r))), snd r)
  end.
Fixpoint conv_tab {A} (l : list A) (t : list (str * rent nat)) : option (list (str * rent A)) :=
  match t with
  | [] => Some []
  | (s, RObj i) :: t' => match nth_error l i, conv_tab l t' with
                         | Some a, Some r => Some ((s, RObj a) :: r)
                         | _, _ => None
                         end
  | (s, RCall d) :: t' => match conv_tab l t' with Some r => Some ((s, RCall d) :: r) | None => None end
  | (s, RSeq ds) :: t' => match conv_tab l t' with Some r => Some ((s, RSeq ds) :: r) | None => None end
  end.
Fixpoint nths {A} (l : list A) (is : list nat) : option (list A) :=
  match is with
  | [] => Some []
  | i :: is' => match nth_error l i, nths l is' with Some a, Some r => Some (a :: r) | _, _ => None end
  end.
Definition ainit (f : fmt) (bk : apipe) (user : option apipe) (outf : apipe) : outcome apipe :=
  obind (match user with None => Ok bk | Some u => aplus_checked bk u end) (fun s1 =>
  obind (aplus_checked s1 outf) (fun s2 => Ok (with_backend_vars f s2))).

(* of a backend object the specification remembers only the user pipeline it was last given
   (Some None: none): a conversion runs backend + user + the output-format pipeline OF THE REQUESTED
   FORMAT, composed from the values *)
Record amach := { am_regs : list apipe; am_lastA : option (option apipe); am_lastB : option (option apipe);
                  am_res : option result; am_fresh : N }.
Definition am_last (m : amach) (b : bool) := if b then am_lastB m else am_lastA m.
Definition am_set_last (m : amach) (b : bool) (p : option apipe) : amach :=
  {| am_regs := am_regs m; am_lastA := if b then am_lastA m else Some p;
     am_lastB := if b then Some p else am_lastB m; am_res := am_res m; am_fresh := am_fresh m |}.
Definition am_user (m : amach) (u : option nat) : outcome (option apipe) :=
  match u with
  | None => Ok None
  | Some i => match nth_error (am_regs m) i with Some p => Ok (Some p) | None => Crash C_Harness end
  end.
Definition am_push (m : amach) (c : N) (p : apipe) : amach :=
  {| am_regs := am_regs m ++ [p]; am_lastA := am_lastA m; am_lastB := am_lastB m; am_res := am_res m; am_fresh := c |}.
Definition am_with_res (m : amach) (r : result) : amach :=
  {| am_regs := am_regs m; am_lastA := am_lastA m; am_lastB := am_lastB m; am_res := Some r; am_fresh := am_fresh m |}.
Definition fmt_eqb (a b : fmt) : bool :=
  match a, b with FDefault, FDefault | FTest, FTest | FState, FState => true | _, _ => false end.
Definition astep (t : list (str * rent aval)) (bk : apipe) (outf : fmt -> apipe) (rules : list rule)
           (acc : outcome amach) (o : op) : outcome amach :=
  obind acc (fun m =>
    match o with
    | OpTree e => if itree_ok (length (am_regs m)) e
                  then obind (aeval (am_regs m) e) (fun p => Ok (am_push m (am_fresh m) p))
                  else Crash C_Harness
    | OpResolve specs => let r := aresolve (am_fresh m) t specs in obind (fst r) (fun p => Ok (am_push m (snd r) p))
    | OpSum l => match nths (am_regs m) l with
                 | Some (p :: ps) => obind (asum (p :: ps)) (fun s => Ok (am_push m (am_fresh m) s))
                 | _ => Crash C_Harness
                 end
    | OpInit b u f => obind (am_user m u) (fun up => obind (ainit f bk up (outf f)) (fun _ => Ok (am_set_last m b up)))
    | OpRun b f => let up := match am_last m b with Some up => up | None => None end in
                   obind (ainit f bk up (outf f)) (fun p =>
                   obind (abs_run f p rules) (fun r => Ok (am_with_res (am_set_last m b up) r)))
    | OpConvert b u f => obind (am_user m u) (fun up => obind (ainit f bk up (outf f)) (fun p =>
                         obind (abs_run f p rules) (fun r => Ok (am_with_res (am_set_last m b up) r))))
    end).
(* the specification of a history: what the last conversion must show *)
Definition aexec (ops : list aval) (tn : list (str * rent nat)) (bk : apipe) (outf : fmt -> apipe) (rules : list rule)
           (prog : list op) : outcome result :=
  match conv_tab ops tn with
  | None => Crash C_Harness
  | Some t =>
    obind (fold_left (astep t bk outf rules) prog
                     (Ok {| am_regs := map fst ops; am_lastA := None; am_lastB := None; am_res := None; am_fresh := 0 |}))
          (fun m => match am_res m with Some r => Ok r | None => Crash C_Harness end)
  end.

(* variables over a whole list of pipelines: the last pipeline that defines a name wins *)
Fixpoint vars_lookup (k : str) (l : list dict) : option str :=
  match l with
  | [] => None
  | d :: l' => match vars_lookup k l' with Some v => Some v | None => lookup k d end
  end.
