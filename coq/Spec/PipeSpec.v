(* Specification for C13: a pipeline item acts exactly where its conditions hold.

   1. the documented language of condition expressions (a stratified grammar relation) and its
      boolean meaning;
   2. when a condition group holds, when an item applies to a rule / detection item / field name;
   3. the declarative meaning of the condition classes whose implementation is a search or a
      shortcut (log source, contains_*, include / exclude);
   4. what one pipeline step must do, written target by target ("marker on t iff applies t"),
      with every condition evaluated on the state *before* the item, and the history of
      applications as ghost data;  executable, so that it can be evaluated on the implementation's
      own snapshots. *)
From Coq Require Import NArith ZArith List Bool.
From PS Require Import Base.Chars Base.Outcome Model.PipeExpr Model.PipeCond.
Import ListNotations.
Open Scope N_scope.

(* ------------------------------------------------------------------------------------- *)
(* 1. condition expressions *)
Definition ident_ok (w : str) : Prop := is_kw w = false.

(* "ts spells e": identifiers, parentheses, prefix not, left-associative and, left-associative or,
   binding in this order *)
Inductive SAtom : list tok -> ex -> Prop :=
| sa_id w : ident_ok w -> SAtom [TW w] (EId w)
| sa_par ts e : SOr ts e -> SAtom (TL :: ts ++ [TR]) e
with SNot : list tok -> ex -> Prop :=
| sn_atom ts e : SAtom ts e -> SNot ts e
| sn_not ts e : SNot ts e -> SNot (TW w_not :: ts) (ENot e)
with SAnd : list tok -> ex -> Prop :=
| sd_not ts e : SNot ts e -> SAnd ts e
| sd_and ts1 e1 ts2 e2 : SAnd ts1 e1 -> SNot ts2 e2 -> SAnd (ts1 ++ TW w_and :: ts2) (EAnd e1 e2)
with SOr : list tok -> ex -> Prop :=
| so_and ts e : SAnd ts e -> SOr ts e
| so_or ts1 e1 ts2 e2 : SOr ts1 e1 -> SAnd ts2 e2 -> SOr (ts1 ++ TW w_or :: ts2) (EOr e1 e2).

Scheme SAtom_ind' := Minimality for SAtom Sort Prop
  with SNot_ind' := Minimality for SNot Sort Prop
  with SAnd_ind' := Minimality for SAnd Sort Prop
  with SOr_ind' := Minimality for SOr Sort Prop.
Combined Scheme spells_ind from SAtom_ind', SNot_ind', SAnd_ind', SOr_ind'.

(* meaning under an assignment of the identifiers *)
Fixpoint den (env : str -> bool) (e : ex) : bool :=
  match e with
  | EId w => env w
  | ENot a => negb (den env a)
  | EAnd a b => den env a && den env b
  | EOr a b => den env a || den env b
  end.

(* ------------------------------------------------------------------------------------- *)
(* 2. groups *)
Definition link_holds (l : link) (bs : list bool) : bool :=
  match l with LAnd => forallb (fun b => b) bs | LOr => existsb (fun b => b) bs end.

Definition lookup_holds {C} (holds : C -> bool) (m : list (str * C)) (w : str) : bool :=
  match assoc w m with Some c => holds c | None => false end.

(* a group without conditions always holds; otherwise: negation flag xor (linking | expression) *)
Definition group_holds {C} (holds : C -> bool) (g : ngroup C) : bool :=
  match n_conds g with
  | [] => true
  | _ => xorb (n_neg g)
           (match n_mode g with
            | MLink l => link_holds l (map (fun kv => holds (snd kv)) (n_conds g))
            | MExpr e => den (lookup_holds holds (n_conds g)) e
            end)
  end.

(* conditions may raise; a group has a truth value when all its conditions have one *)
Definition defined {C} (ev : C -> outcome bool) (g : ngroup C) : Prop :=
  forall kv, In kv (n_conds g) -> exists b, ev (snd kv) = Ok b.
Definition truth (o : outcome bool) : bool := match o with Ok b => b | _ => false end.

Definition first_error {C} (ev : C -> outcome bool) (l : list C) : option (outcome bool) :=
  find (fun o => match o with Ok _ => false | _ => true end) (map ev l).

(* ------------------------------------------------------------------------------------- *)
(* 3. declarative meaning of conditions *)
Definition logsource_spec (c p s : option str) (r : option str * option str * option str) : Prop :=
  let '(rc, rp, rs) := r in
  (c = None \/ c = rc) /\ (p = None \/ p = rp) /\ (s = None \/ s = rs).

Definition contains_field_spec (f : option str) (r : rule) : Prop :=
  exists it x, In it (rule_leaves r) /\ f = Some x /\ d_field it = Some x.

Definition contains_item_spec (f : option str) (v : pval) (r : rule) : Prop :=
  exists it x y, In it (rule_leaves r) /\ f = Some x /\ d_field it = Some x /\
                 In y (d_vals it) /\ value_eq_typed y v = true.

(* spec-level evaluation of the conditions: the searches are over the flat list of detection
   items, exclusion is the complement of inclusion, and "was this item applied to this field name"
   reads the ghost history T instead of the implementation's bookkeeping *)
Definition ghost := list (str * sset).
Definition ghist (T : ghost) (f : str) : sset := match assoc f T with Some l => l | None => [] end.

Definition r_holds (w : world) (c : rcond) : outcome bool :=
  let r := w_rule w in
  match c with
  | RLogsource c p s =>
    let '(rc, rp, rs) := r_ls r in Ok (ls_field_ok c rc && ls_field_ok p rp && ls_field_ok s rs)
  | RContainsItem f v =>
    Ok (existsb (fun it => field_is f it && existsb (fun x => value_eq_typed x v) (d_vals it)) (rule_leaves r))
  | RContainsField f => Ok (existsb (field_is f) (rule_leaves r))
  | _ => rcond_eval w c
  end.

Definition d_holds (ps : pstate) (it : ditem) (c : dcond) : outcome bool := dcond_eval ps it c.

Definition include_holds (fs : list str) (f : option str) : bool :=
  match f with Some x => smem x fs | None => false end.
Definition include_re_holds (ps : list rx) (f : option str) : bool :=
  match f with Some x => existsb (fun p => rmatch p x) ps | None => false end.

Definition f_holds (T : ghost) (ps : pstate) (f : option str) (c : fcond) : outcome bool :=
  match c with
  | FInclude fs => Ok (include_holds fs f)
  | FExclude fs => Ok (negb (include_holds fs f))
  | FIncludeRe l => Ok (include_re_holds l f)
  | FExcludeRe l => Ok (negb (include_re_holds l f))
  | FApplied id => Ok (match f with Some x => smem id (ghist T x) | None => false end)
  | FState k v op => match_state (p_state ps) k v op
  end.

Definition refs (it : ditem) : list str :=
  flat_map (fun v => match v with VRef f => [f] | _ => [] end) (d_vals it).

(* a field name condition holds on a detection item if it holds on its field or on a field it
   references; "applied" is asked of the detection item itself *)
Definition f_holds_item (T : ghost) (ps : pstate) (it : ditem) (c : fcond) : outcome bool :=
  match c with
  | FApplied id => Ok (smem id (d_applied it))
  | FState k v op => match_state (p_state ps) k v op
  | _ => Ok (truth (f_holds T ps (d_field it) c) || existsb (fun f => truth (f_holds T ps (Some f) c)) (refs it))
  end.

(* truth value of a group whose conditions may raise: the error of the first failing condition *)
Definition group_eval {C} (ev : C -> outcome bool) (g : ngroup C) : outcome bool :=
  match first_error ev (map snd (n_conds g)) with
  | Some (SigmaErr t) => SigmaErr t
  | Some (Crash t) => Crash t
  | _ => Ok (group_holds (fun c => truth (ev c)) g)
  end.

Definition applies_rule (it : item) (w : world) : outcome bool := group_eval (r_holds w) (i_rule it).
Definition applies_item (it : item) (T : ghost) (ps : pstate) (d : ditem) : outcome bool :=
  obind (group_eval (d_holds ps d) (i_det it)) (fun a =>
  obind (group_eval (f_holds_item T ps d) (i_field it)) (fun b => Ok (a && b))).
Definition applies_field (it : item) (T : ghost) (ps : pstate) (f : option str) : outcome bool :=
  group_eval (f_holds T ps f) (i_field it).

(* ------------------------------------------------------------------------------------- *)
(* 4. one step, target by target *)
Fixpoint omap {A B} (f : A -> outcome B) (l : list A) : outcome (list B) :=
  match l with
  | [] => Ok []
  | x :: r => obind (f x) (fun y => obind (omap f r) (fun ys => Ok (y :: ys)))
  end.

(* where a field name goes under the item (None: stays) *)
Definition rename_of (it : item) (T : ghost) (ps : pstate) (f : option str) : outcome (option fmap) :=
  match apply_field_name (i_tr it) f with
  | None => Ok None
  | Some m => obind (applies_field it T ps f) (fun b => Ok (if b then Some m else None))
  end.

Definition sp_fields (it : item) (T : ghost) (ps : pstate) (l : list str) : outcome (list str) :=
  obind (omap (fun f => obind (rename_of it T ps (Some f)) (fun m =>
                        Ok (match m with Some m => fmap_list m | None => [f] end))) l)
        (fun ll => Ok (concat ll)).

Definition sp_value (it : item) (T : ghost) (ps : pstate) (v : sval) : outcome (list sval * bool) :=
  match v with
  | VRef f => obind (applies_field it T ps (Some f)) (fun b =>
              if b then obind (rename_of it T ps (Some f)) (fun m =>
                        Ok (match m with Some m => map VRef (fmap_list m) | None => [v] end, true))
              else Ok ([v], false))
  | _ => Ok ([v], false)
  end.

(* the detection item after the item was applied to it (copies made by a 1:n mapping carry the
   history of the item they were made from) *)
Definition sp_leaf (it : item) (T : ghost) (ps : pstate) (d : ditem) : outcome dtree :=
  obind (applies_item it T ps d) (fun b =>
  if negb b then Ok (DLeaf d) else
  match i_tr it with
  | TSetValue v =>
    Ok (match d_vals d with
        | [] => DLeaf d
        | _ => DLeaf {| d_field := d_field d; d_vals := map (fun _ => v) (d_vals d);
                        d_applied := sadd (i_id it) (d_applied d) |}
        end)
  | _ =>
    obind (omap (sp_value it T ps) (d_vals d)) (fun vs =>
    let refm := existsb snd vs in
    let nv := if refm then concat (map fst vs) else d_vals d in
    obind (rename_of it T ps (d_field d)) (fun m =>
    let ap := sadd (i_id it) (d_applied d) in
    Ok (match m with
        | Some (MOne t) => DLeaf {| d_field := Some t; d_vals := nv; d_applied := ap |}
        | Some (MMany l) => DNode (map (fun t => DLeaf {| d_field := Some t; d_vals := nv; d_applied := ap |}) l)
        | None => if refm then DLeaf {| d_field := d_field d; d_vals := nv; d_applied := ap |} else DLeaf d
        end)))
  end).

Fixpoint sp_tree (it : item) (T : ghost) (ps : pstate) (t : dtree) : outcome dtree :=
  match t with
  | DLeaf d => sp_leaf it T ps d
  | DNode l => obind ((fix go (l : list dtree) : outcome (list dtree) :=
                         match l with
                         | [] => Ok []
                         | x :: r => obind (sp_tree it T ps x) (fun a => obind (go r) (fun b => Ok (a :: b)))
                         end) l) (fun l' => Ok (DNode l'))
  end.

(* renames performed by the item: (source name, target names), at every place a field name occurs *)
Definition sp_renames (it : item) (T : ghost) (ps : pstate) (r : rule) : list (str * list str) :=
  let one (f : str) := match rename_of it T ps (Some f) with
                       | Ok (Some m) => if list_eqb str_eqb [f] (fmap_list m) then [] else [(f, fmap_list m)]
                       | _ => [] end in
  flat_map one (r_fields r) ++
  flat_map (fun d => if truth (applies_item it T ps d)
                     then flat_map one (refs d) ++ match d_field d with Some f => one f | None => [] end
                     else []) (rule_leaves r).

Definition gadd (T0 : ghost) (id : str) (T : ghost) (rn : str * list str) : ghost :=
  let ids := sadd id (ghist T0 (fst rn)) in
  fold_left (fun T d => aset d (fold_left (fun a x => sadd x a) ids (ghist T d)) T) (snd rn) T.

Definition sp_ghost (it : item) (T : ghost) (ps : pstate) (r : rule) : ghost :=
  fold_left (gadd T (i_id it)) (sp_renames it T ps r) T.

(* the step: (rule and pipeline state after, applied?, ghost after) *)
Definition sp_step (it : item) (T : ghost) (w : world) : outcome (world * bool * ghost) :=
  let r := w_rule w in
  let ps := w_ps w in
  obind (applies_rule it w) (fun b =>
  if negb b then Ok (w, false, T) else
  let ap := sadd (i_id it) (r_applied r) in
  match i_tr it with
  | TSetState k v =>
    Ok ({| w_rule := set_rule r (r_ls r) (r_custom r) (r_fields r) ap (r_dets r);
           w_ps := {| p_state := aset k v (p_state ps); p_ftrack := p_ftrack ps |} |}, true, T)
  | TChangeLogsource c p s =>
    match c, p, s with
    | None, None, None => SigmaErr E_Logsource
    | _, _, _ => Ok ({| w_rule := set_rule r (c, p, s) (r_custom r) (r_fields r) ap (r_dets r); w_ps := ps |}, true, T)
    end
  | TSetAttr a v =>
    Ok ({| w_rule := set_rule r (r_ls r) (aset a v (r_custom r)) (r_fields r) ap (r_dets r); w_ps := ps |}, true, T)
  | _ =>
    obind (if is_renaming (i_tr it) then sp_fields it T ps (r_fields r) else Ok (r_fields r)) (fun fl =>
    obind (omap (fun d => obind (sp_tree it T ps (snd d)) (fun t => Ok (fst d, t))) (r_dets r)) (fun ds =>
    Ok ({| w_rule := set_rule r (r_ls r) (r_custom r) fl ap ds; w_ps := ps |}, true,
        if is_renaming (i_tr it) then sp_ghost it T ps r else T)))
  end).

(* ------------------------------------------------------------------------------------- *)
(* 5. the domain on which the code is proved to meet the step specification *)
Definition has_fapplied (g : ngroup fcond) : bool :=
  existsb (fun kv => match snd kv with FApplied _ => true | _ => false end) (n_conds g).
(* the field-name condition "processing_item_applied" is not used to gate a field-name transformation *)
Definition tracking_safe (it : item) : bool := negb (is_renaming (i_tr it) && has_fapplied (i_field it)).
(* the observable part of the state: the rule and the pipeline state (not the by-name bookkeeping) *)
Definition same_obs (a b : world) : Prop := w_rule a = w_rule b /\ p_state (w_ps a) = p_state (w_ps b).
