(* Specification side of C17: what a value with placeholders means, what a pipeline of placeholder
   transformations must turn it into, and how a query is read back.
   Nothing here refers to Model/Placeholder.v (Model.SString gives the type of parts and the escaping
   configuration record, Model.PyRegex the acceptance test of Python's re.compile). *)
From Coq Require Import NArith List Bool.
From PS Require Import Base.Chars Base.Outcome Model.SString Model.PyRegex Spec.Items.
Import ListNotations.
Open Scope N_scope.

(* ---------------------------------------------------------------------------------------- *)
(* all combinations, leftmost factor varying slowest *)
Fixpoint cartesian {A} (ls : list (list A)) : list (list A) :=
  match ls with
  | [] => [[]]
  | l :: ls' => flat_map (fun x => map (cons x) (cartesian ls')) l
  end.

(* parts level (used by theorem C17_cross_product): the i-th placeholder is replaced by the i-th choice *)
Definition ph_names (v : sstring) : list str :=
  flat_map (fun p => match p with PPh n => [n] | _ => [] end) v.
Fixpoint subst (v : sstring) (ch : list sstring) : sstring :=
  match v with
  | [] => []
  | PPh n :: v' => match ch with
                   | r :: ch' => r ++ subst v' ch'
                   | [] => PPh n :: subst v' []
                   end
  | p :: v' => p :: subst v' ch
  end.

(* ---------------------------------------------------------------------------------------- *)
(* reading "%name%" in a sequence of items (the expand modifier):
   an unescaped '%' followed by a non-empty run of literal characters other than '%' and a closing '%'
   is a placeholder; "\%" is a literal percent sign; anything else is itself *)
Fixpoint name_ahead (l : list item) : option (str * list item) :=
  match l with
  | Lit c :: l' => if N.eqb c c_pct then Some ([], l')
                   else match name_ahead l' with
                        | Some (n, r) => Some (c :: n, r)
                        | None => None
                        end
  | _ => None
  end.
Fixpoint xread_go (fuel : nat) (prev_bs : bool) (l : list item) : list item :=
  match fuel with
  | O => l
  | S f =>
    match l with
    | [] => []
    | Lit c :: l' =>
      if N.eqb c c_pct && negb prev_bs then
        match name_ahead l' with
        | Some (x :: n, r) => Ph (x :: n) :: xread_go f false r
        | _ => Lit c :: xread_go f false l'
        end
      else if N.eqb c c_bs then
        match l' with
        | Lit d :: r => if N.eqb d c_pct then Lit c_pct :: xread_go f false r
                        else Lit c :: xread_go f true l'
        | _ => Lit c :: xread_go f true l'
        end
      else Lit c :: xread_go f false l'
    | i :: l' => i :: xread_go f false l'
    end
  end.
Definition xread (l : list item) : list item := xread_go (S (length l)) false l.

(* ---------------------------------------------------------------------------------------- *)
(* specification values *)
Inductive sval :=
| XS (l : list item)      (* string / keyword value *)
| XR (l : list item)      (* regular expression, as the items of its text *)
| XQ (text : str).        (* finished query expression *)

Inductive smod := SExpand | SContains | SStartswith | SEndswith.
Definition s_front (l : list item) : list item := match l with Multi :: _ => l | _ => Multi :: l end.
Definition s_back (l : list item) : list item := match rev l with Multi :: _ => l | _ => l ++ [Multi] end.
Definition s_mod (m : smod) (l : list item) : list item :=
  match m with
  | SExpand => xread l
  | SContains => s_back (s_front l)
  | SStartswith => s_back l
  | SEndswith => s_front l
  end.
(* a regular expression value is only accepted when its text compiles *)
Definition s_rx_valid (l : list item) : bool := rxok (plain_items l).
(* None = the rule must be rejected (invalid regular expression) *)
Definition s_source (re : bool) (mods : list smod) (s : str) : option sval :=
  if re then
    let l := fold_left (fun a m => match m with SExpand => xread a | _ => a end) mods (iparse_noesc s) in
    if s_rx_valid (iparse_noesc s) && s_rx_valid l then Some (XR l) else None
  else Some (XS (fold_left (fun a m => s_mod m a) mods (iparse s))).

(* configuration, specification view *)
Inductive stab := SNoTable | STable (l : list str).     (* usable table of a variable: texts of its values *)
Inductive skind := SValueList | SWildcard | SQuery (expr : str) (mapping : list (str * str)).
Record sitem := { s_kind : skind; s_inc : option (list str); s_exc : option (list str) }.

Definition in_list (n : str) (l : list str) : bool := existsb (str_eqb n) l.
(* documented include/exclude semantics: no list = everything; include = only these; exclude = all but these *)
Definition s_handled (t : sitem) (n : str) : bool :=
  match s_inc t, s_exc t with
  | None, None => true
  | Some i, _ => in_list n i
  | None, Some e => negb (in_list n e)
  end.

Definition ph_of (l : list item) : list str :=
  flat_map (fun i => match i with Ph n => [n] | _ => [] end) l.
(* the i-th *handled* placeholder is replaced by the i-th choice *)
Fixpoint isubst (h : str -> bool) (l : list item) (ch : list (list item)) : list item :=
  match l with
  | [] => []
  | Ph n :: l' => if h n then match ch with
                              | r :: ch' => r ++ isubst h l' ch'
                              | [] => Ph n :: isubst h l' []
                              end
                  else Ph n :: isubst h l' ch
  | i :: l' => i :: isubst h l' ch
  end.

Fixpoint all_some {A} (l : list (option A)) : option (list A) :=
  match l with
  | [] => Some []
  | Some a :: l' => option_map (cons a) (all_some l')
  | None :: _ => None
  end.

(* the replacements of one handled placeholder: None = the conversion must fail *)
Definition s_repl (tabs : str -> stab) (t : sitem) (rx : bool) (n : str) : option (list (list item)) :=
  match s_kind t with
  | SValueList => match tabs n with
                  | STable (x :: l) => Some (map iparse (x :: l))
                  | _ => None
                  end
  | _ => Some [if rx then [Lit c_dot; Multi] else [Multi]]
  end.

(* expected result of one transformation on one value; None = must fail with a Sigma error *)
Definition s_expand (tabs : str -> stab) (t : sitem) (rx : bool) (l : list item) : option (list (list item)) :=
  let hs := filter (s_handled t) (ph_of l) in
  match all_some (map (s_repl tabs t rx) hs) with
  | Some tables => Some (map (isubst (s_handled t) l) (cartesian tables))
  | None => None
  end.
Definition s_step (tabs : str -> stab) (t : sitem) (x : sval) : option (list sval) :=
  match s_kind t with
  | SQuery _ _ => Some [x]     (* refined by s_query below, which needs the position *)
  | _ => match x with
         | XS l => option_map (map XS) (s_expand tabs t false l)
         | XR l => match s_expand tabs t true l with
                   | Some rs => if forallb s_rx_valid rs then Some (map XR rs) else None
                   | None => None
                   end
         | XQ _ => Some [x]
         end
  end.

(* template filling for query expressions: {field} and {id} *)
Definition tk_field : str := [123; 102; 105; 101; 108; 100; 125].
Definition tk_id : str := [123; 105; 100; 125].
Fixpoint fill_go (fuel : nat) (fld id s : str) : str :=
  match fuel with
  | O => []
  | S f =>
    if prefixb tk_field s then
      match s with [] => [] | _ => fld ++ fill_go f fld id (skipn 7 s) end
    else if prefixb tk_id s then
      match s with [] => [] | _ => id ++ fill_go f fld id (skipn 4 s) end
    else match s with [] => [] | c :: s' => c :: fill_go f fld id s' end
  end.
Definition fill (fld id s : str) : str := fill_go (S (length s)) fld id s.
Fixpoint occurs (p s : str) : bool :=
  match s with
  | [] => prefixb p []
  | _ :: s' => prefixb p s || occurs p s'
  end.
Fixpoint lookup (k : str) (l : list (str * str)) : option str :=
  match l with
  | [] => None
  | (k', a) :: l' => if str_eqb k k' then Some a else lookup k l'
  end.

(* query-expression transformation: a placeholder-only string becomes the expression with the mapped
   identifier (the name itself when unmapped); a string that mixes a placeholder with anything else is an
   error; other values are untouched *)
Definition s_query (field : option str) (expr : str) (mapping : list (str * str)) (t : sitem) (x : sval)
  : option (list sval) :=
  match x with
  | XS l =>
    match ph_of l with
    | [] => Some [x]
    | _ => match l with
           | [Ph n] => if s_handled t n then
                         let id := match lookup n mapping with Some (c :: m) => c :: m | _ => n end in
                         match field with
                         | Some f => Some [XQ (fill f id expr)]
                         | None => if occurs tk_field expr then None else Some [XQ (fill [] id expr)]
                         end
                       else Some [x]
           | _ => None
           end
    end
  | _ => Some [x]
  end.

Fixpoint s_each (f : sval -> option (list sval)) (l : list sval) : option (list sval) :=
  match l with
  | [] => Some []
  | x :: l' => match f x, s_each f l' with
               | Some a, Some b => Some (a ++ b)
               | _, _ => None
               end
  end.
Definition s_item (tabs : str -> stab) (field : option str) (t : sitem) (l : list sval) : option (list sval) :=
  match s_kind t with
  | SQuery expr mapping => s_each (s_query field expr mapping t) l
  | _ => s_each (s_step tabs t) l
  end.
Fixpoint s_pipeline (tabs : str -> stab) (field : option str) (ts : list sitem) (l : list sval)
  : option (list sval) :=
  match ts with
  | [] => Some l
  | t :: ts' => match s_item tabs field t l with
                | Some l' => s_pipeline tabs field ts' l'
                | None => None
                end
  end.

Definition s_config_ok (t : sitem) : bool :=
  match s_inc t, s_exc t with Some _, Some _ => false | _, _ => true end.
Definition s_resolved (x : sval) : bool :=
  match x with XS l | XR l => match ph_of l with [] => true | _ => false end | XQ _ => true end.

(* Expected result for one source value: the list of values that must be OR-linked in its place;
   None = the rule must fail with a Sigma error (invalid configuration, no usable table, mixed
   query-expression string, or a placeholder that no transformation resolved). *)
Definition s_expected1 (tabs : str -> stab) (field : option str) (ts : list sitem) (x : option sval)
  : option (list sval) :=
  match x with
  | None => None
  | Some x =>
    if forallb s_config_ok ts then
      match s_pipeline tabs field ts [x] with
      | Some l => if forallb s_resolved l then Some l else None
      | None => None
      end
    else None
  end.

(* ---------------------------------------------------------------------------------------- *)
(* reading a query of the verification backend back:
   atom ::= lhs = dquote literal dquote | lhs = slash regex slash | raw text ;  atoms joined by one separator *)
Inductive atom := AStr (lit : str) | ARe (body : str) | ARaw (text : str).

(* up to the closing delimiter; the escape character protects the next character *)
Fixpoint until_delim (d : char) (s : str) : option (str * str) :=
  match s with
  | [] => None
  | c :: s' =>
    if N.eqb c d then Some ([], s')
    else if N.eqb c c_bs then
      match s' with
      | e :: s'' => match until_delim d s'' with
                    | Some (a, r) => Some (c :: e :: a, r)
                    | None => None
                    end
      | [] => None
      end
    else match until_delim d s' with
         | Some (a, r) => Some (c :: a, r)
         | None => None
         end
  end.
(* raw text up to the next separator *)
Fixpoint until_sep (sep : str) (s : str) : str * str :=
  match s with
  | [] => ([], [])
  | c :: s' => if prefixb sep s then ([], s)
               else let '(a, r) := until_sep sep s' in (c :: a, r)
  end.
Fixpoint read_atoms (fuel : nat) (lhs sep : str) (s : str) : option (list atom) :=
  match fuel with
  | O => None
  | S f =>
    let after (a : atom) (r : str) :=
      match r with
      | [] => Some [a]
      | _ => if prefixb sep r then option_map (cons a) (read_atoms f lhs sep (skipn (length sep) r)) else None
      end in
    if prefixb (lhs ++ [c_eq; c_dq]) s then
      match until_delim c_dq (skipn (length lhs + 2) s) with
      | Some (lit, r) => after (AStr lit) r
      | None => None
      end
    else if prefixb (lhs ++ [c_eq; c_slash]) s then
      match until_delim c_slash (skipn (length lhs + 2) s) with
      | Some (body, r) => after (ARe body) r
      | None => None
      end
    else let '(t, r) := until_sep sep s in after (ARaw t) r
  end.
Definition read_query (lhs sep q : str) : option (list atom) := read_atoms (S (length q)) lhs sep q.

(* the literal conventions of the verification backend (impl/c17.py C17Backend) *)
Definition KQ : ecfg :=
  {| e_esc := Some c_bs; e_multi := Some [c_star]; e_single := Some [c_qm];
     e_add := [c_dq; c_colon; c_bs]; e_filter := [38] |}.
(* regular expression body: "\x" stands for x *)
Fixpoint rx_unescape (s : str) : option str :=
  match s with
  | [] => Some []
  | c :: s' => if N.eqb c c_bs then
                 match s' with
                 | d :: s'' => option_map (cons d) (rx_unescape s'')
                 | [] => None
                 end
               else option_map (cons c) (rx_unescape s')
  end.

Definition atom_is (a : atom) (x : sval) : bool :=
  match a, x with
  | AStr lit, XS l => option_eqb (list_eqb item_eqb) (tread KQ lit) (Some (filter_items KQ l))
  | ARe body, XR l => option_eqb str_eqb (rx_unescape body) (Some (plain_items l))
  | ARaw t, XQ t' => str_eqb t t'
  | _, _ => false
  end.
Fixpoint atoms_are (la : list atom) (lx : list sval) : bool :=
  match la, lx with
  | [], [] => true
  | a :: la', x :: lx' => atom_is a x && atoms_are la' lx'
  | _, _ => false
  end.

Definition sep_or : str := [32; 111; 114; 32].
Definition sep_and : str := [32; 97; 110; 100; 32].

(* The property, evaluated on a source and an observed outcome.
   expected : per source value, its expected OR-group (None = must fail).
   - some group None: the observed outcome must be a Sigma error;
   - otherwise the query must read back as exactly the expected values, OR-linked; under `all` the
     groups are AND-linked, which a flat query can only express when every group has one member. *)
Definition flat_ok (all : bool) (groups : list (list sval)) : bool :=
  negb all || forallb (fun g => match g with [_] => true | _ => false end) groups.
Definition s_accepts (lhs : str) (all : bool) (expected : list (option (list sval))) (r : outcome str) : bool :=
  match all_some expected with
  | None => match r with SigmaErr _ => true | _ => false end
  | Some groups =>
    match r with
    | Ok q => flat_ok all groups &&
              match read_query lhs (if all then sep_and else sep_or) q with
              | Some atoms => atoms_are atoms (concat groups)
              | None => false
              end
    | _ => false
    end
  end.

(* ---------------------------------------------------------------------------------------- *)
(* backends with in-expressions: a query may also have the form  lhs in ("a", "b")  (under `all`:
   lhs contains-all ("a", "b")), a list of quoted literals. It is read back as the same atoms; a value
   list can therefore only stand for string values - anything else inside the parentheses (a raw
   query-expression template, a regular expression) does not read back. *)
Definition op_in : str := [32; 105; 110; 32; 40].
Definition op_call : str := [32; 99; 111; 110; 116; 97; 105; 110; 115; 45; 97; 108; 108; 32; 40].
Fixpoint read_list (fuel : nat) (s : str) : option (list atom) :=
  match fuel with
  | O => None
  | S f =>
    match s with
    | c :: s' =>
      if N.eqb c c_dq then
        match until_delim c_dq s' with
        | Some (lit, r) =>
            if str_eqb r [c_rpar] then Some [AStr lit]
            else if prefixb [44; 32] r then option_map (cons (AStr lit)) (read_list f (skipn 2 r))
            else None
        | None => None
        end
      else None
    | [] => None
    end
  end.
Definition read_query_any (lhs : str) (all : bool) (q : str) : option (list atom) :=
  let op := lhs ++ (if all then op_call else op_in) in
  if prefixb op q then read_list (S (length q)) (skipn (length op) q)
  else read_query lhs (if all then sep_and else sep_or) q.
Definition s_accepts_in (lhs : str) (all : bool) (expected : list (option (list sval))) (r : outcome str) : bool :=
  match all_some expected with
  | None => match r with SigmaErr _ => true | _ => false end
  | Some groups =>
    match r with
    | Ok q => flat_ok all groups &&
              match read_query_any lhs all q with
              | Some atoms => atoms_are atoms (concat groups)
              | None => false
              end
    | _ => false
    end
  end.
