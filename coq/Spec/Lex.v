(* The verification backend's target language at the level of a whole query: splitting the text into
   parentheses, the three operator words and atom texts.  An atom text starts with the opening
   delimiter (and then runs to the first unescaped closing delimiter plus the following word
   characters), with a quote (a quoted field name, likewise) or is a plain word. *)
From Coq Require Import NArith List Bool String.
From PS Require Import Base.Chars Model.Backend Spec.Atom.
Import ListNotations.
Open Scope N_scope.

Inductive ltok := XOp (o : op) | XL | XR | XAtom (t : str).

Definition boundary (c : char) : bool := N.eqb c c_space || N.eqb c c_lpar || N.eqb c c_rpar.

(* up to and including the first unescaped closing character q; a backslash takes the next character along *)
Fixpoint scan_to (q : char) (x : str) : option (str * str) :=
  match x with
  | [] => None
  | c :: x' =>
      if N.eqb c c_bs then
        match x' with
        | e :: x'' => match scan_to q x'' with Some (a, r) => Some (c :: e :: a, r) | None => None end
        | [] => None
        end
      else if N.eqb c q then Some ([c], x')
      else match scan_to q x' with Some (a, r) => Some (c :: a, r) | None => None end
  end.
Definition scan_word (x : str) : str * str := span (fun c => negb (boundary c)) x.
Definition word_tok (w : str) : ltok :=
  if str_eqb w (s "and") then XOp OAnd else if str_eqb w (s "or") then XOp OOr
  else if str_eqb w (s "not") then XOp ONot else XAtom w.

(* one token at the head of a text that does not start with a blank *)
Definition lex1 (x : str) : option (ltok * str) :=
  match x with
  | [] => None
  | c :: x' =>
      if N.eqb c c_lpar then Some (XL, x')
      else if N.eqb c c_rpar then Some (XR, x')
      else if N.eqb c c_lq || N.eqb c c_sq then
        match scan_to (if N.eqb c c_lq then c_rq else c_sq) x' with
        | Some (a, r) => let '(w, r') := scan_word r in Some (XAtom (c :: a ++ w), r')
        | None => None
        end
      else let '(w, r) := scan_word x in Some (word_tok w, r)
  end.

Fixpoint lexq (fuel : nat) (x : str) : option (list ltok) :=
  match fuel with
  | O => None
  | S f =>
      match x with
      | [] => Some []
      | c :: x' =>
          if N.eqb c c_space then lexq f x'
          else match lex1 x with
               | Some (t, r) => match lexq f r with Some l => Some (t :: l) | None => None end
               | None => None
               end
      end
  end.
Definition lex (x : str) : option (list ltok) := lexq (S (List.length x)) x.

(* the verification backend's joiners *)
Definition vb_syntax : syntax :=
  {| s_sep := s " "; s_and := s "and"; s_or := s "or"; s_not := s "not"; s_lpar := s "("; s_rpar := s ")";
     s_in_pre := [c_lq]; s_in_mid_or := s " in "; s_in_mid_and := s " contains-all "; s_in_open := s "(";
     s_list_sep := s ", "; s_in_close := [c_rpar; c_rq] |}.

(* an atom text is one lexical unit wherever a blank, a parenthesis or the end follows *)
Definition bnd (rest : str) : bool := match rest with [] => true | c :: _ => boundary c end.
Definition atom_shape (t : str) : Prop :=
  forall rest, bnd rest = true -> lex1 (t ++ rest) = Some (XAtom t, rest).

(* token sequences in which every atom is followed by a binary operator, a parenthesis or the end *)
Definition okafter (t : tok) : bool :=
  match t with TOp OAnd | TOp OOr | TR | TL => true | _ => false end.
Definition is_atom (t : tok) : bool := match t with TAtom _ _ | TIn _ _ _ => true | _ => false end.
Fixpoint sep_ok (ts : list tok) : bool :=
  match ts with
  | [] => true
  | t :: r => (if is_atom t then match r with [] => true | u :: _ => okafter u end else true) && sep_ok r
  end.

(* a checkable sufficient condition for atom_shape *)
Definition no_boundary (x : str) : bool := forallb (fun c => negb (boundary c)) x.
Definition is_keyword (w : str) : bool := str_eqb w (s "and") || str_eqb w (s "or") || str_eqb w (s "not").
Definition shapeb (t : str) : bool :=
  match t with
  | [] => false
  | c :: t' =>
      if N.eqb c c_lq || N.eqb c c_sq then
        match scan_to (if N.eqb c c_lq then c_rq else c_sq) t' with
        | Some (_, suf) => no_boundary suf
        | None => false
        end
      else no_boundary t && negb (is_keyword t)
  end.
