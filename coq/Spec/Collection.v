(* C08 - specification: what a rule yields "on its own", and what a collection must yield.

   The only thing a rule may depend on besides itself are the rules it refers to (a correlation rule embeds
   their queries) and the two flags set by the rules referring to it (output switch, back reference).  This is
   made explicit by unfolding a collection into one dependency tree per rule: the tree of a detection rule is a
   leaf that mentions nothing but the rule and its two flags; the tree of a correlation rule has the trees of the
   referenced rules as children (None for a reference that is not converted yet).  `alone` evaluates such a tree
   without any collection, backend state or error list. *)
From Coq Require Import NArith List Bool.
From PS Require Import Base.Outcome Model.Collection.
Import ListNotations.

Section Spec.
Variables query drule crule output : Type.
Variable conv1 : drule -> outcome (list query).
Variable finq : payload drule crule -> nat -> query -> outcome query.
Variable cpre : crule -> outcome unit.
Variable cpost : crule -> list (list query) -> outcome (list query).
Variable finout : list query -> outcome output.
Variable fcs : bool.

Notation rule := (rule drule crule).
Notation finish := (finish query drule crule finq fcs).

Inductive dtree :=
| Leaf (d : drule) (out br : bool)
| Node (c : crule) (out br : bool) (kids : list (option dtree)).

(* conversion of a rule on its own *)
Fixpoint alone (t : dtree) : rres query :=
  match t with
  | Leaf d out br => finish (PD d) out br (conv1 d)
  | Node c out br kids =>
      finish (PC c) out br
        (obind (cpre c) (fun _ =>
           match all_some (map (fun k => match k with
                                         | Some t' => stored (alone t')
                                         | None => None
                                         end) kids) with
           | Some qss => cpost c qss
           | None => SigmaErr E_Conversion
           end))
  end.

Definition sopt (t : dtree) : option (list query) := stored (alone t).

(* the dependency tree of the rule at position i; acc = trees of the rules before it *)
Definition mk_tree (C : list rule) (i : nat) (r : rule) (acc : list dtree) : dtree :=
  match r with
  | Det d => Leaf d (out_enabled drule crule C i) (has_backref drule crule C i)
  | Cor c refs _ => Node c (out_enabled drule crule C i) (has_backref drule crule C i) (map (nth_error acc) refs)
  end.

Fixpoint trees_from (C : list rule) (i : nat) (rs : list rule) (acc : list dtree) : list dtree :=
  match rs with
  | [] => []
  | r :: rest => let t := mk_tree C i r acc in t :: trees_from C (S i) rest (acc ++ [t])
  end.
Definition trees (C : list rule) : list dtree := trees_from C 0 C [].

(* the accounting: queries of every rule that converts, in order; one error record per rule that does not *)
Definition exp_queries (ts : list dtree) : list query :=
  flat_map (fun t => match ret (alone t) with Ok qs => qs | _ => [] end) ts.
Fixpoint exp_errors (i : nat) (ts : list dtree) : list (nat * N) :=
  match ts with
  | [] => []
  | t :: r => match ret (alone t) with SigmaErr e => [(i, e)] | _ => [] end ++ exp_errors (S i) r
  end.

Definition is_ok {A} (o : outcome A) : bool := match o with Ok _ => true | _ => false end.
Definition is_crash {A} (o : outcome A) : bool := match o with Crash _ => true | _ => false end.
Definition err_of {A B} (o : outcome A) : outcome B :=
  match o with Ok _ => Crash 0 | SigmaErr e => SigmaErr e | Crash c => Crash c end.

(* same collection up to the payloads of the detection rules (the reference structure is untouched) *)
Definition same_shape (r r' : rule) : Prop :=
  match r, r' with
  | Det _, Det _ => True
  | Cor c refs g, Cor c' refs' g' => c = c' /\ refs = refs' /\ g = g'
  | _, _ => False
  end.

(* i reaches k through references that point backwards (a forward or self reference contributes no subtree:
   the referenced rule is not converted yet) *)
Inductive reach (C : list rule) : nat -> nat -> Prop :=
| reach_refl i : reach C i i
| reach_step i j k r : nth_error C i = Some r -> In j (refs_of drule crule r) -> j < i -> reach C j k -> reach C i k.

End Spec.

Arguments Leaf {drule crule} d out br.
Arguments Node {drule crule} c out br kids.
