(* C20 - specification side: what the output of a rule with added conditions and filters is, stated
   without any drawn identifier; the premise under which drawn identifiers cannot interfere. *)
From Coq Require Import NArith List Bool.
From PS Require Import Base.Chars Model.Determinism.
Import ListNotations.
Open Scope N_scope.

Fixpoint ids (c : cexpr) : list str :=
  match c with
  | CId n => [n] | CSel _ _ => [] | CNot c => ids c | CBin _ a b => ids a ++ ids b
  end.
Fixpoint pats (c : cexpr) : list str :=
  match c with
  | CId _ => [] | CSel _ p => [p] | CNot c => pats c | CBin _ a b => pats a ++ pats b
  end.

(* inside a filter a pattern ranges over the filter's own detections (no underscore rule) *)
Fixpoint resolve_own (m : list (str * str)) (c : cexpr) : rres :=
  match c with
  | CId n => match lookup n m with Some v => RQ (QAtom v) | None => RUndef n end
  | CSel a p => RQ (mk_sel a (map snd (filter (fun kv => pat_match p (fst kv)) m)))
  | CNot c => rbind (resolve_own m c) (fun q => RQ (QNot q))
  | CBin o a b => rbind (resolve_own m a) (fun x => rbind (resolve_own m b) (fun y => RQ (QBin o x y)))
  end.

(* the nameless meaning: rule condition AND each filter condition (in its own name space), each added
   condition in front *)
Definition spec_filters (q0 : rres) (fs : list sfilter) : rres :=
  fold_left (fun acc f => rbind acc (fun x => rbind (resolve_own (f_dets f) (f_cond f))
                                                   (fun y => RQ (QBin true x y)))) fs q0.
Definition add_atom (a : str * bool) : qtree := if snd a then QNot (QAtom (fst a)) else QAtom (fst a).
Definition spec_adds (q : rres) (adds : list (str * bool)) : rres :=
  fold_left (fun acc a => rbind acc (fun x => RQ (QBin true (add_atom a) x))) adds q.
Definition spec_names (r : rule) (fs : list sfilter) (adds : list (str * bool)) : rres :=
  spec_adds (spec_filters (resolve (r_dets r) (r_cond r)) fs) adds.

(* ---- the premise `fresh` ---- *)
Definition drawn (PF : list (str * sfilter)) (CA : list (str * (str * bool))) : list str :=
  map fst PF ++ map fst CA.
Definition internalb (D : list str) (k : str) : bool := existsb (fun d => prefixb d k) D.
Fixpoint nodupb (l : list str) : bool :=
  match l with [] => true | x :: r => negb (smem x r) && nodupb r end.
Definition block (pf : str * sfilter) : list (str * str) :=
  map (fun kv => (pfx (fst pf) (fst kv), snd kv)) (f_dets (snd pf)).
(* all detections of the rule after the filters and added conditions were applied *)
Definition all_dets (r : rule) PF (CA : list (str * (str * bool))) : list (str * str) :=
  r_dets r ++ concat (map block PF) ++ map (fun na => (fst na, fst (snd na))) CA.
Definition draw_okb (L : nat) (d : str) : bool :=
  Nat.eqb (length d) L && starts_us d && negb (mem c_star d).
Definition closedb (f : sfilter) : bool := forallb (fun n => haskey n (f_dets f)) (ids (f_cond f)).

Definition freshb (L : nat) (r : rule) PF CA : bool :=
  let D := drawn PF CA in
  forallb (draw_okb L) D && nodupb D                                   (* shape of the draws, no repeated draw *)
  && nodupb (map fst (all_dets r PF CA))                               (* no detection name collides *)
  && forallb (fun kv => negb (internalb D (fst kv))) (r_dets r)        (* rule names carry no drawn prefix *)
  && forallb (fun n => negb (internalb D n)) (ids (r_cond r))          (* the rule condition names none *)
  && forallb (fun p => negb (starts_us p)) (pats (r_cond r))           (* no rule-level pattern starts with _ *)
  && forallb (fun pf => closedb (snd pf)) PF.                          (* filters reference their own detections *)

(* atoms of a result *)
Fixpoint atoms (q : qtree) : list str :=
  match q with
  | QNone => [] | QAtom c => [c] | QNot q => atoms q | QBin _ a b => atoms a ++ atoms b | QSel _ l => l
  end.
