(* C02 - what a selector pattern matches: '*' stands for any (possibly empty) sequence of
   characters, every other character for itself.  Declarative: the name is split along the
   stars of the pattern. *)
From Coq Require Import NArith List Bool.
From PS Require Import Base.Chars.
Import ListNotations.
Open Scope N_scope.

Inductive Glob : str -> str -> Prop :=
| glob_nil : Glob [] []
| glob_lit c p n : c <> c_star -> Glob p n -> Glob (c :: p) (c :: n)
| glob_star p m n : Glob p n -> Glob (c_star :: p) (m ++ n).

(* executable form used by the specification oracle (proved equivalent: Proofs/GlobP.v globb_Glob) *)
Fixpoint any_suffix (f : str -> bool) (n : str) : bool :=
  f n || match n with [] => false | _ :: n' => any_suffix f n' end.

Fixpoint globb (p n : str) {struct p} : bool :=
  match p with
  | [] => match n with [] => true | _ => false end
  | c :: p' =>
      if c =? c_star then any_suffix (globb p') n
      else match n with x :: n' => (x =? c) && globb p' n' | [] => false end
  end.
