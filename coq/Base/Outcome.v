(* Explicit outcomes: a value, a Sigma error (class tag), or a non-Sigma Python exception. *)
From Coq Require Import NArith List.
Inductive outcome (A : Type) :=
| Ok (a : A)
| SigmaErr (cls : N)     (* tag of a class of sigma.exceptions; see harness table *)
| Crash (cls : N).       (* tag of a non-Sigma Python exception class *)
Arguments Ok {A} a.
Arguments SigmaErr {A} cls.
Arguments Crash {A} cls.

Definition obind {A B} (x : outcome A) (f : A -> outcome B) : outcome B :=
  match x with Ok a => f a | SigmaErr c => SigmaErr c | Crash c => Crash c end.

(* error tags shared with the Python harness (vlib/errtags.py) *)
Definition E_Value : N := 1.        (* SigmaValueError *)
Definition E_Placeholder : N := 2.  (* SigmaPlaceholderError *)
Definition E_Type : N := 3.         (* SigmaTypeError *)
Definition E_Condition : N := 4.    (* SigmaConditionError *)
Definition E_Regex : N := 5.        (* SigmaRegularExpressionError *)
Definition E_Modifier : N := 6.     (* SigmaModifierError *)
Definition E_Other : N := 99.       (* any other SigmaError subclass *)
