(* Characters are Unicode code points (N); strings are lists of them. *)
From Coq Require Import NArith List Bool.
Import ListNotations.
Open Scope N_scope.

Definition char := N.
Definition str := list char.

Definition c_bs    : char := 92.   (* \ *)
Definition c_star  : char := 42.   (* * *)
Definition c_qm    : char := 63.   (* ? *)
Definition c_pct   : char := 37.   (* % *)
Definition c_dot   : char := 46.
Definition c_colon : char := 58.
Definition c_dash  : char := 45.
Definition c_slash : char := 47.
Definition c_space : char := 32.
Definition c_us    : char := 95.
Definition c_lpar  : char := 40.
Definition c_rpar  : char := 41.
Definition c_eq    : char := 61.
Definition c_pipe  : char := 124.
Definition c_dq    : char := 34.

Fixpoint str_eqb (a b : str) : bool :=
  match a, b with
  | [], [] => true
  | x :: a', y :: b' => N.eqb x y && str_eqb a' b'
  | _, _ => false
  end.

Lemma str_eqb_eq a b : str_eqb a b = true <-> a = b.
Proof.
  revert b; induction a as [|x a IH]; intros [|y b]; simpl; split; intro H;
    try reflexivity; try discriminate.
  - apply andb_true_iff in H. destruct H as [H1 H2].
    apply N.eqb_eq in H1. apply IH in H2. congruence.
  - inversion H; subst. rewrite N.eqb_refl. simpl. apply IH. reflexivity.
Qed.

Lemma str_eqb_refl a : str_eqb a a = true.
Proof. apply str_eqb_eq. reflexivity. Qed.

Definition mem (c : char) (l : str) : bool := existsb (N.eqb c) l.

Lemma mem_In c l : mem c l = true <-> In c l.
Proof.
  unfold mem. rewrite existsb_exists. split.
  - intros [x [Hx He]]. apply N.eqb_eq in He. subst. exact Hx.
  - intros H. exists c. split; [exact H | apply N.eqb_refl].
Qed.

Fixpoint prefixb (p s : str) : bool :=
  match p, s with
  | [], _ => true
  | x :: p', y :: s' => N.eqb x y && prefixb p' s'
  | _ :: _, [] => false
  end.

Lemma prefixb_app p s : prefixb p (p ++ s) = true.
Proof. induction p as [|x p IH]; simpl; [reflexivity|]. rewrite N.eqb_refl. exact IH. Qed.

Lemma prefixb_spec p s : prefixb p s = true <-> exists r, s = p ++ r.
Proof.
  revert s; induction p as [|x p IH]; intros s; simpl.
  - split; [intros _; exists s; reflexivity | reflexivity].
  - destruct s as [|y s]; [split; [discriminate | intros [r Hr]; discriminate]|].
    rewrite andb_true_iff, N.eqb_eq, IH. split.
    + intros [-> [r ->]]. exists r. reflexivity.
    + intros [r Hr]. inversion Hr; subst. split; [reflexivity | exists r; reflexivity].
Qed.

Fixpoint list_eqb {A} (eqb : A -> A -> bool) (a b : list A) : bool :=
  match a, b with
  | [], [] => true
  | x :: a', y :: b' => eqb x y && list_eqb eqb a' b'
  | _, _ => false
  end.

Lemma list_eqb_eq {A} (eqb : A -> A -> bool) :
  (forall x y, eqb x y = true <-> x = y) ->
  forall a b, list_eqb eqb a b = true <-> a = b.
Proof.
  intros He a. induction a as [|x a IH]; intros [|y b]; simpl; split; intro H;
    try reflexivity; try discriminate.
  - apply andb_true_iff in H. destruct H as [H1 H2].
    apply He in H1. apply IH in H2. congruence.
  - inversion H; subst. apply andb_true_iff. split; [apply He | apply IH]; reflexivity.
Qed.

Definition option_eqb {A} (eqb : A -> A -> bool) (a b : option A) : bool :=
  match a, b with
  | None, None => true
  | Some x, Some y => eqb x y
  | _, _ => false
  end.
