(* Model of the leaf renderers of TextQueryBackend (sigma/conversion/base.py):
     convert_condition_field_eq_val (dispatch, Backend l.542) and the methods it dispatches to
     (l.1884-2290), convert_condition_val (l.603) with convert_condition_val_str/num/re,
     convert_value_str / decide_string_quoting / quote_string (l.1817-1849), convert_value_re,
     get_flag_template, and the template swap of not_equals_context_manager (l.1494).
   The class attributes are data (record lcfg): templates are Python format strings parsed into
   literal and {key} segments.  Oracles (inputs of the model, computed by the harness with Python's re
   module, not by the library): match positions of field_escape_pattern and the outcome of the
   field_quote_pattern / str_quote_pattern decisions; str() of numbers and networks.
   Structural leaves (value expansion, CIDR without native template, exists:false without explicit
   template) are not leaves of the target language - they are modelled in Model/Backend.v. *)
From Coq Require Import ZArith NArith List Bool.
From PS Require Import Base.Chars Base.Outcome Model.SString Model.Slice Model.StrOp Model.FieldName
  Model.RxEscape.
Import ListNotations.
Open Scope N_scope.

Definition C_NotImplemented : N := 30.
Definition C_KeyError : N := 31.
Definition C_AttributeError : N := 32.
Definition C_TypeError : N := 33.
Definition C_Structural : N := 39.    (* not a leaf of the target language: see Model/Backend.v *)

(* ---------------------------------------------------------------------------------------------- *)
(* str.format with named fields *)
(* SB: {backend.attr}, a literal when the call passes backend=self (only the case-insensitive string renderer does) *)
Inductive seg := SL (s : str) | SV (key : N) | SB (s : str).
Definition tpl := list seg.
Definition K_field : N := 0.     Definition K_value : N := 1.    Definition K_regex : N := 2.
Definition K_operator : N := 3.  Definition K_flag_i : N := 4.   Definition K_flag_m : N := 5.
Definition K_flag_s : N := 6.    Definition K_field1 : N := 7.   Definition K_field2 : N := 8.
Definition K_tspart : N := 9.    Definition K_network : N := 10. Definition K_prefixlen : N := 11.
Definition K_netmask : N := 12.   Definition K_backend : N := 13.
Definition K_op : N := 14.       Definition K_list : N := 15.
Definition env := list (N * str).
Fixpoint lookup (k : N) (e : env) : option str :=
  match e with
  | [] => None
  | (k', v) :: r => if N.eqb k k' then Some v else lookup k r
  end.
Fixpoint fmt (t : tpl) (e : env) : outcome str :=
  match t with
  | [] => Ok []
  | SL s :: r => obind (fmt r e) (fun x => Ok (s ++ x))
  | SV k :: r => match lookup k e with
                 | Some v => obind (fmt r e) (fun x => Ok (v ++ x))
                 | None => Crash C_KeyError
                 end
  | SB s :: r => match lookup K_backend e with
                 | Some _ => obind (fmt r e) (fun x => Ok (s ++ x))
                 | None => Crash C_KeyError
                 end
  end.

(* ---------------------------------------------------------------------------------------------- *)
Inductive cmpop := CLt | CLte | CGt | CGte | CNeq.

Record lcfg := {
  l_f : fcfg;                      (* field_quote, field_escape, field_escape_quote *)
  l_e : ecfg;                      (* escape_char, wildcard_multi, wildcard_single, add_escaped, filter_chars *)
  l_quote : str;                   (* str_quote *)
  l_quote_pat : option bool;       (* str_quote_pattern set: Some str_quote_pattern_negation *)
  l_add_escaped_re : str;
  l_re_escape : list str; l_re_ec : str; l_re_eec : bool; l_re_flag_prefix : bool;
  l_re_fi : option str; l_re_fm : option str; l_re_fs : option str;     (* re_flags[...]; None: key missing *)
  l_eq_token : str;
  l_true : option str; l_false : option str;                            (* bool_values *)
  l_cmp_ops : option (cmpop -> str);
  l_eq : option tpl; l_neq : option tpl;
  l_sw : option tpl; l_nsw : option tpl; l_ew : option tpl; l_new : option tpl;
  l_ct : option tpl; l_nct : option tpl; l_wm : option tpl;
  l_sw_sp : bool; l_ew_sp : bool; l_ct_sp : bool;
  l_csm : option tpl;
  l_csw : option tpl; l_ncsw : option tpl; l_cew : option tpl; l_ncew : option tpl;
  l_cct : option tpl; l_ncct : option tpl;
  l_csw_sp : bool; l_cew_sp : bool; l_cct_sp : bool;
  l_re : option tpl; l_nre : option tpl;
  l_cidr : option tpl; l_ncidr : option tpl;
  l_cmp : option tpl;
  l_null : option tpl; l_exists : option tpl; l_nexists : option tpl;
  l_ff : option tpl; l_ffsw : option tpl; l_ffew : option tpl; l_ffct : option tpl;
  l_ff_q1 : bool; l_ff_q2 : bool;
  l_ts : option tpl; l_ts_map : list (N * str);
  l_ub_str : option tpl; l_ub_num : option tpl; l_ub_re : option tpl;
  l_in : option tpl; l_or_in_op : str; l_and_in_op : str; l_list_sep : option str     (* field_in_list_expression, ... *)
}.

(* oracle for one field name: match positions of field_escape_pattern, quote decision *)
Definition foracle := (list nat * bool)%type.

Inductive lval :=
| LStr (cased : bool) (v : sstring)
| LNum (txt : str)                                  (* str(number) *)
| LBool (b : bool)
| LNull
| LRe (rx : str) (fi fm fs : bool)                  (* str(regexp), flags *)
| LCidr (net addr plen mask : str)                  (* str of network, network_address, prefixlen, netmask *)
| LCmp (op : cmpop) (txt : str)
| LCmpTs (op : cmpop) (part : N) (txt : str)
| LTs (part : N) (txt : str)
| LExists (b : bool)
| LFieldRef (f2 : str) (fo2 : foracle) (sw ew : bool)
| LOther.

(* ---------------------------------------------------------------------------------------------- *)
Definition qfield (K : lcfg) (fo : foracle) (f : str) : str :=
  escape_and_quote_field (l_f K) (fun i => existsb (Nat.eqb i) (fst fo)) (snd fo) f.

(* convert_value_str: str_quote is added to the escaped characters whether or not the value is quoted *)
Definition value_cfg (K : lcfg) : ecfg :=
  {| e_esc := e_esc (l_e K); e_multi := e_multi (l_e K); e_single := e_single (l_e K);
     e_add := l_quote K ++ e_add (l_e K); e_filter := e_filter (l_e K) |}.
Definition decide_quoting (K : lcfg) (pm : bool) : bool :=
  match l_quote K with
  | [] => false
  | _ => match l_quote_pat K with None => true | Some neg => xorb pm neg end
  end.
Definition value_str (K : lcfg) (pm : bool) (v : sstring) : outcome str :=
  obind (convert (value_cfg K) v) (fun c =>
    Ok (if decide_quoting K pm then l_quote K ++ c ++ l_quote K else c)).

Definition flags_str (fi fm fs : bool) : str :=
  (if fi then [105] else []) ++ (if fm then [109] else []) ++ (if fs then [115] else []).
Definition value_re (K : lcfg) (rx : str) (fi fm fs : bool) : str :=
  rx_escape (l_re_escape K) (l_re_ec K) (l_re_eec K) (l_re_flag_prefix K) (flags_str fi fm fs) rx.
(* regex=self.convert_value_re(value.to_regex(self.add_escaped_re), state) *)
Definition value_as_regex (K : lcfg) (v : sstring) : outcome str :=
  obind (to_regex (l_add_escaped_re K) v) (fun r => Ok (value_re K r false false false)).

Definition is_some {A} (o : option A) : bool := match o with Some _ => true | None => false end.
Definition pick {A} (neg : bool) (a b : A) : A := if neg then b else a.

(* get_flag_template *)
Definition flag_env (K : lcfg) (fi fm fs : bool) : outcome env :=
  let one (set : bool) (tok : option str) (key : N) : outcome env :=
    if set then match tok with Some t => Ok [(key, t)] | None => Crash C_NotImplemented end
    else Ok [(key, [])] in
  obind (one fi (l_re_fi K) K_flag_i) (fun a =>
  obind (one fm (l_re_fm K) K_flag_m) (fun b =>
  obind (one fs (l_re_fs K) K_flag_s) (fun c => Ok (a ++ b ++ c)))).

(* convert_condition_field_eq_val_str and ..._case_sensitive; pm: str_quote_pattern decision per slice *)
Definition render_str (K : lcfg) (neg cased : bool) (qf : str) (pm : sop -> bool) (v : sstring) : outcome str :=
  let sw := if cased then pick neg (l_csw K) (l_ncsw K) else pick neg (l_sw K) (l_nsw K) in
  let ew := if cased then pick neg (l_cew K) (l_ncew K) else pick neg (l_ew K) (l_new K) in
  let ct := if cased then pick neg (l_cct K) (l_ncct K) else pick neg (l_ct K) (l_nct K) in
  let wm := if cased then None else l_wm K in
  let base := if cased then l_csm K else pick neg (l_eq K) (l_neq K) in
  let oc := {| has_sw := is_some sw; has_ew := is_some ew; has_ct := is_some ct; has_wm := is_some wm;
               sw_special := if cased then l_csw_sp K else l_sw_sp K;
               ew_special := if cased then l_cew_sp K else l_ew_sp K;
               ct_special := if cased then l_cct_sp K else l_ct_sp K |} in
  let '(op, val) := str_op oc v in
  let t := match op with OpStartswith => sw | OpEndswith => ew | OpContains => ct
                    | OpWildMatch => wm | OpEq => base end in
  match t with
  | None => Crash (if cased then C_NotImplemented else C_AttributeError)
  | Some t =>
      obind val (fun x =>
      obind (value_str K (pm op) x) (fun vs =>
      obind (value_as_regex K x) (fun rs =>
      fmt t ([(K_field, qf); (K_value, vs); (K_regex, rs)] ++
             (if cased then [] else [(K_backend, [])])))))
  end.

Definition with_tpl (t : option tpl) (k : tpl -> outcome str) : outcome str :=
  match t with Some t => k t | None => Crash C_NotImplemented end.

Definition ts_usable (K : lcfg) : bool :=
  match l_ts K, l_ts_map K with Some (_ :: _), _ :: _ => true | _, _ => false end.

Definition render_leaf (K : lcfg) (neg : bool) (f : str) (fo : foracle) (pm : sop -> bool) (v : lval)
  : outcome str :=
  let qf := qfield K fo f in
  match v with
  | LStr cased s => render_str K neg cased qf pm s
  | LNum txt => Ok (qf ++ l_eq_token K ++ txt)
  | LBool b => match (if b then l_true K else l_false K) with
               | Some t => Ok (qf ++ l_eq_token K ++ t)
               | None => Crash C_NotImplemented
               end
  | LNull => with_tpl (l_null K) (fun t => fmt t [(K_field, qf)])
  | LRe rx fi fm fs =>
      with_tpl (pick neg (l_re K) (l_nre K)) (fun t =>
        obind (flag_env K fi fm fs) (fun fe =>
          fmt t ([(K_field, qf); (K_regex, value_re K rx fi fm fs)] ++ fe)))
  | LCidr net addr plen mask =>
      match pick neg (l_cidr K) (l_ncidr K) with
      | Some t => fmt t [(K_field, f); (K_value, net); (K_network, addr); (K_prefixlen, plen); (K_netmask, mask)]
      | None => Crash C_Structural
      end
  | LCmp op txt =>
      match l_cmp K, l_cmp_ops K with
      | Some t, Some ops => fmt t [(K_field, qf); (K_operator, ops op); (K_value, txt)]
      | _, _ => Crash C_NotImplemented
      end
  | LCmpTs op part txt =>
      match l_cmp K, l_cmp_ops K with
      | Some t, Some ops =>
          if ts_usable K then
            match l_ts K, lookup part (l_ts_map K) with
            | Some t2, Some p => obind (fmt t2 [(K_field, qf); (K_tspart, p)]) (fun x => Ok (x ++ ops op ++ txt))
            | _, _ => Crash C_KeyError
            end
          else fmt t [(K_field, qf); (K_operator, ops op); (K_value, txt)]
      | _, _ => Crash C_NotImplemented
      end
  | LTs part txt =>
      with_tpl (l_ts K) (fun t2 =>
        match lookup part (l_ts_map K) with
        | Some p => obind (fmt t2 [(K_field, qf); (K_tspart, p)]) (fun x => Ok (x ++ l_eq_token K ++ txt))
        | None => Crash C_KeyError
        end)
  | LExists true => with_tpl (l_exists K) (fun t => fmt t [(K_field, qf)])
  | LExists false =>
      match l_nexists K with
      | Some t => fmt t [(K_field, qf)]
      | None => Crash C_Structural
      end
  | LFieldRef f2 fo2 sw ew =>
      let q1 := if l_ff_q1 K then qf else f in
      let q2 := if l_ff_q2 K then qfield K fo2 f2 else f2 in
      let t := if sw && ew then l_ffct K else if sw then l_ffsw K else if ew then l_ffew K else l_ff K in
      with_tpl t (fun t => fmt t [(K_field1, q1); (K_field2, q2)])
  | LOther => Crash C_TypeError
  end.

(* convert_condition_val: value without a field *)
Definition render_val (K : lcfg) (pm : bool) (v : lval) : outcome str :=
  match v with
  | LStr _ s =>
      with_tpl (l_ub_str K) (fun t =>
        obind (value_str K pm s) (fun vs =>
        obind (value_as_regex K s) (fun rs => fmt t [(K_value, vs); (K_regex, rs)])))
  | LNum txt => with_tpl (l_ub_num K) (fun t => fmt t [(K_value, txt)])
  | LRe rx fi fm fs =>
      with_tpl (l_ub_re K) (fun t =>
        obind (flag_env K fi fm fs) (fun fe => fmt t ((K_value, value_re K rx fi fm fs) :: fe)))
  | LBool _ | LCidr _ _ _ _ => SigmaErr E_Value
  | _ => Crash C_TypeError
  end.

(* convert_condition_as_in_expression (l.1660): the arguments are string or number leaves of one field
   (decide_convert_condition_as_in_expression, Model/Backend.v decide_in); pm: str_quote_pattern decision
   per string value *)
Fixpoint join_texts (sep : str) (l : list str) : str :=
  match l with [] => [] | [x] => x | x :: r => x ++ sep ++ join_texts sep r end.
Fixpoint in_texts (K : lcfg) (vals : list (lval * bool)) : outcome (list str) :=
  match vals with
  | [] => Ok []
  | (v, pm) :: r =>
      obind (match v with
             | LStr _ sv => value_str K pm sv
             | LNum txt => Ok txt
             | _ => Crash C_TypeError
             end) (fun t => obind (in_texts K r) (fun ts => Ok (t :: ts)))
  end.
Definition render_in (K : lcfg) (disj : bool) (f : str) (fo : foracle) (vals : list (lval * bool)) : outcome str :=
  match l_in K, l_list_sep K with
  | Some t, Some sep =>
      obind (in_texts K vals) (fun ts =>
        fmt t [(K_field, qfield K fo f); (K_op, if disj then l_or_in_op K else l_and_in_op K);
               (K_list, join_texts sep ts)])
  | _, _ => Crash C_NotImplemented
  end.
