(* C14 - model of sigma/processing/pipeline.py (ProcessingPipeline: __post_init__/set_pipeline,
   _clear_pipeline, __add__, __radd__, apply, postprocess_query, finalize), resolver.py (resolve),
   conversion/base.py (init_processing_pipeline, convert, convert_rule, finalize_query, finalize).
   Pipelines, items, post-processing items and finalizers are Python objects: the heap records for
   every item object the pipeline object that owns it (`_pipeline`), and for every pipeline object
   its mutable `vars` and `state`.  Items read and write the state of their OWNER, which is the
   running pipeline only as long as nobody re-owned them (defect D18). *)
From Coq Require Import NArith ZArith List Bool.
From PS Require Import Base.Chars Base.Outcome Spec.AbsPipeline.
Import ListNotations.
Open Scope N_scope.

Definition upd {A} (f : N -> A) (k : N) (v : A) : N -> A := fun x => if N.eqb x k then v else f x.

Record heap := { h_own : N -> option N;     (* item/post/finalizer object -> owning pipeline object *)
                 h_vars : N -> dict;        (* pipeline object -> vars *)
                 h_state : N -> dict;       (* pipeline object -> state *)
                 h_next : N }.              (* next fresh pipeline object *)
Definition h_empty : heap :=
  {| h_own := fun _ => None; h_vars := fun _ => []; h_state := fun _ => []; h_next := 0 |}.

(* a reference to a pipeline object together with its immutable fields *)
Record ppl := { p_id : N; p_items : list pitem; p_post : list ppost; p_fin : list pfin;
                p_prio : Z; p_name : option str }.
Definition ptagged (p : ppl) := tagged (p_items p) (p_post p) (p_fin p).
Definition uids (p : ppl) : list N := map fst (ptagged p).

(* set_pipeline of every contained object, in order items, post-processing items, finalizers:
   raises when an object already has an owner *)
Fixpoint own_all (own : N -> option N) (pid : N) (us : list (N * N)) : (N -> option N) * option N :=
  match us with
  | [] => (own, None)
  | (u, tag) :: us' => match own u with
                       | None => own_all (upd own u (Some pid)) pid us'
                       | Some _ => (own, Some tag)
                       end
  end.
Definition clear_all (own : N -> option N) (us : list N) : N -> option N :=
  fold_left (fun o u => upd o u None) us own.

(* ProcessingPipeline(items, postprocessing_items, finalizers, vars, priority, name) *)
Definition mk (h : heap) (its : list pitem) (ps : list ppost) (fs : list pfin) (vars : dict)
           (prio : Z) (name : option str) : heap * outcome ppl :=
  let pid := h_next h in
  let oe := own_all (h_own h) pid (tagged its ps fs) in
  ({| h_own := fst oe; h_vars := upd (h_vars h) pid vars; h_state := upd (h_state h) pid [];
      h_next := N.succ pid |},
   match snd oe with
   | None => Ok {| p_id := pid; p_items := its; p_post := ps; p_fin := fs; p_prio := prio; p_name := name |}
   | Some t => SigmaErr t
   end).

(* __add__ with a pipeline operand: clear both operands' ownership, build the concatenation *)
Definition add (h : heap) (p q : ppl) : heap * outcome ppl :=
  let own1 := clear_all (clear_all (h_own h) (uids p)) (uids q) in
  mk {| h_own := own1; h_vars := h_vars h; h_state := h_state h; h_next := h_next h |}
     (p_items p ++ p_items q) (p_post p ++ p_post q) (p_fin p ++ p_fin q)
     (dmerge (h_vars h (p_id p)) (h_vars h (p_id q))) 0%Z None.
(* __add__(None) returns self; __radd__(0) returns self *)
Definition add_opt (h : heap) (p : ppl) (q : option ppl) : heap * outcome ppl :=
  match q with None => (h, Ok p) | Some q => add h p q end.
Definition hbind {A B} (x : heap * outcome A) (f : heap -> A -> heap * outcome B) : heap * outcome B :=
  match snd x with
  | Ok a => f (fst x) a
  | SigmaErr t => (fst x, SigmaErr t)
  | Crash t => (fst x, Crash t)
  end.
(* sum(list) or ProcessingPipeline(): 0 + p is p itself *)
Definition psum (h : heap) (l : list ppl) : heap * outcome ppl :=
  match l with
  | [] => mk h [] [] [] [] 0%Z None
  | p :: l' => fold_left (fun acc q => hbind acc (fun h' s => add h' s q)) l' (h, Ok p)
  end.

(* all bracketings of + over registers *)
Inductive tree := Leaf (p : ppl) | Plus (a b : tree).
Fixpoint eval (h : heap) (e : tree) : heap * outcome ppl :=
  match e with
  | Leaf p => (h, Ok p)
  | Plus a b => hbind (eval h a) (fun h1 pa => hbind (eval h1 b) (fun h2 pb => add h2 pa pb))
  end.
Fixpoint leaves (e : tree) : list ppl :=
  match e with Leaf p => [p] | Plus a b => leaves a ++ leaves b end.

(* ProcessingPipelineResolver(table).resolve(specs): every spec is resolved first, in argument order
   - a registered object is taken as it is, a callable / YAML file yields a fresh pipeline with fresh
   item objects (c counts these instantiations) -, then the (pipeline, priority, spec) triples are
   sorted by (priority, spec) and summed *)
Definition mk_def (h : heap) (d : pdef) := mk h (d_items d) (d_post d) (d_fin d) (d_vars d) (d_prio d) (d_name d).
Fixpoint minst_all (h : heap) (c : N) (l : list ((str * rent ppl) * str)) : (heap * N) * outcome (list (ppl * str)) :=
  match l with
  | [] => ((h, c), Ok [])
  | es :: l' => match snd (fst es) with
                | RObj p => let r := minst_all h c l' in (fst r, obind (snd r) (fun x => Ok ((p, snd es) :: x)))
                | RCall d => let hp := mk_def h (renum c d) in
                             match snd hp with
                             | Ok p => let r := minst_all (fst hp) (N.succ c) l' in
                                       (fst r, obind (snd r) (fun x => Ok ((p, snd es) :: x)))
                             | SigmaErr t => ((fst hp, N.succ c), SigmaErr t)
                             | Crash t => ((fst hp, N.succ c), Crash t)
                             end
                | RSeq ds => let hp := mk_def h (renum c (seq_pick c ds)) in
                             match snd hp with
                             | Ok p => let r := minst_all (fst hp) (N.succ c) l' in
                                       (fst r, obind (snd r) (fun x => Ok ((p, snd es) :: x)))
                             | SigmaErr t => ((fst hp, N.succ c), SigmaErr t)
                             | Crash t => ((fst hp, N.succ c), Crash t)
                             end
                end
  end.
Definition ent_prio (e : str * rent ppl) : Z :=
  match snd e with RObj p => p_prio p | RCall d => d_prio d | RSeq ds => d_prio (seq_pick 0 ds) end.
Definition resolve (h : heap) (c : N) (t : list (str * rent ppl)) (specs : list str) : (heap * N) * outcome ppl :=
  match resolve_all tab_nm t specs with
  | None => ((h, c), SigmaErr E_NotFound)
  | Some l => let r := minst_all h c l in
              match snd r with
              | Ok infos => let hs := psum (fst (fst r)) (map fst (isort (info_leb p_prio) infos)) in
                            ((fst hs, snd (fst r)), snd hs)
              | SigmaErr x => (fst r, SigmaErr x)
              | Crash x => (fst r, Crash x)
              end
  end.

(* Backend.init_processing_pipeline: backend + user + output-format pipeline, then three vars *)
Definition init (h : heap) (f : fmt) (bk : ppl) (user : option ppl) (outf : ppl) : heap * outcome ppl :=
  hbind (add_opt h bk user) (fun h1 s1 =>
  hbind (add h1 s1 outf) (fun h2 s2 =>
    ({| h_own := h_own h2;
        h_vars := upd (h_vars h2) (p_id s2)
                      (dset (dset (h_vars h2 (p_id s2)) s_backend s_backend_name) s_output_format (fmt_name f));
        h_state := h_state h2; h_next := h_next h2 |}, Ok s2))).

(* ---- running a pipeline: every access to state/vars goes through the owner pointer ---- *)
Definition set_state (h : heap) (pid : N) (st : dict) : heap :=
  {| h_own := h_own h; h_vars := h_vars h; h_state := upd (h_state h) pid st; h_next := h_next h |}.
Definition m_cond (h : heap) (u : N) (rids : list str) (c : pcond) : outcome bool :=
  match c with
  | CNone => Ok true
  | CApplied i => Ok (existsb (str_eqb i) rids)      (* rule.was_processed_by(i): no pipeline involved *)
  | CState k v => match h_own h u with
                  | None => SigmaErr E_ProcItem       (* "Processing pipeline must be set before matching" *)
                  | Some o => Ok (cond_holds (h_state h o) rids (CState k v))
                  end
  end.
Record mstate := { m_conj : list (str * str); m_applied : list bool; m_ids : list str; m_rids : list str }.
Definition m_item_step (acc : outcome (heap * mstate)) (i : pitem) : outcome (heap * mstate) :=
  obind acc (fun hm => let h := fst hm in let m := snd hm in
  obind (m_cond h (i_uid i) (m_rids m) (i_cond i)) (fun c =>
    if c then
      let conj := match i_kind i with
                  | KSuffix s => map (fun fv => (fst fv ++ s, snd fv)) (m_conj m)
                  | KAddCond f v => (f, v) :: m_conj m
                  | KSetState _ _ => m_conj m
                  end in
      let h' := match i_kind i with
                | KSetState k v => match h_own h (i_uid i) with
                                   | Some o => set_state h o (dset (h_state h o) k v)
                                   | None => h           (* if self._pipeline is not None *)
                                   end
                | _ => h
                end in
      Ok (h', {| m_conj := conj; m_applied := m_applied m ++ [true]; m_ids := add_id (m_ids m) (i_id i);
                 m_rids := add_id (m_rids m) (i_id i) |})
    else Ok (h, {| m_conj := m_conj m; m_applied := m_applied m ++ [false]; m_ids := m_ids m; m_rids := m_rids m |}))).
(* ProcessingPipeline.apply: resets applied, applied_ids, state of SELF, then the items; the rule object
   is fresh *)
Definition m_apply (h : heap) (self : ppl) (r : rule) : outcome (heap * mstate) :=
  fold_left m_item_step (p_items self)
            (Ok (set_state h (p_id self) [], {| m_conj := [(r_field r, r_value r)]; m_applied := []; m_ids := []; m_rids := [] |})).

(* postprocess_query: item by item, each condition checked after the earlier items ran *)
Definition m_post_step (h : heap) (acc : outcome pacc) (p : ppost) : outcome pacc :=
  obind acc (fun a =>
  obind (m_cond h (q_uid p) (pa_rids a) (q_cond p)) (fun c =>
    if c then
      match q_kind p with
      | PEmbed x y => Ok (post_mark p (x ++ pa_q a ++ y) a true)
      | PTplState k => match h_own h (q_uid p) with
                       | None => Crash C_Attr            (* None.state *)
                       | Some o => match lookup k (h_state h o) with
                                   | Some v => Ok (post_mark p (pa_q a ++ [124] ++ v) a false)
                                   | None => Crash C_Key end
                       end
      | PTplVar k => match h_own h (q_uid p) with
                     | None => Crash C_Attr
                     | Some o => match lookup k (h_vars h o) with
                                 | Some v => Ok (post_mark p (pa_q a ++ [124] ++ v) a false)
                                 | None => Crash C_Key end
                     end
      end
    else Ok a)).
Fixpoint m_post (h : heap) (ps : list ppost) (qs : list str) (ids rids : list str) : outcome (list str * list str) :=
  match qs with
  | [] => Ok ([], ids)
  | q :: qs' => obind (fold_left (m_post_step h) ps (Ok {| pa_q := q; pa_ids := ids; pa_rids := rids |})) (fun a =>
                obind (m_post h ps qs' (pa_ids a) (pa_rids a)) (fun r => Ok (pa_q a :: fst r, snd r)))
  end.

(* convert_rule for every rule (no re-initialisation), then Backend.finalize *)
Definition m_rule (f : fmt) (self : ppl) (acc : outcome (heap * racc)) (r : rule) : outcome (heap * racc) :=
  obind acc (fun ha => let a := snd ha in
  obind (m_apply (fst ha) self r) (fun hm => let h := fst hm in let m := snd hm in
    let st := h_state h (p_id self) in          (* ConversionState(processing_state=dict(self.state)) *)
    let q := fmt_query f st (query_of (m_conj m)) in
    obind (m_post h (p_post self) (if r_two r then [q; q] else [q]) (m_ids m) (m_rids m)) (fun qi =>
    Ok (h, {| ra_qs := ra_qs a ++ fst qi; ra_obs := ra_obs a ++ [(m_applied m, st)]; ra_ids := snd qi |})))).
Definition m_run (h : heap) (f : fmt) (self : ppl) (rules : list rule) : heap * outcome result :=
  match fold_left (m_rule f self) rules (Ok (h, {| ra_qs := []; ra_obs := []; ra_ids := [] |})) with
  | Ok ha => (fst ha, Ok {| o_out := stage_final (p_fin self) (ra_qs (snd ha)); o_rules := ra_obs (snd ha);
                            o_ids := ra_ids (snd ha); o_vars := h_vars (fst ha) (p_id self) |})
  | SigmaErr t => (h, SigmaErr t)
  | Crash t => (h, Crash t)
  end.

(* the abstraction function and the ownership invariant *)
Definition abs (h : heap) (p : ppl) : apipe :=
  {| a_items := p_items p; a_post := p_post p; a_fin := p_fin p; a_vars := h_vars h (p_id p) |}.
Definition owned (h : heap) (p : ppl) : Prop := forall u, In u (uids p) -> h_own h u = Some (p_id p).
Definition ownedb (h : heap) (p : ppl) : bool :=
  forallb (fun u => match h_own h u with Some o => N.eqb o (p_id p) | None => false end) (uids p).

(* ---- histories on the heap: the same API calls as Spec.AbsPipeline.op, on objects ---- *)
Fixpoint to_tree (regs : list ppl) (e : itree) : option tree :=
  match e with
  | ILeaf i => match nth_error regs i with Some p => Some (Leaf p) | None => None end
  | IPlus a b => match to_tree regs a, to_tree regs b with
                 | Some ta, Some tb => Some (Plus ta tb)
                 | _, _ => None
                 end
  end.
(* a backend object: the combined pipeline it built last (last_processing_pipeline) and the output
   format it was built for.  convert() rebuilds it on every call; convert_rule() only when there is
   none *)
Record mach := { mc_heap : heap; mc_regs : list ppl; mc_lastA : option (ppl * fmt); mc_lastB : option (ppl * fmt);
                 mc_res : option result; mc_fresh : N }.
Definition mc_last (m : mach) (b : bool) := if b then mc_lastB m else mc_lastA m.
Definition mc_push (m : mach) (c : N) (hp : heap * outcome ppl) : outcome mach :=
  obind (snd hp) (fun p =>
    Ok {| mc_heap := fst hp; mc_regs := mc_regs m ++ [p]; mc_lastA := mc_lastA m; mc_lastB := mc_lastB m;
          mc_res := mc_res m; mc_fresh := c |}).
Definition mc_set_last (m : mach) (b : bool) (f : fmt) (hp : heap * outcome ppl) : outcome mach :=
  obind (snd hp) (fun p =>
    Ok {| mc_heap := fst hp; mc_regs := mc_regs m; mc_lastA := if b then mc_lastA m else Some (p, f);
          mc_lastB := if b then Some (p, f) else mc_lastB m; mc_res := mc_res m; mc_fresh := mc_fresh m |}).
Definition mc_user (m : mach) (u : option nat) : outcome (option ppl) :=
  match u with
  | None => Ok None
  | Some i => match nth_error (mc_regs m) i with Some p => Ok (Some p) | None => Crash C_Harness end
  end.
(* convert_rule(rule, f) for every rule + finalize(queries, f) with the pipeline the backend has *)
Definition mc_run (f : fmt) (rules : list rule) (m : mach) (b : bool) : outcome mach :=
  match mc_last m b with
  | None => Crash C_Harness
  | Some pf => let hr := m_run (mc_heap m) f (fst pf) rules in
               obind (snd hr) (fun r =>
                 Ok {| mc_heap := fst hr; mc_regs := mc_regs m; mc_lastA := mc_lastA m; mc_lastB := mc_lastB m;
                       mc_res := Some r; mc_fresh := mc_fresh m |})
  end.
Definition mstep (t : list (str * rent ppl)) (bk : ppl) (outf : fmt -> ppl) (rules : list rule) (m : mach) (o : op) : outcome mach :=
  match o with
  | OpTree e => match to_tree (mc_regs m) e with
                | None => Crash C_Harness
                | Some t => mc_push m (mc_fresh m) (eval (mc_heap m) t)
                end
  | OpResolve specs => let r := resolve (mc_heap m) (mc_fresh m) t specs in
                       mc_push m (snd (fst r)) (fst (fst r), snd r)
  | OpSum l => match nths (mc_regs m) l with
               | Some (p :: ps) => mc_push m (mc_fresh m) (psum (mc_heap m) (p :: ps))
               | _ => Crash C_Harness
               end
  | OpInit b u f => obind (mc_user m u) (fun up => mc_set_last m b f (init (mc_heap m) f bk up (outf f)))
  | OpRun b f => match mc_last m b with
                 | Some _ => mc_run f rules m b           (* the pipeline of the earlier initialisation, whatever its format *)
                 | None => obind (mc_set_last m b f (init (mc_heap m) f bk None (outf f))) (fun m' => mc_run f rules m' b)
                 end
  | OpConvert b u f => obind (mc_user m u) (fun up =>
                       obind (mc_set_last m b f (init (mc_heap m) f bk up (outf f))) (fun m' => mc_run f rules m' b))
  end.
(* premise of the behaviour theorem at every conversion without re-initialisation so far: the
   pipeline still owned all its objects and was built for the requested format (both always true
   right after init_processing_pipeline) *)
Definition run_dom (m : mach) (o : op) (prev : bool) : bool :=
  match o with
  | OpRun b f => prev && match mc_last m b with
                         | Some pf => ownedb (mc_heap m) (fst pf) && fmt_eqb f (snd pf)
                         | None => true
                         end
  | _ => prev
  end.
Definition mstep_acc (t : list (str * rent ppl)) (bk : ppl) (outf : fmt -> ppl) (rules : list rule)
           (acc : outcome mach * bool) (o : op) : outcome mach * bool :=
  match fst acc with
  | Ok m => (mstep t bk outf rules m o, run_dom m o (snd acc))
  | _ => acc
  end.
(* the initial objects: the operand pipelines, then the backend's class-level pipelines: its own and
   one output-format pipeline per format *)
Fixpoint mk_defs (h : heap) (ds : list pdef) : heap * outcome (list ppl) :=
  match ds with
  | [] => (h, Ok [])
  | d :: ds' => hbind (mk_def h d) (fun h1 p => hbind (mk_defs h1 ds') (fun h2 l => (h2, Ok (p :: l))))
  end.
Definition by_fmt {A} (x y z : A) (f : fmt) : A := match f with FDefault => x | FTest => y | FState => z end.
(* result of the last conversion of the history, and whether every conversion so far was inside the
   domain of the behaviour theorem *)
Definition mexec (defs : list pdef) (tn : list (str * rent nat)) (bkd od ot os : pdef) (rules : list rule)
           (prog : list op) : outcome result * bool :=
  let hl := mk_defs h_empty (defs ++ [bkd; od; ot; os]) in
  match snd hl with
  | Ok l =>
    let n := length defs in
    match nth_error l n, nth_error l (1 + n), nth_error l (2 + n), nth_error l (3 + n), conv_tab (firstn n l) tn with
    | Some bk, Some o1, Some o2, Some o3, Some t =>
        let r := fold_left (mstep_acc t bk (by_fmt o1 o2 o3) rules) prog
                           (Ok {| mc_heap := fst hl; mc_regs := firstn n l; mc_lastA := None; mc_lastB := None;
                                  mc_res := None; mc_fresh := 0 |}, true) in
        (obind (fst r) (fun m => match mc_res m with Some x => Ok x | None => Crash C_Harness end), snd r)
    | _, _, _, _, _ => (Crash C_Harness, true)
    end
  | SigmaErr t => (SigmaErr t, true)
  | Crash t => (Crash t, true)
  end.
Definition adef (d : pdef) : aval := (apipe_of d, d_prio d).
