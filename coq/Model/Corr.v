(* Model of correlation rule conversion (sigma/conversion/base.py convert_correlation_rule,
   convert_correlation_rule_from_template, the search / typing / aggregation / condition phases,
   convert_extended_correlation_condition*, convert_timespan; sigma/correlations.py
   SigmaCorrelationTimespan; FieldMappingTransformationBase.apply on a correlation rule) for the
   verification backend of impl/c10.py, whose templates are bracket trees (Model/BTree.v).
   The model mirrors what the code does today.  Definitions only. *)
From Coq Require Import String Ascii.
From Coq Require Import List NArith ZArith Bool Arith.
From PS Require Import Base.Chars Base.Outcome Model.Backend Model.BTree.
Import ListNotations.
Open Scope string_scope.
Open Scope list_scope.
Open Scope N_scope.

Definition lit (x : string) : str := List.map N_of_ascii (list_ascii_of_string x).

(* ---------- error tags (shared with props/c10.py) ---------- *)
Definition E_Timespan : N := 20.    (* SigmaTimespanError *)
Definition E_Config : N := 21.      (* SigmaConfigurationError *)
Definition E_Conversion : N := 22.  (* SigmaConversionError *)
Definition C_Index : N := 1.        (* IndexError *)
Definition C_NotImpl : N := 2.      (* NotImplementedError *)

Fixpoint mapM {A B} (f : A -> outcome B) (l : list A) : outcome (list B) :=
  match l with
  | [] => Ok []
  | x :: r => obind (f x) (fun y => obind (mapM f r) (fun ys => Ok (y :: ys)))
  end.

(* ---------- numbers: str(int) and int(str) ---------- *)
Fixpoint str_of_uint (u : Decimal.uint) : str :=
  match u with
  | Decimal.Nil => []
  | Decimal.D0 v => 48 :: str_of_uint v | Decimal.D1 v => 49 :: str_of_uint v
  | Decimal.D2 v => 50 :: str_of_uint v | Decimal.D3 v => 51 :: str_of_uint v
  | Decimal.D4 v => 52 :: str_of_uint v | Decimal.D5 v => 53 :: str_of_uint v
  | Decimal.D6 v => 54 :: str_of_uint v | Decimal.D7 v => 55 :: str_of_uint v
  | Decimal.D8 v => 56 :: str_of_uint v | Decimal.D9 v => 57 :: str_of_uint v
  end.
Definition dec_of_Z (z : Z) : str :=
  match Z.to_int z with
  | Decimal.Pos u => str_of_uint u
  | Decimal.Neg u => 45 :: str_of_uint u
  end.

Definition is_digit (c : char) : bool := (48 <=? c) && (c <=? 57).
Fixpoint uint_of_digits (l : str) : option Decimal.uint :=
  match l with
  | [] => Some Decimal.Nil
  | c :: r =>
    match uint_of_digits r with
    | None => None
    | Some u =>
      if c =? 48 then Some (Decimal.D0 u) else if c =? 49 then Some (Decimal.D1 u)
      else if c =? 50 then Some (Decimal.D2 u) else if c =? 51 then Some (Decimal.D3 u)
      else if c =? 52 then Some (Decimal.D4 u) else if c =? 53 then Some (Decimal.D5 u)
      else if c =? 54 then Some (Decimal.D6 u) else if c =? 55 then Some (Decimal.D7 u)
      else if c =? 56 then Some (Decimal.D8 u) else if c =? 57 then Some (Decimal.D9 u)
      else None
    end
  end.
(* digits with single underscores between them (PEP 515), as accepted by int() *)
Fixpoint digits_us (prev_digit : bool) (l : str) : option str :=
  match l with
  | [] => if prev_digit then Some [] else None
  | c :: r => if is_digit c then option_map (cons c) (digits_us true r)
              else if c =? 95 then (if prev_digit then digits_us false r else None)
              else None
  end.
Definition is_ws (c : char) : bool := (c =? 32) || ((9 <=? c) && (c <=? 13)).
Fixpoint lstrip (s : str) : str := match s with c :: r => if is_ws c then lstrip r else s | [] => [] end.
Definition strip (s : str) : str := rev (lstrip (rev (lstrip s))).
(* int(s) for ASCII input: None models ValueError *)
Definition py_int (s : str) : option Z :=
  let t := strip s in
  let '(neg, body) := match t with
                      | c :: r => if c =? 45 then (true, r) else if c =? 43 then (false, r) else (false, t)
                      | [] => (false, [])
                      end in
  match digits_us false body with
  | None => None
  | Some ds => match uint_of_digits ds with
               | None => None
               | Some u => let z := Z.of_uint u in Some (if neg then Z.opp z else z)
               end
  end.

(* ---------- SigmaCorrelationTimespan / convert_timespan ---------- *)
Definition unit_len (u : char) : option Z :=
  if u =? 115 then Some 1%Z              (* s *)
  else if u =? 109 then Some 60%Z        (* m *)
  else if u =? 104 then Some 3600%Z      (* h *)
  else if u =? 100 then Some 86400%Z     (* d *)
  else if u =? 119 then Some 604800%Z    (* w *)
  else if u =? 77 then Some 2629746%Z    (* M *)
  else if u =? 121 then Some 31556952%Z  (* y *)
  else None.
Record timespan := { t_count : Z; t_unit : char; t_seconds : Z }.
Definition parse_ts (spec : str) : option timespan :=
  match rev spec with
  | [] => None                                   (* int('') *)
  | u :: rc =>
    match py_int (rev rc) with
    | None => None
    | Some n => match unit_len u with
                | None => None
                | Some len => Some {| t_count := n; t_unit := u; t_seconds := (n * len)%Z |}
                end
    end
  end.
Inductive tsmode := TsSeconds | TsMap | TsPass.
(* the verification backend's (deliberately incomplete) timespan_mapping *)
Definition ts_map (u : char) : option str :=
  if u =? 115 then Some (lit "sec") else if u =? 109 then Some (lit "min")
  else if u =? 104 then Some (lit "hrs") else if u =? 77 then Some (lit "mon") else None.
Definition render_ts (m : tsmode) (spec : str) (t : timespan) : str :=
  match m with
  | TsSeconds => dec_of_Z (t_seconds t)
  | TsMap => match ts_map (t_unit t) with
             | Some x => dec_of_Z (t_count t) ++ x
             | None => spec
             end
  | TsPass => spec
  end.

(* ---------- the rule and its environment ---------- *)
Inductive ctype := TEventCount | TValueCount | TTemporal | TTemporalOrdered
                 | TValueSum | TValueAvg | TValuePercentile | TValueMedian.
Inductive cop := OpLt | OpLte | OpGt | OpGte | OpEq | OpNeq.
Inductive fieldref := FNone | FOne (f : str) | FMany (l : list str).
Inductive ccond :=
| CBasic (o : cop) (cnt : Z) (f : fieldref) (pct : option Z)
| CExt (t : cond).     (* atoms index into r_xrefs *)

(* what is known about a referenced rule: its identifiers, the queries it converts to on its own
   (as bracket trees; raw = before finalisation, fin = finalised and post-processed), its fields
   attribute as written, the log source categories a LogsourceCondition sees for it *)
Record rinfo := {
  ri_name : option str; ri_id : option str; ri_corr : bool;
  ri_raw : list (list node); ri_fin : list (list node);
  ri_fields : list str; ri_cats : list str }.
(* a reference as written, the index of the document it resolves to, and that document *)
Record rref := { rr_ref : str; rr_doc : nat; rr_info : rinfo }.

Record crule := {
  r_type : ctype;
  r_rules : option (list rref);                       (* None: rules omitted with an extended condition *)
  r_ts : str;
  r_gb : option (list str);
  r_aliases : list (str * list (str * nat * str));    (* alias -> (reference as written, document, field) *)
  r_cond : option ccond;                              (* None: omitted (temporal types) *)
  r_fields : list str;
  r_xrefs : list rref }.                              (* identifiers of the extended condition's atoms *)

Record kcfg := {
  k_cfg : cfg;                      (* precedence / parenthesize *)
  k_single : bool; k_norm : bool; k_typing : bool; k_ts : tsmode; k_nofield : bool;
  k_fields : bool; k_finalize : bool; k_own_frame : bool; k_post : bool }.

(* ---------- field-name pipelines ---------- *)
Inductive fmap := FMap (l : list (str * list str)) | FPrefix (p : str) | FSuffix (s : str).
Record pitem := { pi_f : fmap; pi_cat : option str }.

Fixpoint assoc {A} (k : str) (l : list (str * A)) : option A :=
  match l with [] => None | (k', v) :: r => if str_eqb k k' then Some v else assoc k r end.
Definition apply_name (f : fmap) (x : str) : list str :=
  match f with
  | FMap l => match assoc x l with Some ys => ys | None => [x] end
  | FPrefix p => [p ++ x]
  | FSuffix s => [x ++ s]
  end.
Definition matches (it : pitem) (cats : list str) : bool :=
  match pi_cat it with None => true | Some c => existsb (str_eqb c) cats end.
Definition mem_str (x : str) (l : list str) : bool := existsb (str_eqb x) l.

Definition single (l : list str) : outcome str :=
  match l with [x] => Ok x | [] => Crash C_Index | _ => SigmaErr E_Config end.

Record pstate := {
  ps_fields : list str; ps_aliases : list (str * list (str * nat * str));
  ps_gb : option (list str); ps_cf : fieldref }.

(* FieldMappingTransformationBase.apply on a correlation rule *)
Definition step (f : str -> list str) (st : pstate) : outcome pstate :=
  let fields := flat_map f (ps_fields st) in
  obind (obind (mapM (fun am : str * list (str * nat * str) =>
                        obind (mapM (fun e : str * nat * str =>
                                       obind (single (f (snd e))) (fun fl => Ok (fst e, fl)))
                                    (snd am))
                              (fun mp => Ok (fst am, mp)))
                     (ps_aliases st))
               (fun als => Ok (als, option_map (flat_map (fun x => if mem_str x (map fst (ps_aliases st)) then [x] else f x))
                                               (ps_gb st))))
        (fun ag =>
           obind (match ps_cf st with
                  | FNone => Ok FNone
                  | FOne x => obind (single (f x)) (fun y => Ok (FOne y))
                  | FMany l => obind (mapM (fun x => single (f x)) l) (fun l' => Ok (FMany l'))
                  end)
                 (fun cf => Ok {| ps_fields := fields; ps_aliases := fst ag; ps_gb := snd ag; ps_cf := cf |})).

Fixpoint run_pipeline (P : list pitem) (cats : list str) (st : pstate) : outcome pstate :=
  match P with
  | [] => Ok st
  | it :: r => if matches it cats then obind (step (apply_name (pi_f it)) st) (run_pipeline r cats)
               else run_pipeline r cats st
  end.
(* the fields attribute of a referenced rule after the pipeline ran on that rule *)
Fixpoint ref_fields (P : list pitem) (cats : list str) (fs : list str) : list str :=
  match P with
  | [] => fs
  | it :: r => ref_fields r cats (if matches it cats then flat_map (apply_name (pi_f it)) fs else fs)
  end.

(* ---------- pieces of text ---------- *)
Definition type_name (t : ctype) : str :=
  match t with
  | TEventCount => lit "event_count" | TValueCount => lit "value_count"
  | TTemporal => lit "temporal" | TTemporalOrdered => lit "temporal_ordered"
  | TValueSum => lit "value_sum" | TValueAvg => lit "value_avg"
  | TValuePercentile => lit "value_percentile" | TValueMedian => lit "value_median"
  end.
(* convert_correlation_rule: type -> method; the method's template family *)
Definition ctag (t : ctype) (ext : bool) : str :=
  match t, ext with
  | TTemporal, true => lit "temporal_extended"
  | TTemporalOrdered, true => lit "temporal_ordered_extended"
  | _, _ => type_name t
  end.
Definition op_text (o : cop) : str :=
  match o with
  | OpLt => lit "<" | OpLte => lit "<=" | OpGt => lit ">" | OpGte => lit ">="
  | OpEq => lit "==" | OpNeq => lit "!="
  end.
Definition opt_text (o : option str) : str := match o with Some s => s | None => lit "None" end.
(* rule.name or rule.id *)
Definition ruleid (ri : rinfo) : str :=
  match ri_name ri with
  | Some (c :: n) => c :: n
  | _ => opt_text (ri_id ri)
  end.
(* escape_and_quote_field of the verification backend for names without quote and backslash *)
Definition is_word (c : char) : bool :=
  is_digit c || ((65 <=? c) && (c <=? 90)) || ((97 <=? c) && (c <=? 122)) || (c =? 95).
Definition quote_field (f : str) : str :=
  match f with
  | [] => [39; 39]
  | _ => if forallb is_word f then f else 39 :: f ++ [39]
  end.
Fixpoint join_str (sep : str) (l : list str) : str :=
  match l with [] => [] | [x] => x | x :: r => x ++ sep ++ join_str sep r end.
(* str.format of the condition field: None, a string, or the repr of a list of plain names *)
Definition field_text (f : fieldref) : str :=
  match f with
  | FNone => lit "None"
  | FOne x => x
  | FMany l => 91 :: join_str (lit ", ") (map (fun x => 39 :: x ++ [39]) l) ++ [93]
  end.

(* first occurrences only (the "fld not in all_fields" loop) *)
Fixpoint uniq_acc (seen : list str) (l : list str) : list str :=
  match l with
  | [] => []
  | x :: r => if mem_str x seen then uniq_acc seen r else x :: uniq_acc (x :: seen) r
  end.

Fixpoint atoms_of (c : cond) : list nat :=
  match c with
  | CAtom _ _ _ a => [a]
  | CNot a => atoms_of a
  | CBin _ l | CExp l => flat_map atoms_of l
  | _ => []
  end.
Fixpoint uniq_nat (seen : list nat) (l : list nat) : list nat :=
  match l with
  | [] => []
  | x :: r => if existsb (Nat.eqb x) seen then uniq_nat seen r else x :: uniq_nat (x :: seen) r
  end.
Definition no_info : rinfo :=
  {| ri_name := None; ri_id := None; ri_corr := false; ri_raw := []; ri_fin := []; ri_fields := []; ri_cats := [] |}.
Definition no_ref : rref := {| rr_ref := []; rr_doc := 0; rr_info := no_info |}.
(* SigmaCorrelationRule.resolve_rule_references *)
Definition referenced (r : crule) : list rref :=
  match r_rules r with
  | Some l => l
  | None => match r_cond r with
            | Some (CExt t) => map (fun a => nth a (r_xrefs r) no_ref) (uniq_nat [] (atoms_of t))
            | _ => []
            end
  end.

(* ---------- extended condition ---------- *)
Definition xcfg (K : cfg) : cfg :=
  {| lvl := lvl K; parenthesize := parenthesize K; or_in := false; and_in := false;
     in_wild := false; not_eq := false |}.
Definition tok_node (xrefs : list rref) (t : tok) : node :=
  match t with
  | TAtom a _ => E (lit "ref") (txt (rr_ref (nth a xrefs no_ref)))   (* the reference as written *)
  | TOp OAnd => T (lit " and ")
  | TOp OOr => T (lit " or ")
  | TOp ONot => T (lit "not ")
  | TL => T (lit "(")
  | TR => T (lit ")")
  | TIn _ _ _ => T (lit "?")
  end.
Definition xnodes (K : cfg) (xrefs : list rref) (t : cond) : list node :=
  merge (map (tok_node xrefs) (conv (xcfg K) false t)).

(* ---------- the four phases ---------- *)
Definition embed (K : kcfg) (ri : rinfo) : list (list node) :=
  (* convert_rule and convert_correlation_rule store the finalised queries of a referenced rule only
     if the backend opts in (finalize_correlation_subqueries); otherwise the raw ones *)
  if k_finalize K then ri_fin ri else ri_raw ri.

Definition norm_nodes (K : kcfg) (als : list (str * list (str * nat * str))) (ref : rref) : outcome (list node) :=
  match als with
  | [] => Ok []
  | _ => if negb (k_norm K) then Crash C_NotImpl
         else Ok (flat_map (fun am : str * list (str * nat * str) =>
                    flat_map (fun e : str * nat * str =>
                                if str_eqb (fst (fst e)) (rr_ref ref)       (* reference strings compared *)
                                then [E (lit "a") [E (lit "al") (txt (fst am)); E (lit "f") (txt (snd e))]]
                                else [])
                             (snd am))
                  als)
  end.

Definition ref_queries (K : kcfg) (refs : list rref) : list (rref * list node) :=
  flat_map (fun r => map (pair r) (embed K (rr_info r))) refs.

Definition search_multi (K : kcfg) als (refs : list rref) : outcome node :=
  obind (mapM (fun rq : rref * list node =>
                 obind (norm_nodes K als (fst rq))
                       (fun n => Ok (E (lit "r") [E (lit "id") (txt (ruleid (rr_info (fst rq))));
                                                  E (lit "q") (snd rq); E (lit "n") n])))
              (ref_queries K refs))
        (fun l => Ok (E (lit "SM") l)).
Definition search (K : kcfg) als (refs : list rref) : outcome node :=
  match refs with
  | [r1] => match embed K (rr_info r1) with
            | [q] => if k_single K
                     then obind (norm_nodes K als r1) (fun n => Ok (E (lit "S1") [E (lit "q") q; E (lit "n") n]))
                     else search_multi K als refs
            | _ => search_multi K als refs
            end
  | _ => search_multi K als refs
  end.

Definition typing (K : kcfg) (refs : list rref) : list node :=
  if k_typing K
  then [E (lit "TY") (map (fun rq : rref * list node =>
                             E (lit "t") [E (lit "id") (txt (ruleid (rr_info (fst rq)))); E (lit "q") (snd rq)])
                          (ref_queries K refs))]
  else [].

Definition rids (refs : list rref) : list node :=
  map (fun r => E (lit "rid") (txt (ruleid (rr_info r)))) refs.

Definition groupby_nodes (K : kcfg) (gb : option (list str)) : list node :=
  match gb with
  | None => if k_nofield K then [E (lit "G0") []] else []
  | Some g => [E (lit "G") (map (fun f => E (lit "gf") (txt (quote_field f))) g)]
  end.

Definition all_fields (gb : option (list str)) (fs : list str) : list str :=
  uniq_acc [] (filter (fun f => match gb with None => true | Some g => negb (mem_str f g) end) fs).
Definition fields_nodes (K : kcfg) (gb : option (list str)) (fs : list str) : list node :=
  if k_fields K
  then match all_fields gb fs with
       | [] => []
       | l => [E (lit "F") (map (fun f => E (lit "ff") (txt (quote_field f))) l)]
       end
  else [].

Definition is_ext (c : ccond) : bool := match c with CExt _ => true | _ => false end.

Definition aggregate (K : kcfg) (P : list pitem) (r : crule) (st : pstate) (c : ccond) (refs : list rref) (ts : str)
  : outcome node :=
  match r_type r, c with
  | TValuePercentile, CBasic _ _ _ None => SigmaErr E_Conversion
  | _, _ =>
    let reffields := flat_map (fun rf => ref_fields P (ri_cats (rr_info rf)) (ri_fields (rr_info rf))) refs in
    Ok (E (lit "A." ++ ctag (r_type r) (is_ext c))
          [E (lit "ts") (txt ts);
           E (lit "fld") (txt (match c with CBasic _ _ _ _ => field_text (ps_cf st) | CExt _ => [] end));
           E (lit "pct") (txt (match c with CBasic _ _ _ (Some p) => dec_of_Z p | _ => [] end));
           E (lit "rr") (rids refs);
           E (lit "fs") (fields_nodes K (ps_gb st) (reffields ++ ps_fields st));
           E (lit "g") (groupby_nodes K (ps_gb st))])
  end.

Definition condition (K : kcfg) (r : crule) (st : pstate) (c : ccond) (refs : list rref) : node :=
  match c with
  | CBasic o cnt _ _ =>
      E (lit "C." ++ ctag (r_type r) false)
        [E (lit "op") (txt (op_text o)); E (lit "cnt") (txt (dec_of_Z cnt));
         E (lit "fld") (txt (field_text (ps_cf st))); E (lit "rr") (rids refs)]
  | CExt t =>
      E (lit "C." ++ ctag (r_type r) true)
        [E (lit "x") (xnodes (k_cfg K) (r_xrefs r) t); E (lit "rr") (rids refs)]
  end.

Definition the_cond (r : crule) : ccond :=
  match r_cond r with
  | Some c => c
  | None => CBasic OpGte (Z.of_nat (List.length (match r_rules r with Some l => l | None => [] end))) FNone None
  end.

Definition fin_pre (K : kcfg) : str := (if k_post K then lit "P:" else []) ++ lit "F:".
Definition fin_suf (K : kcfg) : str := lit ":F" ++ (if k_post K then lit ":P" else []).

Definition convc (K : kcfg) (P : list pitem) (r : crule) : outcome (list node) :=
  match parse_ts (r_ts r) with
  | None => SigmaErr E_Timespan
  | Some t =>
    let refs := referenced r in
    let c := the_cond r in
    let cats := flat_map (fun rf => ri_cats (rr_info rf)) refs in
    obind (run_pipeline P cats
             {| ps_fields := r_fields r; ps_aliases := r_aliases r; ps_gb := r_gb r;
                ps_cf := match c with CBasic _ _ f _ => f | CExt _ => FNone end |})
    (fun st =>
       let ts := render_ts (k_ts K) (r_ts r) t in
       obind (search K (ps_aliases st) refs) (fun sr =>
       obind (aggregate K P r st c refs ts) (fun ag =>
       Ok (txt (fin_pre K) ++
           [E ((if k_own_frame K then lit "Q." ++ ctag (r_type r) (is_ext c) else lit "Q.default"))
              ([sr] ++ typing K refs ++ [E (lit "ts") (txt ts); ag; condition K r st c refs;
                                         E (lit "g") (groupby_nodes K (ps_gb st))])]
           ++ txt (fin_suf K)))))
  end.
