(* C11 - model of filter application.

   Anchors (pySigma working tree, after the repairs of D14 and D16):
     sigma/rule/logsource.py  SigmaLogSource.__contains__
     sigma/filters.py         SigmaFilter._should_apply_on_rule, apply_on_rule
                              (prefix drawing loop, detection renaming, the token rewrite
                               re.sub(r"[a-zA-Z0-9*_-]+", _replace_token, condition), "(c) and (f)")
     sigma/collection.py      SigmaCollection.__post_init__ (collect_filters), apply_filters,
                              __getitem__ (how a rule reference is looked up)
   The rewritten condition text is read by SigmaCondition (model: Model/FCondParse.v, Model/FCond.v).

   Conventions:
   - a detection map is the list of (name, id) in dict order; the id names the detection OBJECT
     (so that one can say which object a name is bound to after the filter was applied);
   - random.choices is the explicit parameter `draws` (one string per call, consumed in call order);
     the re-draw loop that never finds a fresh prefix is `None` (the loop would not terminate);
   - UUID(text) is not modelled: a rule reference carries the result of uuid.UUID(text) computed by
     the harness (None = ValueError). *)
From Coq Require Import NArith ZArith List Bool Arith.
From PS Require Import Base.Chars Base.Outcome Model.FCondParse Model.FCond.
Import ListNotations.
Open Scope N_scope.

(* ---------- log sources ---------- *)
Record logsource := { ls_cat : option str; ls_prod : option str; ls_serv : option str; ls_def : option str }.

Definition ostr_eqb := option_eqb str_eqb.
Definition ls_eqb (a b : logsource) : bool :=       (* dataclass __eq__: the four compared fields *)
  ostr_eqb (ls_cat a) (ls_cat b) && ostr_eqb (ls_prod a) (ls_prod b) &&
  ostr_eqb (ls_serv a) (ls_serv b) && ostr_eqb (ls_def a) (ls_def b).

(* self.x is None or self.x == other.x *)
Definition attr_ok (self other : option str) : bool :=
  match self with None => true | Some _ => ostr_eqb self other end.

(* SigmaLogSource.__contains__(self, other):  other in self *)
Definition ls_contains (self other : logsource) : bool :=
  if ls_eqb self other then true
  else attr_ok (ls_cat self) (ls_cat other) && attr_ok (ls_prod self) (ls_prod other)
       && attr_ok (ls_serv self) (ls_serv other).

(* ---------- rules and filters ---------- *)
Inductive rkind := KDetection | KCorrelation.
Definition dets := list (str * N).

Record rule := {
  r_kind : rkind;
  r_id : option N;            (* rule.id as the integer of the UUID *)
  r_name : option str;
  r_ls : logsource;           (* meaningless for correlation rules *)
  r_dets : dets;              (* rule.detection.detections: name -> object id, dict order *)
  r_conds : list str          (* rule.detection.condition *)
}.

(* a reference of filter.rules: the text with UUID(text) if that parses; or an int (YAML number) *)
Inductive ruleref := RText (s : str) (u : option N) | RInt (z : Z).
Inductive frules := FAny | FRefs (l : list ruleref).

Record sfilter := {
  f_ls : logsource;
  f_rules : frules;
  f_dets : dets;              (* filter.filter.detections *)
  f_cond : str                (* filter.filter.condition[0] *)
}.

(* SigmaCollection([rule])[reference] does not raise SigmaRuleNotFoundError:
   int -> position in a one-element list; str -> by UUID when UUID(text) parses (the name is then
   NOT tried), else by name *)
Definition lookup_ref (r : rule) (ref : ruleref) : bool :=
  match ref with
  | RInt z => (z =? 0)%Z || (z =? -1)%Z
  | RText _ (Some u) => match r_id r with Some i => i =? u | None => false end
  | RText s None => match r_name r with Some n => str_eqb n s | None => false end
  end.

Definition should_apply (f : sfilter) (r : rule) : bool :=
  match r_kind r with
  | KCorrelation => false
  | KDetection =>
      if negb (ls_contains (f_ls f) (r_ls r)) then false
      else match f_rules f with
           | FAny => true
           | FRefs l => match filter (lookup_ref r) l with [] => false | _ => true end   (* matches *)
           end
  end.

(* ---------- the prefix ---------- *)
Definition s_filt : str := [95; 102; 105; 108; 116; 95].        (* "_filt_" *)
Definition prefix_of (d : str) : str := s_filt ++ d.

(* not any(name.startswith(prefix) for name in rule.detection.detections) *)
Definition fresh (p : str) (d : dets) : bool := forallb (fun nd => negb (prefixb p (fst nd))) d.

(* while True: draw; if fresh: break *)
Fixpoint pick (draws : list str) (d : dets) : option (str * list str) :=
  match draws with
  | [] => None
  | x :: r => if fresh (prefix_of x) d then Some (prefix_of x, r) else pick r d
  end.

(* ---------- renaming of the filter's detections: d[prefix + "_" + name] = object ---------- *)
Fixpoint dict_set (d : dets) (k : str) (v : N) : dets :=
  match d with
  | [] => [(k, v)]
  | (k', v') :: r => if str_eqb k' k then (k', v) :: r else (k', v') :: dict_set r k v
  end.

Definition pre (p n : str) : str := p ++ c_us :: n.

Definition add_dets (p : str) (fd d : dets) : dets :=
  fold_left (fun acc nd => dict_set acc (pre p (fst nd)) (snd nd)) fd d.

(* ---------- the token rewrite ---------- *)
Definition lower (c : char) : char := if (65 <=? c) && (c <=? 90) then c + 32 else c.   (* str.lower on ASCII *)

(* _CONDITION_KEYWORDS = {"not", "and", "or", "all", "any", "of", "1"} *)
Definition keywords : list str := [w_not; w_and; w_or; w_all; w_any; w_of; w_1].
Definition is_keyword_ci (t : str) : bool := existsb (str_eqb (map lower t)) keywords.

(* _replace_token *)
Definition repl (p t : str) : str :=
  if is_keyword_ci t then t
  else if str_eqb t w_them then p ++ [c_us; c_star]
  else pre p t.

Definition flush_tok (p cur : str) : str := match cur with [] => [] | _ => repl p (rev cur) end.

(* re.sub(r"[a-zA-Z0-9*_-]+", _replace_token, s): leftmost, longest, non-overlapping matches;
   cur = the characters of the match in progress, reversed *)
Fixpoint rw (p : str) (s : str) (cur : str) : str :=
  match s with
  | [] => flush_tok p cur
  | c :: r => if is_wordc c then rw p r (c :: cur) else flush_tok p cur ++ c :: rw p r []
  end.
Definition rewrite (p s : str) : str := rw p s [].

(* f"({condition_str}) and " + f"({filter_condition})" *)
Definition s_mid : str := [41; 32; 97; 110; 100; 32; 40].       (* ") and (" *)
Definition new_cond (c fc : str) : str := c_lpar :: c ++ s_mid ++ fc ++ [c_rpar].

(* ---------- apply_on_rule ---------- *)
Definition with_detection (r : rule) (d : dets) (cs : list str) : rule :=
  {| r_kind := r_kind r; r_id := r_id r; r_name := r_name r; r_ls := r_ls r; r_dets := d; r_conds := cs |}.

Definition apply_with (p : str) (f : sfilter) (r : rule) : rule :=
  let fc := rewrite p (f_cond f) in
  with_detection r (add_dets p (f_dets f) (r_dets r)) (map (fun c => new_cond c fc) (r_conds r)).

Definition apply_on_rule (draws : list str) (f : sfilter) (r : rule) : option (rule * list str) :=
  if should_apply f r then
    match pick draws (r_dets r) with
    | Some (p, rest) => Some (apply_with p f r, rest)
    | None => None
    end
  else Some (r, draws).

(* ---------- SigmaCollection: reduce(lambda r, f: f.apply_on_rule(r), filters, rule) per rule ---------- *)
Fixpoint apply_all (draws : list str) (fs : list sfilter) (r : rule) : option (rule * list str) :=
  match fs with
  | [] => Some (r, draws)
  | f :: fs' => match apply_on_rule draws f r with
                | Some (r', rest) => apply_all rest fs' r'
                | None => None
                end
  end.

Fixpoint apply_filters (draws : list str) (fs : list sfilter) (rs : list rule) : option (list rule * list str) :=
  match rs with
  | [] => Some ([], draws)
  | r :: rs' => match apply_all draws fs r with
                | Some (r', rest) => match apply_filters rest fs rs' with
                                     | Some (out, rest') => Some (r' :: out, rest')
                                     | None => None
                                     end
                | None => None
                end
  end.

(* __post_init__: if self.filters and not collect_filters: self.apply_filters(self.filters) *)
Definition load_collection (collect_filters : bool) (draws : list str) (fs : list sfilter) (rs : list rule)
  : option (list rule * list str) :=
  if collect_filters then Some (rs, draws) else apply_filters draws fs rs.

(* ---------- what a rule's condition evaluates to ---------- *)
Definition names (d : dets) : list str := map fst d.

Fixpoint lookup (d : dets) (n : str) : option N :=
  match d with
  | [] => None
  | (k, v) :: r => if str_eqb k n then Some v else lookup r n
  end.

(* truth value of the detection named n when the OBJECTS have the truth values asgd *)
Definition asg_of (d : dets) (asgd : N -> bool) (n : str) : bool :=
  match lookup d n with Some i => asgd i | None => false end.

(* SigmaCondition(cond, detections).parsed *)
Definition cond_tree (d : dets) (c : str) : outcome (option ctree) := run_post (names d) c.
