(* Model of SigmaString.__getitem__ for slices without step (sigma/types.py l.185-268). *)
From Coq Require Import ZArith NArith List Bool.
From PS Require Import Base.Chars Base.Outcome Model.SString.
Import ListNotations.
Local Open Scope Z_scope.

Definition E_Index : N := 7%N.   (* IndexError (a non-Sigma exception) *)

(* None = infinity *)
Definition oz_lt (a : option Z) (b : Z) : bool := match a with Some x => x <? b | None => false end.
Definition oz_gt0 (a : option Z) : bool := match a with Some x => 0 <? x | None => true end.
Definition oz_sub (a : option Z) (b : Z) : option Z := match a with Some x => Some (x - b) | None => None end.

Definition zlen {A} (l : list A) : Z := Z.of_nat (length l).
Definition zfirstn {A} (n : Z) (l : list A) : list A := firstn (Z.to_nat n) l.
Definition zskipn {A} (n : Z) (l : list A) : list A := skipn (Z.to_nat n) l.
(* Python e[a:b] for 0 <= a, b possibly infinite *)
Definition pyslice (a : Z) (b : option Z) (e : str) : str :=
  match b with Some y => zfirstn (y - a) (zskipn a e) | None => zskipn a e end.

Inductive step1 := Ret (v : sstring) | Cont (result : sstring) (start : Z) (stop : option Z) (rest : sstring).

(* first while loop: find the start *)
Fixpoint find_start (v : sstring) (start : Z) (stop : option Z) (result : sstring) : step1 :=
  match v with
  | [] => Cont result start stop []
  | e :: v' =>
    if 0 <? start then
      match e with
      | PStr s =>
        let el := zlen s in
        if start <? el then
          if oz_lt stop el then Ret (parse true (pyslice start stop s))   (* re-parses the substring *)
          else find_start v' (start - el) (oz_sub stop el) (result ++ [PStr (zskipn start s)])
        else find_start v' (start - el) (oz_sub stop el) result
      | _ => find_start v' (start - 1) (oz_sub stop 1) result
      end
    else Cont result start stop v
  end.

(* second while loop: append until the end is reached *)
Fixpoint take_end (v : sstring) (stop : option Z) (result : sstring) : sstring :=
  match v with
  | [] => result
  | e :: v' =>
    if oz_gt0 stop then
      match e with
      | PStr s =>
        let el := zlen s in
        take_end v' (oz_sub stop el)
                 (result ++ [PStr (if oz_lt stop el then zfirstn (match stop with Some x => x | None => 0 end) s else s)])
      | _ => take_end v' (oz_sub stop 1) (result ++ [e])
      end
    else result
  end.

Definition getitem (v : sstring) (start0 stop0 : option Z) : outcome sstring :=
  let len := Z.of_nat (slen v) in
  let start := match start0 with Some x => x | None => 0 end in
  let start := if start <? 0 then len + start else start in
  let stop := match stop0 with Some x => Some (if x <? 0 then len + x else x) | None => None end in
  if (match stop with Some y => y <? start | None => false end) || (len <=? start) then Ok []
  else if (start <? 0) || (match stop with Some y => (y <? 0) || (len <? y) | None => false end) then Crash E_Index
  else match find_start v start stop [] with
       | Ret r => Ok r
       | Cont result start' stop' rest => Ok (take_end rest stop' result)
       end.
