(* Model of the serialisation of the detection part of a Sigma rule (C06):
   sigma/rule/detection.py SigmaDetectionItem.from_mapping / to_plain, SigmaDetection.from_definition /
   to_plain (filter of None results, single-result shortcut, type cases, the duplicate-key merge into |all),
   SigmaDetections.from_dict / to_dict, sigma/types.py to_plain of the value types,
   sigma/modifiers.py modifier_mapping / reverse_modifier_mapping.
   The model follows the repaired code of branch wC06 (empty value lists, expand works on a copy,
   negated items are not merged).  Definitions only. *)
From Coq Require Import NArith ZArith List Bool.
From PS Require Import Base.Chars Base.Outcome Model.SString.
Import ListNotations.
Open Scope N_scope.

Definition E_Detection : N := 7.   (* SigmaDetectionError *)
Definition C_Type : N := 2.        (* TypeError *)
Definition C_Index : N := 3.       (* IndexError *)

(* ---------- plain (YAML/JSON) data ---------- *)
Inductive pv :=
| PStrV (s : str) | PInt (z : Z)
| PFloatInt (z : Z)          (* a float with integral value, e.g. 1.0 *)
| PFloat (tok : str)         (* any other finite float, as the text Python prints for it *)
| PBool (b : bool) | PNull.
Inductive mval := MOne (v : pv) | MMany (l : list pv).
Inductive ddef := DVal (v : pv) | DList (l : list ddef) | DMap (m : list (str * mval)).

(* ---------- modifiers ---------- *)
Inductive mcls := M_All | M_Negate | M_Base64 | M_Base64Offset | M_CaseSensitive | M_CIDR | M_Contains | M_TimestampDay | M_RegularExpressionDotAllFlag | M_Endswith | M_Exists | M_Expand | M_FieldReference | M_GreaterThan | M_GreaterThanEqual | M_TimestampHour | M_RegularExpressionIgnoreCaseFlag | M_LessThan | M_LessThanEqual | M_RegularExpressionMultilineFlag | M_TimestampMinute | M_TimestampMonth | M_RegularExpression | M_UTF16 | M_UTF16BE | M_Startswith | M_TimestampWeek | M_Wide | M_WindowsDash | M_TimestampYear.
Definition mcls_eqb (a b : mcls) : bool :=
  match a, b with
  | M_All, M_All
  | M_Negate, M_Negate
  | M_Base64, M_Base64
  | M_Base64Offset, M_Base64Offset
  | M_CaseSensitive, M_CaseSensitive
  | M_CIDR, M_CIDR
  | M_Contains, M_Contains
  | M_TimestampDay, M_TimestampDay
  | M_RegularExpressionDotAllFlag, M_RegularExpressionDotAllFlag
  | M_Endswith, M_Endswith
  | M_Exists, M_Exists
  | M_Expand, M_Expand
  | M_FieldReference, M_FieldReference
  | M_GreaterThan, M_GreaterThan
  | M_GreaterThanEqual, M_GreaterThanEqual
  | M_TimestampHour, M_TimestampHour
  | M_RegularExpressionIgnoreCaseFlag, M_RegularExpressionIgnoreCaseFlag
  | M_LessThan, M_LessThan
  | M_LessThanEqual, M_LessThanEqual
  | M_RegularExpressionMultilineFlag, M_RegularExpressionMultilineFlag
  | M_TimestampMinute, M_TimestampMinute
  | M_TimestampMonth, M_TimestampMonth
  | M_RegularExpression, M_RegularExpression
  | M_UTF16, M_UTF16
  | M_UTF16BE, M_UTF16BE
  | M_Startswith, M_Startswith
  | M_TimestampWeek, M_TimestampWeek
  | M_Wide, M_Wide
  | M_WindowsDash, M_WindowsDash
  | M_TimestampYear, M_TimestampYear => true
  | _, _ => false
  end.
(* sigma/modifiers.py modifier_mapping, in source order *)
Definition modifier_mapping : list (str * mcls) := [
  ([97;108;108], M_All)  (* all *);
  ([110;101;113], M_Negate)  (* neq *);
  ([98;97;115;101;54;52], M_Base64)  (* base64 *);
  ([98;97;115;101;54;52;111;102;102;115;101;116], M_Base64Offset)  (* base64offset *);
  ([99;97;115;101;100], M_CaseSensitive)  (* cased *);
  ([99;105;100;114], M_CIDR)  (* cidr *);
  ([99;111;110;116;97;105;110;115], M_Contains)  (* contains *);
  ([100;97;121], M_TimestampDay)  (* day *);
  ([100;111;116;97;108;108], M_RegularExpressionDotAllFlag)  (* dotall *);
  ([101;110;100;115;119;105;116;104], M_Endswith)  (* endswith *);
  ([101;120;105;115;116;115], M_Exists)  (* exists *);
  ([101;120;112;97;110;100], M_Expand)  (* expand *);
  ([102;105;101;108;100;114;101;102], M_FieldReference)  (* fieldref *);
  ([103;116], M_GreaterThan)  (* gt *);
  ([103;116;101], M_GreaterThanEqual)  (* gte *);
  ([104;111;117;114], M_TimestampHour)  (* hour *);
  ([105], M_RegularExpressionIgnoreCaseFlag)  (* i *);
  ([105;103;110;111;114;101;99;97;115;101], M_RegularExpressionIgnoreCaseFlag)  (* ignorecase *);
  ([108;116], M_LessThan)  (* lt *);
  ([108;116;101], M_LessThanEqual)  (* lte *);
  ([109], M_RegularExpressionMultilineFlag)  (* m *);
  ([109;105;110;117;116;101], M_TimestampMinute)  (* minute *);
  ([109;111;110;116;104], M_TimestampMonth)  (* month *);
  ([109;117;108;116;105;108;105;110;101], M_RegularExpressionMultilineFlag)  (* multiline *);
  ([114;101], M_RegularExpression)  (* re *);
  ([117;116;102;49;54], M_UTF16)  (* utf16 *);
  ([117;116;102;49;54;98;101], M_UTF16BE)  (* utf16be *);
  ([115], M_RegularExpressionDotAllFlag)  (* s *);
  ([115;116;97;114;116;115;119;105;116;104], M_Startswith)  (* startswith *);
  ([119;101;101;107], M_TimestampWeek)  (* week *);
  ([119;105;100;101], M_Wide)  (* wide *);
  ([119;105;110;100;97;115;104], M_WindowsDash)  (* windash *);
  ([121;101;97;114], M_TimestampYear)  (* year *)
].
(* reverse_modifier_mapping: the last identifier of each class wins *)
Definition canon_id (m : mcls) : str :=
  match m with
  | M_All => [97;108;108]  (* all *)
  | M_Negate => [110;101;113]  (* neq *)
  | M_Base64 => [98;97;115;101;54;52]  (* base64 *)
  | M_Base64Offset => [98;97;115;101;54;52;111;102;102;115;101;116]  (* base64offset *)
  | M_CaseSensitive => [99;97;115;101;100]  (* cased *)
  | M_CIDR => [99;105;100;114]  (* cidr *)
  | M_Contains => [99;111;110;116;97;105;110;115]  (* contains *)
  | M_TimestampDay => [100;97;121]  (* day *)
  | M_RegularExpressionDotAllFlag => [115]  (* s *)
  | M_Endswith => [101;110;100;115;119;105;116;104]  (* endswith *)
  | M_Exists => [101;120;105;115;116;115]  (* exists *)
  | M_Expand => [101;120;112;97;110;100]  (* expand *)
  | M_FieldReference => [102;105;101;108;100;114;101;102]  (* fieldref *)
  | M_GreaterThan => [103;116]  (* gt *)
  | M_GreaterThanEqual => [103;116;101]  (* gte *)
  | M_TimestampHour => [104;111;117;114]  (* hour *)
  | M_RegularExpressionIgnoreCaseFlag => [105;103;110;111;114;101;99;97;115;101]  (* ignorecase *)
  | M_LessThan => [108;116]  (* lt *)
  | M_LessThanEqual => [108;116;101]  (* lte *)
  | M_RegularExpressionMultilineFlag => [109;117;108;116;105;108;105;110;101]  (* multiline *)
  | M_TimestampMinute => [109;105;110;117;116;101]  (* minute *)
  | M_TimestampMonth => [109;111;110;116;104]  (* month *)
  | M_RegularExpression => [114;101]  (* re *)
  | M_UTF16 => [117;116;102;49;54]  (* utf16 *)
  | M_UTF16BE => [117;116;102;49;54;98;101]  (* utf16be *)
  | M_Startswith => [115;116;97;114;116;115;119;105;116;104]  (* startswith *)
  | M_TimestampWeek => [119;101;101;107]  (* week *)
  | M_Wide => [119;105;100;101]  (* wide *)
  | M_WindowsDash => [119;105;110;100;97;115;104]  (* windash *)
  | M_TimestampYear => [121;101;97;114]  (* year *)
  end.
Definition all_mcls : list mcls := [M_All; M_Negate; M_Base64; M_Base64Offset; M_CaseSensitive; M_CIDR; M_Contains; M_TimestampDay; M_RegularExpressionDotAllFlag; M_Endswith; M_Exists; M_Expand; M_FieldReference; M_GreaterThan; M_GreaterThanEqual; M_TimestampHour; M_RegularExpressionIgnoreCaseFlag; M_LessThan; M_LessThanEqual; M_RegularExpressionMultilineFlag; M_TimestampMinute; M_TimestampMonth; M_RegularExpression; M_UTF16; M_UTF16BE; M_Startswith; M_TimestampWeek; M_Wide; M_WindowsDash; M_TimestampYear].

Fixpoint lookup_mod (tbl : list (str * mcls)) (id : str) : option mcls :=
  match tbl with
  | [] => None
  | (k, c) :: t => if str_eqb k id then Some c else lookup_mod t id
  end.
Definition has_mod (m : mcls) (l : list mcls) : bool := existsb (mcls_eqb m) l.

(* str.split("|") *)
Fixpoint split_pipe (s : str) : list str :=
  match s with
  | [] => [[]]
  | c :: s' =>
    if N.eqb c c_pipe then [] :: split_pipe s'
    else match split_pipe s' with
         | h :: t => (c :: h) :: t
         | [] => [[c]]
         end
  end.

Fixpoint mapM {A B} (f : A -> outcome B) (l : list A) : outcome (list B) :=
  match l with
  | [] => Ok []
  | x :: r => obind (f x) (fun y => obind (mapM f r) (fun ys => Ok (y :: ys)))
  end.

(* from_mapping: field, *modifier_ids = key.split("|"); "" -> None; modifier_mapping[...] *)
Definition parse_key (k : str) : outcome (option str * list mcls) :=
  match split_pipe k with
  | f :: ids =>
    obind (mapM (fun id => match lookup_mod modifier_mapping id with
                           | Some c => Ok c | None => SigmaErr E_Modifier end) ids)
          (fun ms => Ok (match f with [] => None | _ => Some f end, ms))
  | [] => Crash 0
  end.

(* field_name + ("|" if modifiers) + "|".join(ids) *)
Definition key_of (f : option str) (ms : list mcls) : str :=
  match f with Some x => x | None => [] end ++ flat_map (fun m => c_pipe :: canon_id m) ms.

(* ---------- Sigma values kept in original_value ---------- *)
Inductive sval :=
| SStr (v : sstring) | SNum (z : Z) | SFlt (tok : str) | SBool (b : bool) | SNull
| SRe (v : sstring)    (* SigmaRegularExpression (reachable by value transformations only) *)
| SNoPlain.            (* NoPlainConversionMixin types (reachable by value transformations only) *)

(* sigma_type(v), or SigmaString.from_str(v) when the re modifier is in the chain *)
Definition sigma_of (re : bool) (v : pv) : sval :=
  if re then match v with PStrV s => SStr [PStr s] | _ => SNull (* such a load fails: SigmaTypeError *) end
  else match v with
       | PStrV s => SStr (parse true s)
       | PInt z | PFloatInt z => SNum z
       | PFloat t => SFlt t
       | PBool b => SBool b
       | PNull => SNull
       end.

Definition value_plain (re : bool) (v : sval) : outcome pv :=
  match v with
  | SStr s => Ok (PStrV (to_plain re s))
  | SNum z => Ok (PInt z)
  | SFlt t => Ok (PFloat t)
  | SBool b => Ok (PBool b)
  | SNull => Ok PNull
  | SRe s => Ok (PStrV (to_plain false s))
  | SNoPlain => SigmaErr E_Value
  end.

Section Detect.
(* what the modifier chain makes of the values (value list, linking, negation): any function *)
Context {T : Type}.
Variable apply_mods : option str -> list mcls -> list sval -> outcome T.

Record item := mkItem {
  i_field : option str;
  i_mods : list mcls;
  i_orig : option (list sval);     (* None: disable_conversion_to_plain() *)
  i_val : T }.

(* DMixed: a programmatically changed detection that has no plain form: both items and nested
   detections, or several AND-linked nested detections *)
(* DItemsOr: items with item_linking = OR (result of a 1:n field mapping; never produced by loading) *)
Inductive det := DItems (l : list item) | DSubs (l : list det) | DMixed | DItemsOr (l : list item).

Definition is_str (v : pv) : bool := match v with PStrV _ => true | _ => false end.
Definition vals_of (v : mval) : list pv := match v with MOne x => [x] | MMany l => l end.

Definition load_item (key : option str) (v : mval) : outcome item :=
  obind (match key with None => Ok (None, []) | Some k => parse_key k end) (fun fm =>
  let '(f, ms) := fm in
  let re := has_mod M_RegularExpression ms in
  (* non-string values under re: typed normally, then refused by the type check of the re modifier *)
  if re && negb (forallb is_str (vals_of v)) then SigmaErr E_Type else
  let orig := map (sigma_of re) (vals_of v) in
  obind (apply_mods f ms orig) (fun t => Ok (mkItem f ms (Some orig) t))).

Definition is_plain (d : ddef) : bool := match d with DVal _ => true | _ => false end.
Definition plains (l : list ddef) : list pv :=
  flat_map (fun d => match d with DVal v => [v] | _ => [] end) l.

Definition mk_items (l : list item) : outcome det :=
  match l with [] => SigmaErr E_Detection | _ => Ok (DItems l) end.
Definition mk_subs (l : list det) : outcome det :=
  match l with [] => SigmaErr E_Detection | _ => Ok (DSubs l) end.

(* SigmaDetection.from_definition *)
Fixpoint load_def (d : ddef) : outcome det :=
  match d with
  | DVal v => obind (load_item None (MOne v)) (fun i => mk_items [i])
  | DMap m => obind (mapM (fun kv => load_item (Some (fst kv)) (snd kv)) m) mk_items
  | DList l =>
    if forallb is_plain l then obind (load_item None (MMany (plains l))) (fun i => mk_items [i])
    else obind ((fix go (l : list ddef) : outcome (list det) :=
                   match l with
                   | [] => Ok []
                   | x :: r => obind (load_def x) (fun y => obind (go r) (fun ys => Ok (y :: ys)))
                   end) l) mk_subs
  end.

(* ---------- to_plain ---------- *)
Inductive pres := PRv (v : mval) | PRd (k : str) (v : mval).

(* SigmaDetectionItem.to_plain *)
Definition item_plain (i : item) : outcome pres :=
  match i_orig i with
  | None => SigmaErr E_Value
  | Some orig =>
    obind (mapM (value_plain (has_mod M_RegularExpression (i_mods i))) orig) (fun vs =>
    let value := match vs with [x] => MOne x | _ => MMany vs end in
    match i_field i, i_mods i with
    | None, [] => Ok (PRv value)
    | f, ms => Ok (PRd (key_of f ms) value)
    end)
  end.

Fixpoint infixb (p s : str) : bool :=
  prefixb p s || match s with [] => false | _ :: s' => infixb p s' end.
Definition s_all : str := [124; 97; 108; 108].   (* |all *)
Definition s_neq : str := [124; 110; 101; 113].  (* |neq *)

Definition aslist (v : mval) : list pv := vals_of v.
Definition unwrap1 (v : mval) : mval := match v with MMany [x] => MOne x | _ => v end.
Definition is_empty_list (v : mval) : bool := match v with MMany [] => true | _ => false end.
Definition is_many (v : mval) : bool := match v with MMany _ => true | _ => false end.

Fixpoint md_get (k : str) (md : list (str * mval)) : option mval :=
  match md with
  | [] => None
  | (k', v) :: t => if str_eqb k' k then Some v else md_get k t
  end.
Fixpoint md_set (k : str) (v : mval) (md : list (str * mval)) : list (str * mval) :=
  match md with
  | [] => [(k, v)]
  | (k', v') :: t => if str_eqb k' k then (k', v) :: t else (k', v') :: md_set k v t
  end.
Fixpoint md_del (k : str) (md : list (str * mval)) : list (str * mval) :=
  match md with
  | [] => []
  | (k', v') :: t => if str_eqb k' k then t else (k', v') :: md_del k t
  end.

(* one round of the double loop in SigmaDetection.to_plain *)
Definition merge_step (md : list (str * mval)) (kv : str * mval) : outcome (list (str * mval)) :=
  let '(k, v) := kv in
  match md_get k md with
  | None => Ok (md_set k v md)
  | Some ev =>
    if infixb s_neq k then SigmaErr E_Value
    else if is_empty_list v || is_empty_list ev then SigmaErr E_Value
    else if infixb s_all k then Ok (md_set k (MMany (aslist ev ++ aslist v)) md)
    else
      let ev' := unwrap1 ev in
      let v' := unwrap1 v in
      if is_many ev' || is_many v' then SigmaErr E_Value
      else
        let vs := aslist ev' ++ aslist v' in
        let ak := k ++ s_all in
        let md1 := match md_get ak md with
                   | Some mak => md_set ak (MMany (aslist mak ++ vs)) md
                   | None => md_set ak (MMany vs) md
                   end in
        Ok (md_del k md1)
  end.
Fixpoint merge_all (md : list (str * mval)) (l : list (str * mval)) : outcome (list (str * mval)) :=
  match l with
  | [] => Ok md
  | kv :: r => obind (merge_step md kv) (fun md' => merge_all md' r)
  end.

Definition is_dict (p : pres) : bool := match p with PRd _ _ => true | _ => false end.
Definition is_none (p : pres) : bool := match p with PRv (MOne PNull) => true | _ => false end.
Definition pres_ddef (p : pres) : ddef :=
  match p with
  | PRv (MOne v) => DVal v
  | PRv (MMany l) => DList (map DVal l)
  | PRd k v => DMap [(k, v)]
  end.
Definition dict_entries (l : list pres) : list (str * mval) :=
  flat_map (fun p => match p with PRd k v => [(k, v)] | _ => [] end) l.
Definition is_null_def (d : ddef) : bool := match d with DVal PNull => true | _ => false end.

(* SigmaDetection.to_plain *)
Fixpoint det_plain (d : det) : outcome ddef :=
  match d with
  | DMixed => SigmaErr E_Value
  | DItemsOr l =>
    obind (mapM item_plain l) (fun rs0 =>
    let rs := filter (fun p => negb (is_none p)) rs0 in
    match rs with
    | [] => SigmaErr E_Detection
    | [x] => Ok (pres_ddef x)
    | _ => Ok (DList (map pres_ddef rs))
    end)
  | DSubs l =>
    obind ((fix go (l : list det) : outcome (list ddef) :=
              match l with
              | [] => Ok []
              | x :: r => obind (det_plain x) (fun y => obind (go r) (fun ys => Ok (y :: ys)))
              end) l)
          (fun rs => Ok (DList (filter (fun x => negb (is_null_def x)) rs)))
  | DItems l =>
    obind (mapM item_plain l) (fun rs0 =>
    let rs := filter (fun p => negb (is_none p)) rs0 in
    match rs with
    | [] => SigmaErr E_Detection
    | [x] => Ok (pres_ddef x)
    | _ =>
      if existsb is_dict rs && existsb (fun p => negb (is_dict p)) rs then SigmaErr E_Value
      else if forallb is_dict rs then
        obind (merge_all [] (dict_entries rs)) (fun md =>
          Ok (DMap (map (fun kv => (fst kv, unwrap1 (snd kv))) md)))
      else Ok (DList (map DVal (flat_map (fun p => match p with PRv v => aslist v | _ => [] end) rs)))
    end)
  end.

(* ---------- SigmaDetections ---------- *)
Inductive cval := CNone | COne (c : str) | CMany (l : list str).
Record dets := mkDets { ds_dets : list (str * det); ds_cond : list str }.

Definition load_dets (defs : list (str * ddef)) (c : cval) : outcome dets :=
  match c with
  | CNone => SigmaErr E_Condition
  | _ =>
    let cl := match c with COne x => [x] | CMany l => l | CNone => [] end in
    obind (mapM (fun nd => obind (load_def (snd nd)) (fun d => Ok (fst nd, d))) defs) (fun ds =>
    match ds with
    | [] => SigmaErr E_Detection
    | _ => match cl with [] => SigmaErr E_Condition | _ => Ok (mkDets ds cl) end
    end)
  end.

(* from_dict as the PROCEDURE Python runs: the document is passed by reference, the callee returns the
   object and leaves behind whatever it did to the caller's dict.  The model: the dict is left as it was.
   The correspondence observes the argument after the call as part of the implementation's output. *)
Definition from_dict_proc (arg : list (str * ddef) * cval) : outcome dets * (list (str * ddef) * cval) :=
  (load_dets (fst arg) (snd arg), arg).

Definition dets_plain (r : dets) : outcome (list (str * ddef) * cval) :=
  obind (mapM (fun nd => obind (det_plain (snd nd)) (fun d => Ok (fst nd, d))) (ds_dets r)) (fun ds =>
  Ok (ds, match ds_cond r with [c] => COne c | l => CMany l end)).

End Detect.
Arguments item : clear implicits.
Arguments det : clear implicits.
Arguments dets : clear implicits.
