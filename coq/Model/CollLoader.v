(* Model of sigma/collection.py SigmaCollection.from_dicts and __post_init__ (property C07):
   per-document dispatch on action / kind, merging with the global and the previous rule
   (deep_dict_update, including the aliasing of prev_rule with global_rule), propagation of the
   members' errors, application of filters (log source containment check on placeholders) and
   resolution of correlation rule references.  Definitions only. *)
From Coq Require Import NArith ZArith List Bool.
From PS Require Import Base.Chars Base.Outcome Model.Yaml Model.LoaderStrings Model.Loader.
Import ListNotations.
Open Scope N_scope.

Definition ENotFound : N := 38.     (* SigmaRuleNotFoundError *)

(* ---- Python dict operations with arbitrary (hashable) keys ---- *)
Definition num (v : yv) : Z := match v with YBool true => 1 | YInt z => z | _ => 0 end.
(* k1 == k2 and hash(k1) == hash(k2): True == 1, False == 0; a float key only equals a float of the
   same class here (the model does not carry float values), all dates are one key *)
Definition key_eqb (a b : yv) : bool :=
  match a, b with
  | YNull, YNull => true
  | YStr s, YStr t => str_eqb s t
  | YDate, YDate => true
  | YFloat x, YFloat y => N.eqb x y
  | (YBool _ | YInt _), (YBool _ | YInt _) => Z.eqb (num a) (num b)
  | _, _ => false
  end.
Fixpoint dlookup (m : list (yv * yv)) (k : yv) : option yv :=
  match m with [] => None | (k', v) :: r => if key_eqb k' k then Some v else dlookup r k end.
(* m[k] = v: an existing key keeps its place (and its spelling), a new key goes to the end *)
Fixpoint dset (m : list (yv * yv)) (k v : yv) : list (yv * yv) :=
  match m with
  | [] => [(k, v)]
  | (k', v') :: r => if key_eqb k' k then (k', v) :: r else (k', v') :: dset r k v
  end.
Fixpoint ddel (m : list (yv * yv)) (s : str) : list (yv * yv) :=
  match m with [] => [] | (k, v) :: r => if key_is k s then r else (k, v) :: ddel r s end.

(* deep_dict_update(dest, src) (repaired: a non-map destination value is replaced by the merged map) *)
Fixpoint deep_update (src : yv) (dest : list (yv * yv)) : list (yv * yv) :=
  match src with
  | YMap m =>
    (fix go (m : list (yv * yv)) (dest : list (yv * yv)) : list (yv * yv) :=
       match m with
       | [] => dest
       | (k, v) :: r =>
         go r match v with
              | YMap _ => dset dest k (YMap (deep_update v match dlookup dest k with Some (YMap d) => d | _ => [] end))
              | _ => dset dest k v
              end
       end) m dest
  | _ => dest
  end.

(* ---- what the loop hands to the single-document loaders: independent of the mode ---- *)
Inductive item :=
| IBad                      (* (repaired) a document that is not a map *)
| IUnknownAction
| IDoc (k : kind) (d : yv).

Record lstate := { st_global : list (yv * yv); st_prev : list (yv * yv); st_prev_is_global : bool }.

Definition action_is (a : yv) (s : str) : bool := match a with YStr t => str_eqb t s | _ => false end.
Definition has_key (m : list (yv * yv)) (s : str) : bool := match assoc m s with Some _ => true | None => false end.

Definition plan_step (st : lstate) (d : yv) : lstate * list item :=
  match d with
  | YMap m =>
    match assoc m s_action with
    | None | Some YNull =>
      if has_key m s_correlation then (st, [IDoc KCorr d])
      else if has_key m s_filter then (st, [IDoc KFilter d])
      else let merged := deep_update (YMap (st_global st)) m in
           ({| st_global := st_global st; st_prev := merged; st_prev_is_global := false |}, [IDoc KRule (YMap merged)])
    | Some a =>
      if action_is a s_global then
        let g := ddel m s_action in
        ({| st_global := g; st_prev := g; st_prev_is_global := true |}, [])
      else if action_is a s_reset then
        (* global_rule = dict(): prev_rule keeps pointing to the old object *)
        ({| st_global := []; st_prev := st_prev st; st_prev_is_global := false |}, [])
      else if action_is a s_repeat then
        (* deep_dict_update(prev_rule, rule) works in place: it also changes global_rule while both names
           denote one object *)
        let p := deep_update d (st_prev st) in
        ({| st_global := if st_prev_is_global st then p else st_global st; st_prev := p;
            st_prev_is_global := st_prev_is_global st |}, [IDoc KRule (YMap p)])
      else (st, [IUnknownAction])
    end
  | _ => (st, [IBad])
  end.
Fixpoint plan_go (st : lstate) (ds : list yv) : list item :=
  match ds with
  | [] => []
  | d :: r => let '(st', its) := plan_step st d in its ++ plan_go st' r
  end.
Definition plan (ds : list yv) : list item :=
  plan_go {| st_global := []; st_prev := []; st_prev_is_global := false |} ds.

(* ---- what __post_init__ needs to know about a parsed member ---- *)
Inductive idkey := IdU (n : N) | IdS (s : str).
Definition idkey_eqb (a b : idkey) : bool :=
  match a, b with IdU x, IdU y => N.eqb x y | IdS s, IdS t => str_eqb s t | _, _ => false end.
Record obj := {
  o_kind : kind;
  o_id : option idkey;        (* rule.id when it is a UUID or a str *)
  o_name : option str;        (* rule.name when it is a str *)
  o_ls_empty : bool;          (* log source is the EmptyLogSource placeholder *)
  o_placeholder : bool;       (* filter: EmptySigmaGlobalFilter placeholder (rules = [], condition = []) *)
  o_rules_given : bool;       (* filter: rules is "any" or a non-empty list - never for the placeholder *)
  o_refs : list yv            (* correlation rule: the references to resolve *)
}.

Section Coll.
Variable L : lib.

Definition has_errors (o : outcome (list N)) : bool := match o with Ok [] => false | _ => true end.
Definition get_or_null (d : yv) (k : str) : yv := match dget d k with Ok v => v | _ => YNull end.

Definition summary (k : kind) (d : yv) : obj :=
  let idv := match get_or_null d s_id with
             | YStr s => Some (if uuid_ok L s then IdU (uuid_key L s) else IdS s)
             | _ => None end in
  let name := match get_or_null d s_name with YStr s => Some s | _ => None end in
  let ls_empty := match k with KCorr => false | _ => has_errors (st_logsource d) end in
  let placeholder := match k with KFilter => has_errors (st_filter L d) | _ => false end in
  let rules_given :=
    match k with
    | KFilter => if placeholder then false
                 else match get_or_null (get_or_null d s_filter) s_rules with
                      | YList [] => true          (* treated as "any" *)
                      | YList _ | YStr _ => true
                      | _ => false
                      end
    | _ => false
    end in
  let refs := match k with
              | KCorr => match corr_parse L d with
                         | Ok (st, _) => match cs_rules st, cs_cond st with
                                         | [], CExt refs => map YStr refs    (* rules = None: taken from the condition *)
                                         | rs, _ => rs
                                         end
                         | _ => []
                         end
              | _ => []
              end in
  {| o_kind := k; o_id := idv; o_name := name; o_ls_empty := ls_empty; o_placeholder := placeholder;
     o_rules_given := rules_given; o_refs := refs |}.

(* ---- the loop over the documents ---- *)
Fixpoint run_items (collect : bool) (its : list item) (errs : list N) (objs : list obj)
  : outcome (list N * list obj) :=
  match its with
  | [] => Ok (errs, objs)
  | (IBad | IUnknownAction) :: r =>
    if collect then run_items collect r (errs ++ [ECollection]) objs else SigmaErr ECollection
  | IDoc k d :: r =>
    e <- load L k collect d ;;
    run_items collect r (errs ++ e) (objs ++ [summary k d])
  end.

(* ---- SigmaCollection.__post_init__ ---- *)
Definition is_filter (o : obj) : bool := match o_kind o with KFilter => true | _ => false end.
Definition is_rule (o : obj) : bool := match o_kind o with KRule => true | _ => false end.
Definition is_corr (o : obj) : bool := match o_kind o with KCorr => true | _ => false end.

(* f.apply_on_rule(rule) for a SigmaRule: `rule.logsource not in self.logsource` raises SigmaTypeError when the
   filter's log source is the placeholder and the rule's is not; a filter that applies reads
   self.filter.condition[0] (IndexError on the placeholder, whose rules list is empty: it never applies) *)
Definition apply_one (r f : obj) : outcome unit :=
  if o_ls_empty f && negb (o_ls_empty r) then SigmaErr EType
  else if o_placeholder f && o_rules_given f then Crash X_Index
  else Ok tt.
Definition apply_filters (rules filters : list obj) : outcome unit :=
  iter_out (fun r => if is_rule r then iter_out (apply_one r) filters else Ok tt) rules.

(* rule_collection[reference] *)
Definition found (rules : list obj) (ref : yv) : bool :=
  let n := Z.of_nat (length rules) in
  match ref with
  | YBool b => Z.ltb (if b then 1 else 0) n
  | YInt z => Z.leb (- n) z && Z.ltb z n
  | YStr s =>
    if uuid_ok L s
    then existsb (fun o => match o_id o with Some i => idkey_eqb i (IdU (uuid_key L s)) | None => false end) rules
    else existsb (fun o => match o_name o with Some nm => str_eqb nm s | None => false end) rules
  | _ => false                  (* (repaired) any other type: SigmaRuleNotFoundError *)
  end.
Definition resolve (rules : list obj) : outcome unit :=
  iter_out (fun c => if is_corr c
                     then iter_out (fun ref => if found rules ref then Ok tt else SigmaErr ENotFound) (o_refs c)
                     else Ok tt) rules.

Definition post_init (collect_filters resolve_refs : bool) (objs : list obj) : outcome unit :=
  let rules := filter (fun o => negb (is_filter o)) objs in
  let filters := filter is_filter objs in
  _ <- (if collect_filters then Ok tt else apply_filters rules filters) ;;
  if resolve_refs then resolve rules else Ok tt.

(* SigmaCollection.from_dicts(docs, collect_errors, None, collect_filters, resolve_references) *)
Definition load_coll (collect collect_filters resolve_refs : bool) (ds : list yv) : outcome (list N) :=
  r <- run_items collect (plan ds) [] [] ;;
  _ <- post_init collect_filters resolve_refs (snd r) ;;
  Ok (fst r).
End Coll.
