(* Model of the gating logic of processing pipelines:
     sigma/processing/conditions/*.py      every built-in condition class
     sigma/processing/pipeline.py          _check_conditions, _resolve_condition_expression,
                                           match_rule_conditions, match_detection_item,
                                           match_field_name, match_field_in_value, ProcessingPipeline.apply,
                                           track_field_processing_items, field_was_processed_by
     sigma/processing/tracking.py          applied_processing_items
     sigma/processing/transformations/base.py  the loops that call the gates
   for detection rules (SigmaRule) and the transformations set_state, change_logsource,
   set_custom_attribute, set_value, field_name_suffix, field_name_prefix, field_name_mapping.
   Definitions only; the code as it is today (branch wC13 merged with main). *)
From Coq Require Import NArith ZArith List Bool.
From PS Require Import Base.Chars Base.Outcome Model.PipeExpr.
Import ListNotations.
Open Scope N_scope.

(* error tags (harness table in props/c13.py) *)
Definition E_Config : N := 11.     (* SigmaConfigurationError incl. SigmaPipelineConditionError *)
Definition E_Logsource : N := 13.  (* SigmaLogsourceError *)
Definition E_RegexErr : N := 5.    (* SigmaRegularExpressionError *)
Definition C_TypeError : N := 2.
Definition C_KeyError : N := 4.

(* ------------------------------------------------------------------------------------- *)
(* values *)
Inductive sval := VStr (s : str) | VNum (z : Z) | VBool (b : bool) | VNull | VRef (f : str) | VRe (s : str).
Inductive pval := PStr (s : str) | PNum (z : Z) | PBool (b : bool) | PNull.
(* Python numbers as they occur in pipeline state, custom attributes and condition parameters:
   int, bool (a subclass of int: True == 1) and the floats k/2; all compare by numeric value *)
Inductive num := NInt (z : Z) | NBool (b : bool) | NHalf (h : Z).
Definition nval (n : num) : Z :=          (* twice the numeric value *)
  match n with NInt z => (2 * z)%Z | NBool b => if b then 2%Z else 0%Z | NHalf h => h end.
Inductive stval := SStr (s : str) | SNum (n : num) | SNone.
Inductive cmpop := OEq | ONe | OGte | OGt | OLte | OLt.
Inductive aop := AEq | ANe | AGte | AGt | ALte | ALt | AIn | ANotIn.
Inductive aval := AStr (s : str) | ANum (n : num) | ADate (n : N) | ALevel (n : N) | AStatus (n : N)
                | AList (l : list str) | AUnsup.
Inductive apar := QStr (s : str) | QNum (n : num).

(* the regular-expression fragment the generator draws from; re.match = anchored at the start only *)
Inductive ratom := RLit (c : char) | RAny | RDigit | RStar | REnd | RBad.   (* RBad: a pattern re.compile rejects *)
Definition rx := list ratom.

Fixpoint rmatch (p : rx) (s : str) {struct p} : bool :=
  match p with
  | [] => true
  | RLit c :: p' => match s with x :: s' => (x =? c) && rmatch p' s' | [] => false end
  | RAny :: p' => match s with x :: s' => negb (x =? 10) && rmatch p' s' | [] => false end
  | RDigit :: p' => match s with x :: s' => (48 <=? x) && (x <=? 57) && rmatch p' s' | [] => false end
  | RStar :: p' => (fix try (s : str) : bool :=
                      rmatch p' s || match s with [] => false | x :: s' => negb (x =? 10) && try s' end) s
  | REnd :: p' => match s with [] => rmatch p' [] | _ => false end
  | RBad :: _ => false
  end.

Fixpoint str_ltb (a b : str) : bool :=
  match a, b with
  | _, [] => false
  | [], _ :: _ => true
  | x :: a', y :: b' => (x <? y) || ((x =? y) && str_ltb a' b')
  end.

Definition sset := list str.                       (* a Python set of identifiers *)
Definition smem (x : str) (l : sset) : bool := existsb (str_eqb x) l.
Definition sadd (x : str) (l : sset) : sset := if smem x l then l else l ++ [x].

Fixpoint assoc {A} (k : str) (m : list (str * A)) : option A :=
  match m with [] => None | (k', v) :: m' => if str_eqb k k' then Some v else assoc k m' end.
Fixpoint aset {A} (k : str) (v : A) (m : list (str * A)) : list (str * A) :=   (* dict[k] = v *)
  match m with [] => [(k, v)] | (k', v') :: m' => if str_eqb k k' then (k, v) :: m' else (k', v') :: aset k v m' end.
Fixpoint adel {A} (k : str) (m : list (str * A)) : list (str * A) :=
  match m with [] => [] | (k', v') :: m' => if str_eqb k k' then m' else (k', v') :: adel k m' end.

(* ------------------------------------------------------------------------------------- *)
(* rule, detection items, pipeline bookkeeping *)
Record ditem := { d_field : option str; d_vals : list sval; d_applied : sset }.
Inductive dtree := DLeaf (it : ditem) | DNode (l : list dtree).

Record rule := {
  r_ls : option str * option str * option str;
  r_tags : list str;
  r_static : list (str * aval);       (* attributes of the SigmaRule object found by getattr *)
  r_custom : list (str * aval);       (* custom_attributes *)
  r_fields : list str;
  r_applied : sset;
  r_dets : list (str * dtree) }.

Record pstate := {
  p_state : list (str * stval);       (* pipeline.state *)
  p_ftrack : list (str * sset) }.     (* pipeline.field_name_applied_ids *)

Record world := { w_rule : rule; w_ps : pstate }.

Fixpoint leaves (t : dtree) : list ditem :=
  match t with
  | DLeaf it => [it]
  | DNode l => (fix go (l : list dtree) := match l with [] => [] | x :: r => leaves x ++ go r end) l
  end.
Definition rule_leaves (r : rule) : list ditem := flat_map (fun d => leaves (snd d)) (r_dets r).

(* ------------------------------------------------------------------------------------- *)
(* the condition classes *)
Inductive rcond :=
| RLogsource (c p s : option str)
| RContainsItem (f : option str) (v : pval)
| RContainsField (f : option str)
| RApplied (id : str)
| RState (k : str) (v : stval) (op : cmpop)
| RIsRule
| RIsCorr
| RAttr (a : str) (v : apar) (op : aop)
| RTag (t : str).

Inductive dcond :=
| DMatchString (all : bool) (p : rx) (neg : bool)
| DMatchValue (all : bool) (v : pval)
| DWildcard (all : bool)
| DIsNull (all : bool)
| DApplied (id : str)
| DState (k : str) (v : stval) (op : cmpop).

Inductive fcond :=
| FInclude (fs : list str)
| FIncludeRe (ps : list rx)
| FExclude (fs : list str)
| FExcludeRe (ps : list rx)
| FApplied (id : str)
| FState (k : str) (v : stval) (op : cmpop).

(* ProcessingStateConditionBase.match_state *)
Definition cmp_ord (op : cmpop) (lt eq : bool) : bool :=
  match op with
  | OEq => eq | ONe => negb eq
  | OGte => negb lt | OGt => negb lt && negb eq
  | OLte => lt || eq | OLt => lt
  end.
Definition match_state (st : list (str * stval)) (k : str) (v : stval) (op : cmpop) : outcome bool :=
  match assoc k st with
  | None => Ok false
  | Some sv =>
    match sv, v with
    | SStr a, SStr b => Ok (cmp_ord op (str_ltb a b) (str_eqb a b))
    | SNum a, SNum b => Ok (cmp_ord op (Z.ltb (nval a) (nval b)) (Z.eqb (nval a) (nval b)))
    | _, _ =>
      let eq := match sv, v with SNone, SNone => true | _, _ => false end in
      match op with
      | OEq => Ok eq | ONe => Ok (negb eq)
      | _ => Crash C_TypeError      (* '>=' not supported between instances of 'str' and 'int' / 'NoneType' *)
      end
    end
  end.

(* --- rule conditions --- *)
Definition opt_str_eqb (a b : option str) : bool := option_eqb str_eqb a b.
Definition ls_field_ok (c r : option str) : bool :=
  match c with None => true | Some _ => opt_str_eqb c r end.
(* SigmaLogSource.__contains__: "self == other or (...)" (the dataclass equality also compares the
   definition, which the condition's log source never has; it can only make the first disjunct false) *)
Definition logsource_match (c p s : option str) (r : option str * option str * option str) : bool :=
  let '(rc, rp, rs) := r in
  (opt_str_eqb c rc && opt_str_eqb p rp && opt_str_eqb s rs)
  || (ls_field_ok c rc && ls_field_ok p rp && ls_field_ok s rs).

(* value == parameter, for SigmaType.__eq__ against a plain Python value (NotImplementedError -> False) *)
Definition value_eq_plain (v : sval) (p : pval) : bool :=
  match v, p with
  | VStr s, PStr t => str_eqb s t
  | VNum z, PNum n => Z.eqb z n
  | VNum z, PBool b => Z.eqb z (if b then 1 else 0)%Z
  | VBool b, PBool c => Bool.eqb b c
  | _, _ => false
  end.
(* sigma_type(parameter) in [values of the same class] *)
Definition value_eq_typed (v : sval) (p : pval) : bool :=
  match v, p with
  | VStr s, PStr t => str_eqb s t
  | VNum z, PNum n => Z.eqb z n
  | VBool b, PBool c => Bool.eqb b c
  | VNull, PNull => true
  | _, _ => false
  end.

Definition field_is (f : option str) (it : ditem) : bool :=
  match d_field it, f with Some a, Some b => str_eqb a b | _, _ => false end.

(* RuleDetectionItemCondition.match / find_detection_item: recursive search, modelled as written *)
Fixpoint find_item (P : ditem -> bool) (t : dtree) : bool :=
  match t with
  | DLeaf it => P it
  | DNode l => (fix go (l : list dtree) := match l with [] => false | x :: r => find_item P x || go r end) l
  end.
Definition rule_find (P : ditem -> bool) (r : rule) : bool := existsb (fun d => find_item P (snd d)) (r_dets r).

(* float(self.value) for the strings the generator draws: optional sign, then digits *)
Fixpoint digits_val (acc : Z) (s : str) : option Z :=
  match s with
  | [] => Some acc
  | c :: s' => if (48 <=? c) && (c <=? 57) then digits_val (acc * 10 + Z.of_N (c - 48))%Z s' else None
  end.
(* digits, optionally followed by ".0" or ".5": twice the value *)
Fixpoint dec_val (acc : Z) (s : str) : option Z :=
  match s with
  | [] => Some (2 * acc)%Z
  | c :: s' =>
    if (48 <=? c) && (c <=? 57) then dec_val (acc * 10 + Z.of_N (c - 48))%Z s'
    else if c =? 46 then match s' with
                         | [d] => if d =? 48 then Some (2 * acc)%Z else if d =? 53 then Some (2 * acc + 1)%Z else None
                         | _ => None end
    else None
  end.
Definition starts_digit (s : str) : bool := match s with c :: _ => (48 <=? c) && (c <=? 57) | [] => false end.
(* twice float(s) *)
Definition parse_num (s : str) : option Z :=
  match s with
  | [] => None
  | c :: s' => if c =? 45 then (if starts_digit s' then option_map Z.opp (dec_val 0%Z s') else None)
               else if c =? 43 then (if starts_digit s' then dec_val 0%Z s' else None)
               else if starts_digit s then dec_val 0%Z s else None
  end.

(* date.fromisoformat for YYYY-MM-DD *)
Definition dig (c : char) : option N := if (48 <=? c) && (c <=? 57) then Some (c - 48) else None.
Definition leap (y : N) : bool := ((y mod 4 =? 0) && negb (y mod 100 =? 0)) || (y mod 400 =? 0).
Definition mdays (y m : N) : N :=
  if (m =? 2) then (if leap y then 29 else 28)
  else if (m =? 4) || (m =? 6) || (m =? 9) || (m =? 11) then 30 else 31.
Definition parse_date (s : str) : option N :=
  match s with
  | [a; b; c; d; h1; e; f; h2; g; h] =>
    match dig a, dig b, dig c, dig d, dig e, dig f, dig g, dig h with
    | Some a, Some b, Some c, Some d, Some e, Some f, Some g, Some h =>
      let y := a * 1000 + b * 100 + c * 10 + d in
      let m := e * 10 + f in
      let dd := g * 10 + h in
      if (h1 =? 45) && (h2 =? 45) && (1 <=? y) && (1 <=? m) && (m <=? 12) && (1 <=? dd) && (dd <=? mdays y m)
      then Some (y * 10000 + m * 100 + dd) else None
    | _, _, _, _, _, _, _, _ => None
    end
  | _ => None
  end.

Definition upper (s : str) : str := map (fun c => if (97 <=? c) && (c <=? 122) then c - 32 else c) s.
Definition asc (s : list nat) : str := map N.of_nat s.
Definition level_names : list str :=
  [ [73;78;70;79;82;77;65;84;73;79;78;65;76]; [76;79;87]; [77;69;68;73;85;77]; [72;73;71;72]; [67;82;73;84;73;67;65;76] ].
Definition status_names : list str :=
  [ [85;78;83;85;80;80;79;82;84;69;68]; [68;69;80;82;69;67;65;84;69;68]; [69;88;80;69;82;73;77;69;78;84;65;76];
    [84;69;83;84]; [83;84;65;66;76;69] ].
Fixpoint index_of (s : str) (l : list str) (i : N) : option N :=
  match l with [] => None | x :: r => if str_eqb s x then Some i else index_of s r (i + 1) end.

Definition aop_ord (op : aop) (lt eq : bool) : outcome bool :=
  match op with
  | AEq => Ok eq | ANe => Ok (negb eq)
  | AGte => Ok (negb lt) | AGt => Ok (negb lt && negb eq)
  | ALte => Ok (lt || eq) | ALt => Ok lt
  | AIn | ANotIn => Crash C_KeyError          (* self.op_methods[self.op] *)
  end.

Definition s_fields : str := [102;105;101;108;100;115].
Definition s_tags : str := [116;97;103;115].

Definition rule_getattr (r : rule) (a : str) : option aval :=
  if str_eqb a s_fields then Some (AList (r_fields r))
  else if str_eqb a s_tags then Some (AList (r_tags r))
  else match assoc a (r_static r) with
       | Some v => Some v
       | None => assoc a (r_custom r)
       end.

(* RuleAttributeCondition.match *)
Definition attr_match (r : rule) (a : str) (pv : apar) (op : aop) : outcome bool :=
  match rule_getattr r a with
  | None => Ok false
  | Some (AList l) =>
    let isin := match pv with QStr s => smem s l | QNum _ => false end in
    match op with
    | AIn => Ok isin | ANotIn => Ok (negb isin)
    | AEq => Ok false | ANe => Ok true
    | _ => Ok false
    end
  | Some (AStr s) =>
    let eq := match pv with QStr t => str_eqb s t | QNum _ => false end in
    match op with
    | AEq => Ok eq | ANe => Ok (negb eq)
    | _ => SigmaErr E_Config
    end
  | Some (ANum a) =>
    match (match pv with QNum n => Some (nval n) | QStr t => parse_num t end) with
    | None => SigmaErr E_Config
    | Some n => aop_ord op (Z.ltb (nval a) n) (Z.eqb (nval a) n)
    end
  | Some (ADate d) =>
    match pv with
    | QNum _ => SigmaErr E_Config
    | QStr t => match parse_date t with
                | None => SigmaErr E_Config
                | Some n => aop_ord op (d <? n) (d =? n)
                end
    end
  | Some (ALevel l) =>
    match pv with
    | QNum _ => SigmaErr E_Config
    | QStr t => match index_of (upper t) level_names 0 with
                | None => SigmaErr E_Config
                | Some n => aop_ord op (l <? n) (l =? n)
                end
    end
  | Some (AStatus l) =>
    match pv with
    | QNum _ => SigmaErr E_Config
    | QStr t => match index_of (upper t) status_names 0 with
                | None => SigmaErr E_Config
                | Some n => aop_ord op (l <? n) (l =? n)
                end
    end
  | Some AUnsup => SigmaErr E_Config
  end.

Definition rcond_eval (w : world) (c : rcond) : outcome bool :=
  let r := w_rule w in
  match c with
  | RLogsource c p s => Ok (logsource_match c p s (r_ls r))
  | RContainsItem f v => Ok (rule_find (fun it => field_is f it && existsb (fun x => value_eq_typed x v) (d_vals it)) r)
  | RContainsField f => Ok (rule_find (field_is f) r)
  | RApplied id => Ok (smem id (r_applied r))
  | RState k v op => match_state (p_state (w_ps w)) k v op
  | RIsRule => Ok true
  | RIsCorr => Ok false
  | RAttr a v op => attr_match r a v op
  | RTag t => Ok (smem t (r_tags r))
  end.

(* --- detection item conditions --- *)
Definition quant (all : bool) (f : sval -> bool) (l : list sval) : bool :=
  if all then forallb f l else existsb f l.
Definition is_vstr (v : sval) : option str := match v with VStr s => Some s | _ => None end.
Definition has_wild (s : str) : bool := existsb (fun c => (c =? c_star) || (c =? c_qm)) s.

Definition dcond_eval (ps : pstate) (it : ditem) (c : dcond) : outcome bool :=
  match c with
  | DMatchString all p neg =>
    Ok (quant all (fun v => let r := match v with VStr s => rmatch p s | _ => false end in
                            if neg then negb r else r) (d_vals it))
  | DMatchValue all pv => Ok (quant all (fun v => value_eq_plain v pv) (d_vals it))
  | DWildcard all => Ok (quant all (fun v => match v with VStr s => has_wild s | _ => false end) (d_vals it))
  | DIsNull all => Ok (quant all (fun v => match v with VNull => true | _ => false end) (d_vals it))
  | DApplied id => Ok (smem id (d_applied it))
  | DState k v op => match_state (p_state ps) k v op
  end.

(* --- field name conditions --- *)
Definition ftracked (ps : pstate) (f : str) : sset :=
  match assoc f (p_ftrack ps) with Some l => l | None => [] end.

(* match_field_name *)
Definition fcond_name (ps : pstate) (f : option str) (c : fcond) : outcome bool :=
  match c with
  | FInclude fs => Ok (match f with None => false | Some x => smem x fs end)
  | FIncludeRe ps' => Ok (match f with None => false | Some x => existsb (fun p => rmatch p x) ps' end)
  | FExclude fs => Ok (negb (match f with None => false | Some x => smem x fs end))
  | FExcludeRe ps' => Ok (negb (match f with None => false | Some x => existsb (fun p => rmatch p x) ps' end))
  | FApplied id => Ok (match f with None => false | Some x => smem id (ftracked ps x) end)
  | FState k v op => match_state (p_state ps) k v op
  end.

(* "a or b" / any(generator): stops at the first True; an exception raised before that escapes *)
Fixpoint any_lazy (l : list (outcome bool)) : outcome bool :=
  match l with
  | [] => Ok false
  | x :: r => obind x (fun b => if b then Ok true else any_lazy r)
  end.

(* FieldNameProcessingCondition.match_detection_item: the field, or any field reference among the
   values; FieldNameProcessingItemAppliedCondition overrides it with detection_item.was_processed_by *)
Definition fcond_item (ps : pstate) (it : ditem) (c : fcond) : outcome bool :=
  match c with
  | FApplied id => Ok (smem id (d_applied it))
  | _ => any_lazy (fcond_name ps (d_field it) c ::
                   map (fun v => match v with VRef f => fcond_name ps (Some f) c | _ => Ok false end) (d_vals it))
  end.

(* ------------------------------------------------------------------------------------- *)
(* condition groups: as configured, and as left behind by __post_init__ *)
Inductive link := LAnd | LOr.
Inductive cform (C : Type) := CList (l : list C) | CMap (m : list (str * C)).
Arguments CList {C} l.
Arguments CMap {C} m.
Record rgroup (C : Type) := { g_form : cform C; g_link : option link; g_expr : option str; g_neg : bool }.
Arguments g_form {C} r.
Arguments g_link {C} r.
Arguments g_expr {C} r.
Arguments g_neg {C} r.

Inductive gmode := MLink (l : link) | MExpr (e : ex).
Record ngroup (C : Type) := { n_conds : list (str * C); n_mode : gmode; n_neg : bool }.
Arguments n_conds {C} n.
Arguments n_mode {C} n.
Arguments n_neg {C} n.

Definition form_conds {C} (f : cform C) : list (str * C) :=
  match f with CList l => map (fun c => ([], c)) l | CMap m => m end.

(* _check_conditions + _resolve_condition_expression (the expression text is parsed in from_dict) *)
Definition build_group {C} (g : rgroup C) : outcome (ngroup C) :=
  match g_expr g with
  | Some s =>
    match parse_expr s with
    | None => SigmaErr E_Config
    | Some e =>
      match g_link g, g_form g with
      | Some _, _ => SigmaErr E_Config                    (* expression is mutually exclusive to linking *)
      | None, CList _ => SigmaErr E_Config                (* must be a mapping *)
      | None, CMap m =>
        if forallb (fun i => match assoc i m with Some _ => true | None => false end) (ids e)
        then if forallb (fun kv => smem (fst kv) (ids e)) m
             then Ok {| n_conds := m; n_mode := MExpr e; n_neg := g_neg g |}
             else SigmaErr E_Config                       (* unreferenced condition items *)
        else SigmaErr E_Config                            (* identifier not found *)
      end
    end
  | None =>
    Ok {| n_conds := form_conds (g_form g);
          n_mode := MLink (match g_link g with Some l => l | None => LAnd end);
          n_neg := g_neg g |}
  end.

(* ------------------------------------------------------------------------------------- *)
(* the gates *)
Section Gate.
  Context {C : Type} (ev : C -> outcome bool).

  (* [condition.match(x) for condition in conditions]: every condition is evaluated, in order *)
  Fixpoint eval_all (l : list C) : outcome (list bool) :=
    match l with
    | [] => Ok []
    | c :: r => obind (ev c) (fun b => obind (eval_all r) (fun bs => Ok (b :: bs)))
    end.

  Definition link_fn (l : link) (bs : list bool) : bool :=
    match l with LAnd => forallb (fun b => b) bs | LOr => existsb (fun b => b) bs end.

  Definition env_of (m : list (str * C)) (w : str) : outcome bool :=
    match assoc w m with Some c => ev c | None => Crash 9 end.

  (* result of expression / linking, then the negation flag *)
  Definition gate_raw (g : ngroup C) : outcome bool :=
    obind (match n_mode g with
           | MExpr e => eval_ex (env_of (n_conds g)) e
           | MLink l => obind (eval_all (map snd (n_conds g))) (fun bs => Ok (link_fn l bs))
           end)
          (fun r => Ok (if n_neg g then negb r else r)).

  Definition no_conds (g : ngroup C) : bool := match n_conds g with [] => true | _ => false end.

  (* "return not self.rule_conditions or cond_result" *)
  Definition gate (g : ngroup C) : outcome bool :=
    obind (gate_raw g) (fun r => Ok (no_conds g || r)).
End Gate.

(* ------------------------------------------------------------------------------------- *)
(* transformations and processing items *)
Inductive fmap := MOne (t : str) | MMany (ts : list str).
Inductive transf :=
| TSetState (k : str) (v : stval)
| TChangeLogsource (c p s : option str)
| TSetAttr (a : str) (v : aval)
| TSetValue (v : sval)
| TSuffix (s : str)
| TPrefix (s : str)
| TFieldMap (m : list (str * fmap)).

Record item := {
  i_id : str;
  i_tr : transf;
  i_rule : ngroup rcond;
  i_det : ngroup dcond;
  i_field : ngroup fcond }.

(* --- construction (ProcessingItem.from_dict + __post_init__) --- *)
Record ritem := {
  ri_id : str;
  ri_tr : transf;
  ri_rule : rgroup rcond;
  ri_det : rgroup dcond;
  ri_field : rgroup fcond }.

Definition rx_valid (p : rx) : bool := negb (existsb (fun a => match a with RBad => true | _ => false end) p).

(* errors raised by the constructors of the condition classes *)
Definition rcond_new (c : rcond) : outcome unit :=
  match c with
  | RLogsource None None None => SigmaErr E_Logsource
  | RTag t => if mem c_dot t then Ok tt else SigmaErr E_Value
  | _ => Ok tt
  end.
Definition dcond_new (c : dcond) : outcome unit :=
  match c with
  | DMatchString _ p _ => if rx_valid p then Ok tt else SigmaErr E_RegexErr
  | _ => Ok tt
  end.
Definition fcond_new (c : fcond) : outcome unit :=
  match c with
  | FIncludeRe ps | FExcludeRe ps => if forallb rx_valid ps then Ok tt else SigmaErr E_Config
  | _ => Ok tt
  end.

Fixpoint all_ok {A} (f : A -> outcome unit) (l : list A) : outcome unit :=
  match l with [] => Ok tt | x :: r => obind (f x) (fun _ => all_ok f r) end.

(* first pass (from_dict): instantiate the conditions in order, then parse the expression text *)
Definition pass1 {C} (new : C -> outcome unit) (g : rgroup C) : outcome unit :=
  obind (all_ok new (map snd (form_conds (g_form g)))) (fun _ =>
  match g_expr g with
  | Some s => match parse_expr s with None => SigmaErr E_Config | Some _ => Ok tt end
  | None => Ok tt
  end).

Definition build_item (ri : ritem) : outcome item :=
  obind (pass1 rcond_new (ri_rule ri)) (fun _ =>
  obind (pass1 dcond_new (ri_det ri)) (fun _ =>
  obind (pass1 fcond_new (ri_field ri)) (fun _ =>
  obind (build_group (ri_rule ri)) (fun gr =>
  obind (build_group (ri_det ri)) (fun gd =>
  obind (build_group (ri_field ri)) (fun gf =>
  Ok {| i_id := ri_id ri; i_tr := ri_tr ri; i_rule := gr; i_det := gd; i_field := gf |})))))).

Fixpoint build_all (l : list ritem) : outcome (list item) :=
  match l with
  | [] => Ok []
  | x :: r => obind (build_item x) (fun i => obind (build_all r) (fun is => Ok (i :: is)))
  end.

Definition match_rule_conditions (it : item) (w : world) : outcome bool :=
  gate (rcond_eval w) (i_rule it).

Definition match_detection_item (it : item) (ps : pstate) (d : ditem) : outcome bool :=
  obind (gate_raw (dcond_eval ps d) (i_det it)) (fun dr =>
  obind (gate_raw (fcond_item ps d) (i_field it)) (fun fr =>
  Ok ((no_conds (i_det it) || dr) && (no_conds (i_field it) || fr)))).

Definition match_field_name (it : item) (ps : pstate) (f : option str) : outcome bool :=
  gate (fcond_name ps f) (i_field it).

(* match_field_in_value on a field reference (False for every other value) *)
Definition match_field_in_value (it : item) (ps : pstate) (f : str) : outcome bool :=
  gate (fcond_name ps (Some f)) (i_field it).

(* apply_field_name of the field-name transformations; None = "no mapping" *)
Definition apply_field_name (t : transf) (f : option str) : option fmap :=
  match t, f with
  | TSuffix s, Some x => Some (MOne (x ++ s))
  | TPrefix s, Some x => Some (MOne (s ++ x))
  | TFieldMap m, Some x => assoc x m
  | _, _ => None
  end.
Definition is_renaming (t : transf) : bool :=
  match t with TSuffix _ | TPrefix _ | TFieldMap _ => true | _ => false end.
Definition fmap_list (m : fmap) : list str := match m with MOne t => [t] | MMany l => l end.

(* ProcessingPipeline.track_field_processing_items *)
Definition track (ps : pstate) (src : str) (dst : list str) (id : str) : pstate :=
  if list_eqb str_eqb [src] dst then ps
  else let ids := sadd id (ftracked ps src) in
       {| p_state := p_state ps;
          p_ftrack := fold_left (fun m d => aset d ids m) dst (adel src (p_ftrack ps)) |}.

(* FieldMappingTransformationBase._apply_field_name *)
Definition apply_name_tracked (it : item) (ps : pstate) (f : str) : outcome (list str * pstate) :=
  match apply_field_name (i_tr it) (Some f) with
  | None => Ok ([f], ps)
  | Some m => obind (match_field_name it ps (Some f)) (fun b =>
              if b then Ok (fmap_list m, track ps f (fmap_list m) (i_id it)) else Ok ([f], ps))
  end.

Fixpoint map_fields (it : item) (ps : pstate) (l : list str) : outcome (list str * pstate) :=
  match l with
  | [] => Ok ([], ps)
  | f :: r => obind (apply_name_tracked it ps f) (fun x =>
              obind (map_fields it (snd x) r) (fun y => Ok (fst x ++ fst y, snd y)))
  end.

(* the value loop of FieldMappingTransformationBase.apply_detection_item:
   (new values, some field reference matched, bookkeeping) *)
Fixpoint map_refs (it : item) (ps : pstate) (vs : list sval) : outcome (list sval * bool * pstate) :=
  match vs with
  | [] => Ok ([], false, ps)
  | VRef f :: r =>
    obind (match_field_in_value it ps f) (fun b =>
    if b then obind (apply_name_tracked it ps f) (fun x =>
              obind (map_refs it (snd x) r) (fun y =>
              Ok (map VRef (fst x) ++ fst (fst y), true, snd y)))
    else obind (map_refs it ps r) (fun y => Ok (VRef f :: fst (fst y), snd (fst y), snd y)))
  | v :: r => obind (map_refs it ps r) (fun y => Ok (v :: fst (fst y), snd (fst y), snd y))
  end.

Definition mark (id : str) (d : ditem) : ditem :=
  {| d_field := d_field d; d_vals := d_vals d; d_applied := sadd id (d_applied d) |}.

(* apply_detection_item of the field-name transformations; None = "no replacement was made" *)
Definition rename_item (it : item) (ps : pstate) (d : ditem) : outcome (option dtree * pstate) :=
  obind (map_refs it ps (d_vals d)) (fun x =>
  let '(nv, refm, ps1) := x in
  let d1 := if refm then {| d_field := d_field d; d_vals := nv; d_applied := d_applied d |} else d in
  match apply_field_name (i_tr it) (d_field d) with
  | None => Ok (if refm then Some (DLeaf (mark (i_id it) d1)) else None, ps1)
  | Some m =>
    obind (match_field_name it ps1 (d_field d)) (fun b =>
    if b then
      match m with
      | MOne t => Ok (Some (DLeaf (mark (i_id it)
                     {| d_field := Some t; d_vals := d_vals d1; d_applied := d_applied d1 |})), ps1)
      | MMany l => (* the copies inherit the marks of the replaced item; apply_detection then marks each copy *)
                   Ok (Some (DNode (map (fun t => DLeaf (mark (i_id it)
                     {| d_field := Some t; d_vals := d_vals d1; d_applied := d_applied d1 |})) l)), ps1)
      end
    else Ok (if refm then Some (DLeaf (mark (i_id it) d1)) else None, ps1))
  end).

(* apply_detection_item for one detection item, by transformation class *)
Definition transform_item (it : item) (ps : pstate) (d : ditem) : outcome (option dtree * pstate) :=
  match i_tr it with
  | TSetValue v =>
    match d_vals d with
    | [] => Ok (None, ps)
    | _ => Ok (Some (DLeaf (mark (i_id it)
              {| d_field := d_field d; d_vals := map (fun _ => v) (d_vals d); d_applied := d_applied d |})), ps)
    end
  | _ => rename_item it ps d
  end.

(* DetectionItemTransformation.apply_detection *)
Fixpoint apply_tree (it : item) (ps : pstate) (t : dtree) : outcome (dtree * pstate) :=
  match t with
  | DLeaf d =>
    obind (match_detection_item it ps d) (fun b =>
    if b then obind (transform_item it ps d) (fun x =>
              Ok (match fst x with Some t' => t' | None => DLeaf d end, snd x))
    else Ok (DLeaf d, ps))
  | DNode l =>
    obind ((fix go (ps : pstate) (l : list dtree) : outcome (list dtree * pstate) :=
              match l with
              | [] => Ok ([], ps)
              | x :: r => obind (apply_tree it ps x) (fun a =>
                          obind (go (snd a) r) (fun b => Ok (fst a :: fst b, snd b)))
              end) ps l)
          (fun x => Ok (DNode (fst x), snd x))
  end.

Fixpoint apply_dets (it : item) (ps : pstate) (l : list (str * dtree)) : outcome (list (str * dtree) * pstate) :=
  match l with
  | [] => Ok ([], ps)
  | (n, t) :: r => obind (apply_tree it ps t) (fun a =>
                   obind (apply_dets it (snd a) r) (fun b => Ok ((n, fst a) :: fst b, snd b)))
  end.

Definition set_rule (r : rule) ls custom fields applied dets : rule :=
  {| r_ls := ls; r_tags := r_tags r; r_static := r_static r; r_custom := custom; r_fields := fields;
     r_applied := applied; r_dets := dets |}.

Definition is_item_transf (t : transf) : bool :=
  match t with TSetValue _ | TSuffix _ | TPrefix _ | TFieldMap _ => true | _ => false end.

(* Transformation.apply for an item whose rule conditions matched *)
Definition transform (it : item) (w : world) : outcome world :=
  let r := w_rule w in
  let ps := w_ps w in
  let ap := sadd (i_id it) (r_applied r) in
  match i_tr it with
  | TSetState k v =>
    Ok {| w_rule := set_rule r (r_ls r) (r_custom r) (r_fields r) ap (r_dets r);
          w_ps := {| p_state := aset k v (p_state ps); p_ftrack := p_ftrack ps |} |}
  | TChangeLogsource c p s =>
    match c, p, s with None, None, None => SigmaErr E_Logsource | _, _, _ =>
    Ok {| w_rule := set_rule r (c, p, s) (r_custom r) (r_fields r) ap (r_dets r); w_ps := ps |}
    end
  | TSetAttr a v =>
    Ok {| w_rule := set_rule r (r_ls r) (aset a v (r_custom r)) (r_fields r) ap (r_dets r); w_ps := ps |}
  | TSetValue _ =>
    obind (apply_dets it ps (r_dets r)) (fun x =>
    Ok {| w_rule := set_rule r (r_ls r) (r_custom r) (r_fields r) ap (fst x); w_ps := snd x |})
  | _ =>
    obind (map_fields it ps (r_fields r)) (fun fl =>
    obind (apply_dets it (snd fl) (r_dets r)) (fun x =>
    Ok {| w_rule := set_rule r (r_ls r) (r_custom r) (fst fl) ap (fst x); w_ps := snd x |}))
  end.

(* ProcessingItem.apply: (world after, applied?) *)
Definition step (it : item) (w : world) : outcome (world * bool) :=
  obind (match_rule_conditions it w) (fun b =>
  if b then obind (transform it w) (fun w' => Ok (w', true)) else Ok (w, false)).

(* ProcessingPipeline.apply: the snapshots before each item, the applied flags, and how it ended *)
Fixpoint run (its : list item) (w : world) : list (world * bool) * option (N * bool) :=
  match its with
  | [] => ([], None)
  | it :: r =>
    match step it w with
    | Ok (w', b) => let '(l, e) := run r w' in ((w', b) :: l, e)
    | SigmaErr t => ([], Some (t, true))
    | Crash t => ([], Some (t, false))
    end
  end.

Definition init_ps : pstate := {| p_state := []; p_ftrack := [] |}.
