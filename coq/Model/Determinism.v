(* C20 - model of the places of pySigma where the iteration order of a `set` or a draw of the
   `random` module can reach output (queries, error records, validation issues).
   Iteration order is the explicit parameter O : order (any function with Permutation (ord l) l),
   drawn identifiers are explicit lists of strings.  Definitions only; proofs in Proofs/DeterminismP.v.

   Python sets are modelled by lists; every set-valued operation normalises its result
   (norm = sort + remove duplicates), so equal sets are equal lists, and every *iteration* over a set
   goes through `ord O`.  dicts are insertion-ordered association lists. *)
From Coq Require Import NArith List Bool Permutation.
From PS Require Import Base.Chars.
Import ListNotations.
Open Scope N_scope.

(* ---------------------------------------------------------------------------------------- *)
(* iteration order *)
Record order := { ord : forall A : Type, list A -> list A;
                  ord_perm : forall (A : Type) (l : list A), Permutation (ord A l) l }.
Arguments ord _ {A} _.

(* ---------------------------------------------------------------------------------------- *)
(* sorted() : insertion sort for a boolean order (Python's sort of a list without equal-but-distinct
   elements is the unique sorted permutation) *)
Section Sort.
  Context {A : Type} (leb : A -> A -> bool).
  Fixpoint insert (x : A) (l : list A) : list A :=
    match l with
    | [] => [x]
    | y :: r => if leb x y then x :: l else y :: insert x r
    end.
  Fixpoint isort (l : list A) : list A :=
    match l with [] => [] | x :: r => insert x (isort r) end.
End Sort.

(* str comparison of Python: lexicographic by code point *)
Fixpoint str_leb (a b : str) : bool :=
  match a, b with
  | [], _ => true
  | _ :: _, [] => false
  | x :: a', y :: b' => if N.ltb x y then true else if N.eqb x y then str_leb a' b' else false
  end.

Definition smem (x : str) (l : list str) : bool := existsb (str_eqb x) l.
Fixpoint dedup (l : list str) : list str :=
  match l with
  | [] => []
  | x :: r => if smem x r then dedup r else x :: dedup r
  end.
Definition sorted_strs (l : list str) : list str := isort str_leb l.
(* canonical representation of the set of the elements of l *)
Definition norm (l : list str) : list str := sorted_strs (dedup l).

Definition s_union (s l : list str) := norm (s ++ l).
Definition s_add (x : str) (s : list str) := norm (x :: s).
Definition s_remove (x : str) (s : list str) := norm (filter (fun y => negb (str_eqb x y)) s).
Definition s_diff (a b : list str) := norm (filter (fun y => negb (smem y b)) a).

Fixpoint join (sep : str) (l : list str) : str :=
  match l with
  | [] => []
  | [x] => x
  | x :: r => x ++ sep ++ join sep r
  end.
Definition comma_sp : str := [44; 32].

(* ---------------------------------------------------------------------------------------- *)
(* error messages built from sets (after the repair: sorted(...) at the join sites)
     failure.py      StrictFieldMappingFailure.apply
     pipeline.py     ProcessingItemBase._resolve_condition_expression
     correlations.py SigmaCorrelationCondition.from_dict *)
Definition sorted_join (O : order) (s : list str) : str := join comma_sp (sorted_strs (ord O s)).
(* the code before the repair joined the set in iteration order *)
Definition unsorted_join (O : order) (s : list str) : str := join comma_sp (ord O s).

Definition msg_unmapped : str :=   (* "The following fields are not mapped: " *)
  [84;104;101;32;102;111;108;108;111;119;105;110;103;32;102;105;101;108;100;115;32;97;114;101;32;110;111;116;32;109;97;112;112;101;100;58;32].
Definition msg_unref : str :=      (* "Rule condition contains unreferenced condition items: " *)
  [82;117;108;101;32;99;111;110;100;105;116;105;111;110;32;99;111;110;116;97;105;110;115;32;117;110;114;101;102;101;114;101;110;99;101;100;32;99;111;110;100;105;116;105;111;110;32;105;116;101;109;115;58;32].
Definition msg_corr : str :=       (* "Sigma correlation condition contains invalid items: " *)
  [83;105;103;109;97;32;99;111;114;114;101;108;97;116;105;111;110;32;99;111;110;100;105;116;105;111;110;32;99;111;110;116;97;105;110;115;32;105;110;118;97;108;105;100;32;105;116;101;109;115;58;32].

(* _resolve_condition_expression: `if len(refids) < len(conditions)` then message over
   set(conditions.keys()) - refids ; None = no error *)
Definition unref_msg (O : order) (keys refids : list str) : option str :=
  if Nat.ltb (length (norm refids)) (length keys)
  then Some (msg_unref ++ sorted_join O (s_diff keys refids)) else None.

(* SigmaCorrelationCondition.from_dict: d_keys - ops - {field, percentile}; the caller gives the
   keys that are neither operators nor field/percentile *)
Definition corr_msg (O : order) (unknown : list str) : option str :=
  match norm unknown with
  | [] => None
  | s => Some (msg_corr ++ sorted_join O s)
  end.

(* ---------------------------------------------------------------------------------------- *)
(* regular expression flags: a set of flags; compile() folds `|=` over the set, escape() renders
   "(?" + "".join(sorted(letters)) + ")" *)
Inductive reflag := FI | FM | FS.
Definition flag_letter (f : reflag) : N := match f with FI => 105 | FM => 109 | FS => 115 end.
Definition flag_bit (f : reflag) : N := match f with FI => 2 | FM => 8 | FS => 16 end.
Definition reflag_eqb (a b : reflag) : bool :=
  match a, b with FI, FI | FM, FM | FS, FS => true | _, _ => false end.
Fixpoint flag_set (l : list reflag) : list reflag :=   (* set built by add_flag in source order *)
  match l with
  | [] => []
  | f :: r => if existsb (reflag_eqb f) r then flag_set r else f :: flag_set r
  end.
Definition py_flags (O : order) (fl : list reflag) : N :=
  fold_left (fun acc f => N.lor acc (flag_bit f)) (ord O (flag_set fl)) 0.
Definition flag_prefix (O : order) (fl : list reflag) : str :=
  match flag_set fl with
  | [] => []
  | s => [40; 63] ++ isort N.leb (map flag_letter (ord O s)) ++ [41]
  end.

(* ---------------------------------------------------------------------------------------- *)
(* dicts *)
Fixpoint lookup {V} (k : str) (m : list (str * V)) : option V :=
  match m with
  | [] => None
  | (k', v) :: r => if str_eqb k k' then Some v else lookup k r
  end.
Fixpoint dset {V} (k : str) (v : V) (m : list (str * V)) : list (str * V) :=   (* d[k] = v *)
  match m with
  | [] => [(k, v)]
  | (k', v') :: r => if str_eqb k k' then (k', v) :: r else (k', v') :: dset k v r
  end.
Definition dupd {V} (k : str) (g : V -> V) (m : list (str * V)) : list (str * V) :=  (* d[k] = g(d[k]), k present *)
  map (fun kv => if str_eqb k (fst kv) then (fst kv, g (snd kv)) else kv) m.
Definition dupd_default {V} (dflt : V) (k : str) (g : V -> V) (m : list (str * V)) :=  (* defaultdict *)
  match lookup k m with
  | Some v => dupd k g m
  | None => m ++ [(k, g dflt)]
  end.
Definition ddel {V} (k : str) (m : list (str * V)) : list (str * V) :=     (* del d[k] *)
  filter (fun kv => negb (str_eqb k (fst kv))) m.
Definition haskey {V} (k : str) (m : list (str * V)) : bool :=
  match lookup k m with Some _ => true | None => false end.

(* ---------------------------------------------------------------------------------------- *)
(* FieldMappingTracking (tracking.py, after the repair of the reverse-mapping update):
   fm : source field -> set of target fields (UserDict data), tf : target -> set of sources *)
Definition tracking := (list (str * list str) * list (str * list str))%type.
Definition t_empty : tracking := ([], []).

Definition add_mapping (O : order) (st : tracking) (source : str) (target : list str) : tracking :=
  let '(fm, tf) := st in
  let '(fm1, tf1) :=
    match lookup source tf with
    | Some sfs =>
        let fm' := fold_left (fun m sf => dupd sf (fun ts => s_union (s_remove source ts) target) m)
                             (ord O sfs) fm in
        let tf' := ddel source tf in
        (fm', fold_left (fun m t => dupd_default [] t (fun s => s_union s sfs) m) target tf')
    | None => (fm, tf)
    end in
  let fm2 := match lookup source fm1 with
             | None => fm1 ++ [(source, norm target)]
             | Some _ => dupd source (fun ts => s_union ts target) fm1
             end in
  (fm2, fold_left (fun m t => dupd_default [] t (s_add source) m) target tf1).

(* merge: for source, target_set in other.items(): self.add_mapping(source, list(target_set)) *)
Definition merge (O : order) (st other : tracking) : tracking :=
  fold_left (fun s kv => add_mapping O s (fst kv) (ord O (snd kv))) (fst other) st.

(* ---------------------------------------------------------------------------------------- *)
(* field name mapping transformations followed by StrictFieldMappingFailure.
   A rule is the list of its detections, a detection the list of the field names of its items
   (walk order); a mapping is a dict  field -> list of targets (order of the YAML list).
   Mapping an item replaces it by one item per target, in list order, and records the mapping. *)
Definition mapping := list (str * list str).
Fixpoint map_items (O : order) (mp : mapping) (fields : list str) (st : tracking) : list str * tracking :=
  match fields with
  | [] => ([], st)
  | f :: r =>
      match lookup f mp with
      | Some tg => let '(r', st') := map_items O mp r (add_mapping O st f tg) in (tg ++ r', st')
      | None => let '(r', st') := map_items O mp r st in (f :: r', st')
      end
  end.
Fixpoint map_rule (O : order) (mp : mapping) (dets : list (list str)) (st : tracking)
  : list (list str) * tracking :=
  match dets with
  | [] => ([], st)
  | d :: r => let '(d', st1) := map_items O mp d st in
              let '(r', st2) := map_rule O mp r st1 in (d' :: r', st2)
  end.
Fixpoint map_all (O : order) (mps : list mapping) (dets : list (list str)) (st : tracking) :=
  match mps with
  | [] => (dets, st)
  | mp :: r => let '(dets', st') := map_rule O mp dets st in map_all O r dets' st'
  end.

(* _get_all_field_names: a set filled in walk order; then
   for field in all_fields: unmapped unless field in field_mappings or in target_fields *)
Definition strict_msg (O : order) (dets : list (list str)) (st : tracking) : option str :=
  let all_fields := norm (concat dets) in
  let un := filter (fun f => negb (haskey f (fst st) || haskey f (snd st))) (ord O all_fields) in
  match un with
  | [] => None
  | _ => Some (msg_unmapped ++ join comma_sp (sorted_strs un))
  end.

(* pipeline = mappings (optionally inside a nested pipeline whose tracking is merged into the outer
   one) followed by the strict check; result: final fields of the rule, error message, tracking *)
Definition strict_run (O : order) (nested : bool) (mps : list mapping) (dets : list (list str))
  : list (list str) * option str * tracking :=
  let '(dets', st) := map_all O mps dets t_empty in
  let st' := if nested then merge O t_empty st else st in
  (dets', strict_msg O dets' st', st').

(* ---------------------------------------------------------------------------------------- *)
(* drawn identifiers: add_condition (condition.py) and filters (filters.py), at the level of the
   condition syntax tree; resolution of identifiers and selectors (conditions.py) *)
Inductive cexpr :=
| CId (n : str)
| CSel (all : bool) (pat : str)          (* "1 of pat" / "all of pat"; pat may be "them" *)
| CNot (c : cexpr)
| CBin (isand : bool) (a b : cexpr).

Definition them : str := [116; 104; 101; 109].

Record rule := { r_dets : list (str * str);   (* detection name -> content *)
                 r_cond : cexpr }.
Record sfilter := { f_dets : list (str * str); f_cond : cexpr }.

(* AddConditionTransformation.apply + apply_condition:  name and (cond)  /  not name and (cond) *)
Definition add_cond (name content : str) (neg : bool) (r : rule) : rule :=
  {| r_dets := dset name content (r_dets r);
     r_cond := CBin true (if neg then CNot (CId name) else CId name) (r_cond r) |}.

(* SigmaFilter.apply_on_rule *)
Definition pfx (px n : str) : str := px ++ c_us :: n.
Fixpoint rename (px : str) (c : cexpr) : cexpr :=
  match c with
  | CId n => CId (pfx px n)
  | CSel a p => CSel a (if str_eqb p them then pfx px [c_star] else pfx px p)
  | CNot c => CNot (rename px c)
  | CBin o a b => CBin o (rename px a) (rename px b)
  end.
Definition apply_filter (px : str) (f : sfilter) (r : rule) : rule :=
  {| r_dets := fold_left (fun m kv => dset (pfx px (fst kv)) (snd kv) m) (f_dets f) (r_dets r);
     r_cond := CBin true (r_cond r) (rename px (f_cond f)) |}.

(* the redraw loop of apply_on_rule: draw until no detection name of the rule starts with the prefix.
   One application consumes a stream of candidate draws; None = the stream ends before a draw is accepted *)
Definition prefix_free (p : str) (m : list (str * str)) : bool :=
  forallb (fun kv => negb (prefixb p (fst kv))) m.
Fixpoint pick (stream : list str) (m : list (str * str)) : option (str * list str) :=
  match stream with
  | [] => None
  | p :: rest => if prefix_free p m then Some (p, rest) else pick rest m
  end.
(* filters applied one after the other, each with its own candidate stream (the adversary may repeat draws,
   re-seed between applications, ...): chosen prefix and unconsumed candidates per application *)
Fixpoint choose (streams : list (list str)) (fs : list sfilter) (r : rule) : option (list (str * list str)) :=
  match streams, fs with
  | [], [] => Some []
  | s :: ss, f :: fs' =>
      match pick s (r_dets r) with
      | Some (p, rest) => option_map (cons (p, rest)) (choose ss fs' (apply_filter p f r))
      | None => None
      end
  | _, _ => None
  end.

(* re.compile(pattern.replace("*", ".*")).fullmatch(identifier), pattern without other metacharacters *)
Fixpoint glob (p s : str) : bool :=
  match p with
  | [] => match s with [] => true | _ => false end
  | c :: p' =>
      if N.eqb c c_star then
        (fix any (s : str) : bool :=
           glob p' s || match s with [] => false | _ :: s' => any s' end) s
      else match s with [] => false | d :: s' => N.eqb c d && glob p' s' end
  end.
Definition starts_us (s : str) : bool := match s with c :: _ => N.eqb c c_us | [] => false end.
Definition pat_match (p n : str) : bool := if str_eqb p them then true else glob p n.
Definition sel_match (p n : str) : bool := pat_match p n && (starts_us p || negb (starts_us n)).

Inductive qtree :=
| QNone
| QAtom (c : str)
| QNot (q : qtree)
| QBin (isand : bool) (a b : qtree)
| QSel (all : bool) (l : list str).
Inductive rres := RQ (q : qtree) | RUndef (n : str).   (* "Detection 'n' not defined in detections" *)

Definition mk_sel (all : bool) (l : list str) : qtree :=
  match l with [] => QNone | [c] => QAtom c | _ => QSel all l end.
Definition rbind (x : rres) (f : qtree -> rres) : rres :=
  match x with RQ q => f q | RUndef n => RUndef n end.
Fixpoint resolve (m : list (str * str)) (c : cexpr) : rres :=
  match c with
  | CId n => match lookup n m with Some v => RQ (QAtom v) | None => RUndef n end
  | CSel a p => RQ (mk_sel a (map snd (filter (fun kv => sel_match p (fst kv)) m)))
  | CNot c => rbind (resolve m c) (fun q => RQ (QNot q))
  | CBin o a b => rbind (resolve m a) (fun x => rbind (resolve m b) (fun y => RQ (QBin o x y)))
  end.

(* filters are applied when the collection is loaded, the pipeline (add_condition items) at conversion.
   PF: (drawn prefix, filter) in application order; CA: (drawn name, (content, negated)) *)
Definition names_rule (r : rule) (PF : list (str * sfilter)) (CA : list (str * (str * bool))) : rule :=
  let r1 := fold_left (fun r pf => apply_filter (fst pf) (snd pf) r) PF r in
  fold_left (fun r na => add_cond (fst na) (fst (snd na)) (snd (snd na)) r) CA r1.
Definition names_run r PF CA : rres :=
  let r' := names_rule r PF CA in resolve (r_dets r') (r_cond r').

(* ---------------------------------------------------------------------------------------- *)
(* validation issues (after the repair): validators run in the order given, duplicates dropped;
   DanglingDetection / DanglingCondition report sorted names *)
Definition dangling_names (O : order) (detection_names referenced : list str) : list str :=
  sorted_strs (ord O (s_diff detection_names referenced)).
Definition unknown_refs (O : order) (refs : list str) : list str := sorted_strs (ord O (norm refs)).

(* ---------------------------------------------------------------------------------------- *)
(* SigmaCorrelationCondition.from_dict (correlations.py): the condition dict of a correlation rule.
   The operator is found by iterating the SET operators() and taking the first operator that is a key of
   the dict; this is order-sensitive unless exactly one operator key is present, which the check
   `len(d_keys.intersection(ops)) != 1` (d_keys = all keys, whatever their value) guarantees. *)
Inductive cval := VInt (digits : str) | VNull | VBad (repr : str).   (* int, None, anything int() rejects *)
Definition corr_ops : list str :=
  [[103;116;101]; [103;116]; [108;116;101]; [108;116]; [101;113]; [110;101;113]].   (* gte gt lte lt eq neq *)
Definition k_field : str := [102;105;101;108;100].
Definition k_percentile : str := [112;101;114;99;101;110;116;105;108;101].
Definition msg_one_item : str :=   (* "Sigma correlation condition must have exactly one condition item" *)
  [83;105;103;109;97;32;99;111;114;114;101;108;97;116;105;111;110;32;99;111;110;100;105;116;105;111;110;32;109;117;115;116;32;104;97;118;101;32;101;120;97;99;116;108;121;32;111;110;101;32;99;111;110;100;105;116;105;111;110;32;105;116;101;109].
Definition msg_count_tail : str :=  (* "' is no valid Sigma correlation condition count" *)
  [39;32;105;115;32;110;111;32;118;97;108;105;100;32;83;105;103;109;97;32;99;111;114;114;101;108;97;116;105;111;110;32;99;111;110;100;105;116;105;111;110;32;99;111;117;110;116].
Definition s_None : str := [78;111;110;101].
Inductive cres := COk (op : str) (count : str) | CErr (msg : str).

Definition corr_from_dict (O : order) (d : list (str * cval)) : cres :=
  let present := filter (fun op => haskey op d) corr_ops in
  match present with
  | [_] =>
      let unknown := filter (fun k => negb (smem k corr_ops) && negb (str_eqb k k_field) && negb (str_eqb k k_percentile))
                            (map fst d) in
      match norm unknown with
      | _ :: _ => CErr (msg_corr ++ sorted_join O (norm unknown))
      | [] =>
          match find (fun op => haskey op d) (ord O corr_ops) with
          | Some op =>
              match lookup op d with
              | Some (VInt z) => COk op z
              | Some VNull => CErr ([39] ++ s_None ++ msg_count_tail)
              | Some (VBad x) => CErr ([39] ++ x ++ msg_count_tail)
              | None => CErr []
              end
          | None => CErr []     (* UnboundLocalError in the code; unreachable, see corr_from_dict_order_free *)
          end
      end
  | _ => CErr msg_one_item
  end.

(* the same function with the weakened check of a seeded change: keys with a null value are not counted *)
Definition corr_from_dict_weak (O : order) (d : list (str * cval)) : cres :=
  let counted := filter (fun op => match lookup op d with Some VNull => false | Some _ => true | None => false end) corr_ops in
  match counted with
  | [_] =>
      match find (fun op => haskey op d) (ord O corr_ops) with
      | Some op =>
          match lookup op d with
          | Some (VInt z) => COk op z
          | Some VNull => CErr ([39] ++ s_None ++ msg_count_tail)
          | Some (VBad x) => CErr ([39] ++ x ++ msg_count_tail)
          | None => CErr []
          end
      | None => CErr []
      end
  | _ => CErr msg_one_item
  end.
