(* Model of the document loaders (property C07), mirroring the code of the working tree:
     sigma/rule/base.py      SigmaRuleBase.from_dict_common_params, __post_init__
     sigma/rule/rule.py      SigmaRule.from_dict
     sigma/rule/logsource.py SigmaLogSource.from_dict, __post_init__
     sigma/rule/detection.py SigmaDetections.from_dict, SigmaDetection.from_definition,
                             SigmaDetectionItem.from_mapping, apply_modifiers
     sigma/rule/attributes.py SigmaRelated.from_dict, SigmaRelatedItem.from_dict, SigmaRuleTag.from_str
     sigma/correlations.py   SigmaCorrelationRule.from_dict, __post_init__, SigmaCorrelationCondition.from_dict,
                             SigmaCorrelationTimespan, SigmaCorrelationFieldAliases.from_dict
     sigma/filters.py        SigmaFilter.from_dict, SigmaGlobalFilter.from_dict
   A load returns  Ok errs (the object's error list, as class tags) | SigmaErr cls (a SigmaError
   subclass escaped) | Crash cls (any other exception escaped).  Every Python operation that raises
   on ill-typed data is a function returning Crash exactly where CPython raises; try/except is
   `catch`.  Library calls whose result depends on the text of a string (uuid.UUID, int(), re.compile,
   ipaddress.ip_network, the pyparsing grammar of extended correlation conditions) are the fields
   of `lib`: the theorems hold for every library.  Definitions only. *)
From Coq Require Import NArith ZArith List Bool.
From PS Require Import Base.Chars Base.Outcome Model.SString Model.Yaml Model.LoaderStrings.
Import ListNotations.
Open Scope N_scope.

(* ---- tags of the sigma.exceptions classes that loaders produce (harness table: props/c07.py) ---- *)
Definition EIdentifier : N := 10.   Definition EType : N := 11.        Definition EName : N := 12.
Definition ETaxonomy : N := 13.     Definition ERelated : N := 14.     Definition ELevel : N := 15.
Definition EStatus : N := 16.       Definition ETag : N := 17.         Definition EValue : N := 18.
Definition EDate : N := 19.         Definition EModified : N := 20.    Definition EFields : N := 21.
Definition EFalsePositives : N := 22. Definition EAuthor : N := 23.    Definition EDescription : N := 24.
Definition EReferences : N := 25.   Definition ETitle : N := 26.       Definition EScope : N := 27.
Definition ELicense : N := 28.      Definition ELogsource : N := 29.   Definition EDetection : N := 30.
Definition ECondition : N := 31.    Definition EModifier : N := 32.    Definition ERegex : N := 33.
Definition ECorrRule : N := 34.     Definition ECorrCond : N := 35.    Definition ECorrType : N := 36.
Definition ETimespan : N := 37.     Definition EFilter : N := 39.      Definition EFilterCond : N := 40.
Definition EFilterRef : N := 41.    Definition ECollection : N := 42.

Record lib := {
  uuid_ok : str -> bool;      (* uuid.UUID(s) does not raise ValueError *)
  uuid_key : str -> N;        (* int(uuid.UUID(s)) when it does not: two spellings of one UUID are one key *)
  int_ok : str -> bool;       (* int(s) does not raise ValueError *)
  re_ok : str -> bool;        (* re.compile(s) does not raise re.error *)
  cidr_ok : str -> bool;      (* ipaddress.ip_network(s) does not raise ValueError *)
  ext_refs : str -> option (list str)  (* pyparsing grammar of extended conditions: identifiers, None = ParseException *)
}.

Section Loader.
Variable L : lib.

(* ------------------------------------------------------------------------------------------ *)
(* Python primitives on possibly ill-typed values                                              *)

(* uuid.UUID(v): hex.replace(...) on a non-string -> AttributeError (date.replace('urn:', '') -> TypeError) *)
Definition py_uuid (v : yv) : outcome unit :=
  match v with
  | YStr s => if uuid_ok L s then Ok tt else Crash X_Value
  | YDate => Crash X_Type
  | _ => Crash X_Attr
  end.
(* v.upper() *)
Definition py_upper (v : yv) : outcome str :=
  match v with YStr s => Ok (upper s) | _ => Crash X_Attr end.
(* key.split("|") *)
Definition py_split_pipe (v : yv) : outcome (list str) :=
  match v with YStr s => Ok (split c_pipe s) | _ => Crash X_Attr end.
(* int(v) *)
Definition py_int (v : yv) : outcome unit :=
  match v with
  | YInt _ | YBool _ => Ok tt
  | YFloat k => if N.eqb k 1 then Crash X_Value else if N.eqb k 2 then Crash X_Overflow else Ok tt
  | YStr s => if int_ok L s then Ok tt else Crash X_Value
  | _ => Crash X_Type
  end.
(* float(z) overflows for |z| >= 2^1024 - 2^970 *)
Definition float_overflow (z : Z) : bool := Z.leb (2 ^ 1024 - 2 ^ 970) (Z.abs z).

(* ------------------------------------------------------------------------------------------ *)
(* from_dict_common_params, field by field in source order; each step returns the errors it appends *)

Definition step := yv -> outcome (list N).

(* id: (repaired) non-strings are reported like invalid UUID strings *)
Definition st_id : step := fun d =>
  v <- dget d s_id ;;
  if is_null v then Ok []
  else if negb (is_str v) then Ok [EIdentifier]
  else match py_uuid v with
       | Ok _ => Ok []
       | Crash c => if N.eqb c X_Value then Ok [EIdentifier] else Crash c
       | SigmaErr e => SigmaErr e
       end.

Definition st_name : step := fun d =>
  v <- dget d s_name ;;
  Ok match v with YNull => [] | YStr [] => [EName] | YStr _ => [] | _ => [EType] end.

Definition st_taxonomy : step := fun d =>
  o <- dget_opt d s_taxonomy ;;
  Ok match o with
     | None | Some YNull => []
     | Some (YStr []) => [ETaxonomy] | Some (YStr _) => [] | Some _ => [ETaxonomy]
     end.

Definition related_types : list str := [s_CORRELATION; s_DERIVED; s_MERGED; s_OBSOLETE; s_RENAMED; s_SIMILAR].
(* SigmaRelatedItem.from_dict after the key checks of SigmaRelated.from_dict *)
Definition related_item (v : yv) : outcome unit :=
  match v with
  | YMap m =>
    match assoc m s_id, assoc m s_type with
    | None, _ => SigmaErr ERelated
    | _, None => SigmaErr ERelated
    | Some i, Some t =>
      if negb (is_str i) then SigmaErr ERelated
      else match py_uuid i with
           | Ok _ =>
             if negb (is_str t) then SigmaErr ERelated
             else u <- py_upper t ;; if in_strs u related_types then Ok tt else SigmaErr ERelated
           | Crash c => if N.eqb c X_Value then SigmaErr ERelated else Crash c
           | SigmaErr e => SigmaErr e
           end
    end
  | _ => SigmaErr ERelated
  end.
Definition st_related : step := fun d =>
  v <- dget d s_related ;;
  match v with
  | YNull => Ok []
  | YList l => match iter_out related_item l with
               | Ok _ => Ok []
               | SigmaErr e => if N.eqb e ERelated then Ok [e] else SigmaErr e
               | Crash c => Crash c
               end
  | _ => Ok [ERelated]
  end.

Definition levels : list str := [s_INFORMATIONAL; s_LOW; s_MEDIUM; s_HIGH; s_CRITICAL].
Definition statuses : list str := [s_UNSUPPORTED; s_DEPRECATED; s_EXPERIMENTAL; s_TEST; s_STABLE].
(* Enum[v.upper()] guarded by isinstance(v, str) *)
Definition enum_step (key : str) (names : list str) (err : N) : step := fun d =>
  v <- dget d key ;;
  if is_null v then Ok []
  else if negb (is_str v) then Ok [err]
  else u <- py_upper v ;; Ok (if in_strs u names then [] else [err]).
Definition st_level : step := enum_step s_level levels ELevel.
Definition st_status : step := enum_step s_status statuses EStatus.

(* SigmaRuleTag.from_str: tag.split(".", maxsplit=1) must give two parts *)
Definition tag_errors (t : yv) : list N :=
  match t with
  | YStr s => if mem c_dot s then [] else [EValue]
  | _ => [ETag]
  end.
Definition st_tags : step := fun d =>
  o <- dget_opt d s_tags ;;
  Ok match o with
     | None | Some YNull => []
     | Some (YList l) => flat_map tag_errors l
     | Some _ => [ETag]
     end.

(* get_rule_as_date: the two accepted patterns and datetime.date's own validation *)
Definition digit (c : char) : bool := N.leb 48 c && N.leb c 57.
Definition dval (c : char) : N := c - 48.
Definition leap (y : N) : bool :=
  (N.eqb (y mod 4) 0 && negb (N.eqb (y mod 100) 0)) || N.eqb (y mod 400) 0.
Definition days_in_month (y m : N) : N :=
  if N.eqb m 2 then (if leap y then 29 else 28)
  else if N.eqb m 4 || N.eqb m 6 || N.eqb m 9 || N.eqb m 11 then 30 else 31.
Definition valid_date (y m d : N) : bool :=
  N.leb 1 m && N.leb m 12 && N.leb 1 d && N.leb d (days_in_month y m).
Definition year4 (s : str) : option N :=
  match s with
  | [a; b; c; e] =>
    if N.leb 49 a && N.leb a 51 && digit b && digit c && digit e
    then Some (dval a * 1000 + dval b * 100 + dval c * 10 + dval e) else None
  | _ => None
  end.
(* [01][0-9] resp. [0-3][0-9] when strict, with the first digit optional otherwise *)
Definition two_digits (strict : bool) (maxfirst : N) (s : str) : option N :=
  match s with
  | [a] => if negb strict && digit a then Some (dval a) else None
  | [a; b] => if N.leb 48 a && N.leb a (48 + maxfirst) && digit b then Some (dval a * 10 + dval b) else None
  | _ => None
  end.
Definition date_parts (strict : bool) (parts : list str) : bool :=
  match parts with
  | [y; m; d] =>
    match year4 y, two_digits strict 1 m, two_digits strict 3 d with
    | Some yy, Some mm, Some dd => valid_date yy mm dd
    | _, _, _ => false
    end
  | _ => false
  end.
Definition date_str_ok (s : str) : bool :=
  date_parts true (split c_dash s) || date_parts false (split c_slash s).
Definition date_step (key : str) (err : N) : step := fun d =>
  v <- dget d key ;;
  Ok match v with
     | YNull | YDate => []
     | YStr s => if date_str_ok s then [] else [err]
     | _ => [err]        (* str(value) of a non-string never matches the patterns *)
     end.
Definition st_date : step := date_step s_date EDate.
Definition st_modified : step := date_step s_modified EModified.

Definition list_step (key : str) (err : N) : step := fun d =>
  v <- dget d key ;; Ok (if is_null v || is_list v then [] else [err]).
Definition str_step (key : str) (err : N) : step := fun d =>
  v <- dget d key ;; Ok (if is_null v || is_str v then [] else [err]).
Definition st_title : step := fun d =>
  v <- dget d s_title ;;
  Ok match v with
     | YStr s => if Nat.ltb 256 (length s) then [ETitle] else []
     | _ => [ETitle]
     end.

Definition common_steps : list step :=
  [ st_id; st_name; st_taxonomy; st_related; st_level; st_status; st_tags; st_date; st_modified;
    list_step s_fields EFields; list_step s_falsepositives EFalsePositives;
    str_step s_author EAuthor; str_step s_description EDescription;
    list_step s_references EReferences; st_title; list_step s_scope EScope;
    str_step s_license ELicense ].

Fixpoint run_steps (l : list step) (d : yv) : outcome (list N) :=
  match l with
  | [] => Ok []
  | s :: r => e <- s d ;; es <- run_steps r d ;; Ok (e ++ es)
  end.

(* ------------------------------------------------------------------------------------------ *)
(* SigmaLogSource.from_dict + __post_init__ *)
Definition bad_ls_field (v : yv) : bool := truthy v && negb (is_str v).
Definition logsource_from_dict (v : yv) : outcome unit :=
  m <- ditems v ;;
  let g k := match assoc m k with Some x => x | None => YNull end in
  let c := g s_category in let p := g s_product in let s := g s_service in let f := g s_definition in
  if is_null c && is_null p && is_null s then SigmaErr ELogsource
  else if bad_ls_field c || bad_ls_field p || bad_ls_field s || bad_ls_field f then SigmaErr ELogsource
  else Ok tt.
(* the try/except of SigmaRule.from_dict and SigmaFilter.from_dict around the log source *)
Definition st_logsource : step := fun d =>
  match (v <- ditem d s_logsource ;; logsource_from_dict v) with
  | Ok _ => Ok []
  | SigmaErr e => Ok [e]
  | Crash c => if N.eqb c X_Key || N.eqb c X_Attr then Ok [ELogsource] else Crash c
  end.

(* ------------------------------------------------------------------------------------------ *)
(* detection values and modifiers: only the kind of a value matters for the outcome of loading *)
Inductive vk :=
| KStr (special : bool) (enc : N) (src : str)  (* SigmaString; enc: 0 ASCII, 1 contains U+FEFF, 2 other *)
| KRaw (s : str)                               (* SigmaString.from_str(s): kept verbatim for `re` *)
| KNum | KBool | KNull
| KRegex (pat : str)                           (* pattern text *)
| KCidr | KCompare | KFieldRef | KExists.

Inductive md :=
| MAll | MNeq | MBase64 | MBase64Off | MCased | MCidr | MContains | MStartswith | MEndswith
| MTs | MFlag | MExists | MExpand | MFieldref | MCmp | MRe | MUtf16 | MUtf16be | MWide | MWindash.

Definition md_table : list (str * md) :=
  [ (s_all, MAll); (s_neq, MNeq); (s_base64, MBase64); (s_base64offset, MBase64Off); (s_cased, MCased);
    (s_cidr, MCidr); (s_contains, MContains); (s_day, MTs); (s_dotall, MFlag); (s_endswith, MEndswith);
    (s_exists, MExists); (s_expand, MExpand); (s_fieldref, MFieldref); (s_gt, MCmp); (s_gte, MCmp);
    (s_hour, MTs); (s_i, MFlag); (s_ignorecase, MFlag); (s_lt, MCmp); (s_lte, MCmp); (s_m, MFlag);
    (s_minute, MTs); (s_month, MTs); (s_multiline, MFlag); (s_re, MRe); (s_utf16, MUtf16);
    (s_utf16be, MUtf16be); (s_s, MFlag); (s_startswith, MStartswith); (s_week, MTs); (s_wide, MWide);
    (s_windash, MWindash); (s_year, MTs) ].
Fixpoint md_lookup (t : list (str * md)) (s : str) : option md :=
  match t with [] => None | (n, m) :: r => if str_eqb n s then Some m else md_lookup r s end.
(* [modifier_mapping[mod_id] for mod_id in modifier_ids] ; KeyError -> SigmaModifierError *)
Fixpoint md_all (ids : list str) : outcome (list md) :=
  match ids with
  | [] => Ok []
  | i :: r => match md_lookup md_table i with
              | None => SigmaErr EModifier
              | Some m => ms <- md_all r ;; Ok (m :: ms)
              end
  end.
Definition md_eqb (a b : md) : bool :=
  match a, b with
  | MAll, MAll | MNeq, MNeq | MBase64, MBase64 | MBase64Off, MBase64Off | MCased, MCased | MCidr, MCidr
  | MContains, MContains | MStartswith, MStartswith | MEndswith, MEndswith | MTs, MTs | MFlag, MFlag
  | MExists, MExists | MExpand, MExpand | MFieldref, MFieldref | MCmp, MCmp | MRe, MRe | MUtf16, MUtf16
  | MUtf16be, MUtf16be | MWide, MWide | MWindash, MWindash => true
  | _, _ => false
  end.
Definition is_list_mod (m : md) : bool := match m with MAll | MNeq => true | _ => false end.

(* sigma_type(v) *)
Definition sigma_type (v : yv) : outcome vk :=
  match v with
  | YBool _ => Ok KBool
  | YInt z => if float_overflow z then SigmaErr EValue else Ok KNum
  | YFloat k => if N.eqb k 1 || N.eqb k 2 then SigmaErr EValue else Ok KNum
  | YStr s => Ok (KStr (contains_special (parse true s)) (if is_ascii s then 0 else 2) s)
  | YNull => Ok KNull
  | _ => SigmaErr EType
  end.

Definition is_scalar (v : yv) : bool :=
  match v with YList _ | YMap _ => false | _ => true end.

(* the utf-16 re-encoding trick of wide/utf16/utf16be *)
Definition wide_like (enc : N) (out_enc : N) (special : bool) (src : str) : outcome vk :=
  if N.eqb enc 2 then Crash X_Unmodelled       (* other non-ASCII text: depends on the byte sequence *)
  else if N.eqb enc 1 then SigmaErr EValue     (* U+FEFF re-encodes to FF FE, never valid UTF-8 *)
  else Ok (KStr special out_enc src).

(* contains / startswith / endswith on a regular expression: ".*" is put in front unless the pattern
   starts with ".*" or "^", and behind unless it ends with ".*" or "$" (both tests on the old text) *)
Definition dotstar : str := [46; 42].
Definition affix_regex (front back : bool) (p : str) : str :=
  let f := front && negb (prefixb dotstar p) && negb (prefixb [94] p) in
  let b := back && negb (prefixb [42; 46] (rev p)) && negb (prefixb [36] (rev p)) in
  (if f then dotstar else []) ++ p ++ (if b then dotstar else []).

(* SigmaModifier.apply on one (non-expansion) value: type_check, then modify *)
Definition apply_value_mod (m : md) (field_none applied : bool) (v : vk) : outcome vk :=
  match m, v with
  | (MContains | MStartswith | MEndswith), KStr _ e s => Ok (KStr true e s)
  | (MContains | MStartswith | MEndswith), KRaw s => Ok (KRaw s)
  | (MContains | MStartswith | MEndswith), KRegex p =>
      (* (repaired) regexp_str[:1] / regexp_str[-1:] instead of indexing the empty pattern; val.compile() *)
      let p' := affix_regex (negb (md_eqb m MStartswith)) (negb (md_eqb m MEndswith)) p in
      if re_ok L p' then Ok (KRegex p') else SigmaErr ERegex
  | (MContains | MStartswith | MEndswith), KFieldRef => Ok KFieldRef
  | (MBase64 | MBase64Off), KStr sp e s => if sp then SigmaErr EValue else Ok (KStr false 0 s)
  | (MBase64 | MBase64Off), KRaw s => Ok (KRaw s)
  | MWide, KStr sp e s => wide_like e 0 sp s
  | MUtf16be, KStr sp e s => wide_like e 0 sp s
  | MUtf16, KStr sp e s => wide_like e 1 sp s
  | (MWide | MUtf16 | MUtf16be), KRaw s => if is_ascii s then Ok (KRaw s) else Crash X_Unmodelled
  | MWindash, KStr sp e s => Ok (KStr sp e s)
  | MWindash, KRaw s => Ok (KRaw s)
  | MCased, KStr sp e s => Ok (KStr sp e s)
  | MCased, KRaw s => Ok (KRaw s)
  | MExpand, KStr sp e s => Ok (KStr sp e s)
  | MExpand, KRaw s => Ok (KRaw s)
  | MExpand, KRegex p => Ok (KRegex p)
  | MFieldref, KStr sp e s => if sp then SigmaErr EValue else Ok KFieldRef
  | MFieldref, KRaw s => Ok KFieldRef
  | MCidr, KStr sp e s => if applied then SigmaErr EValue else if cidr_ok L s then Ok KCidr else SigmaErr EType
  | MCidr, KRaw s => if applied then SigmaErr EValue else if cidr_ok L s then Ok KCidr else SigmaErr EType
  | MRe, KRaw s =>
      if applied then SigmaErr EValue else if re_ok L s then Ok (KRegex s) else SigmaErr ERegex
  | MRe, KStr _ _ s =>                                 (* (not reached from from_mapping: with `re` every str value is KRaw) *)
      if applied then SigmaErr EValue else if re_ok L s then Ok (KRegex s) else SigmaErr ERegex
  | MFlag, KRegex p => Ok (KRegex p)
  | MCmp, KNum => Ok KCompare
  | MTs, KNum => Ok KNum
  | MExists, KBool => if field_none || applied then SigmaErr EValue else Ok KExists
  | (MAll | MNeq), _ => Ok v
  | (MFlag | MCmp | MTs | MExists), _ => SigmaErr EType
  | MRe, _ => SigmaErr EType
  | _, _ => SigmaErr EType
  end.

Fixpoint apply_mods (mods : list md) (field_none applied : bool) (vals : list vk) : outcome unit :=
  match mods with
  | [] => Ok tt
  | m :: r =>
    if is_list_mod m then apply_mods r field_none true vals
    else vals' <- map_out (apply_value_mod m field_none applied) vals ;; apply_mods r field_none true vals'
  end.

(* SigmaDetectionItem.from_mapping(key, val); key YNull = keyword item *)
Definition from_mapping (key val : yv) : outcome unit :=
  parts <- (if is_null key then Ok [[]]
            else if negb (is_str key) then SigmaErr EDetection       (* (repaired) *)
            else py_split_pipe key) ;;
  let field_none := match parts with [] :: _ => true | [] => true | _ => false end in
  mods <- md_all (tl parts) ;;
  let val_list := match val with YList l => l | v => [v] end in
  (* with `re` a str value is kept verbatim; every other value is typed as usual (and then rejected by `re`) *)
  let has_re := existsb (md_eqb MRe) mods in
  vals <- map_out (fun v => match v with YStr s => if has_re then Ok (KRaw s) else sigma_type v | _ => sigma_type v end) val_list ;;
  apply_mods mods field_none false vals.

Definition is_plain (v : yv) : bool :=
  match v with YStr _ | YInt _ | YFloat _ | YBool _ | YNull => true | _ => false end.

(* SigmaDetection.from_definition + __post_init__ ("Detection is empty") *)
Fixpoint from_def (d : yv) : outcome unit :=
  match d with
  | YMap m =>
    _ <- (fix go (m : list (yv * yv)) : outcome unit :=
            match m with [] => Ok tt | (k, v) :: r => _ <- from_mapping k v ;; go r end) m ;;
    match m with [] => SigmaErr EDetection | _ => Ok tt end
  | YList l =>
    if forallb is_plain l then from_mapping YNull (YList l)
    else (fix go (l : list yv) : outcome unit :=
            match l with [] => Ok tt | x :: r => _ <- from_def x ;; go r end) l
  | YDate => SigmaErr EDetection
  | _ => from_mapping YNull d
  end.

(* the named detections of a section: every key except the reserved ones *)
Fixpoint named_defs (reserved : list str) (m : list (yv * yv)) : list yv :=
  match m with
  | [] => []
  | (k, v) :: r => if existsb (key_is k) reserved then named_defs reserved r else v :: named_defs reserved r
  end.

(* SigmaDetections.from_dict + __post_init__ *)
Definition detections_from_dict (v : yv) : outcome unit :=
  c <- catch (ditem v s_condition) X_Key (SigmaErr ECondition) ;;
  m <- ditems v ;;
  let defs := named_defs [s_condition] m in
  _ <- iter_out from_def defs ;;
  match defs with
  | [] => SigmaErr EDetection
  | _ => match c with YList [] => SigmaErr ECondition | _ => Ok tt end
  end.
Definition st_detection : step := fun d =>
  match (v <- ditem d s_detection ;; detections_from_dict v) with
  | Ok _ => Ok []
  | SigmaErr e => Ok [e]
  | Crash c => if N.eqb c X_Key || N.eqb c X_Type then Ok [EDetection] else Crash c
  end.

(* ------------------------------------------------------------------------------------------ *)
(* The shape shared by the three from_dict methods:
     kwargs, errors = from_dict_common_params(...)      (raises errors[0] unless collecting)
     <specific steps appending to errors>
     if not collect_errors and errors: raise errors[0]
     return cls(..., errors=errors)                      (constructor / __post_init__ may raise) *)
Definition raise_first (collect : bool) (errs : list N) : outcome unit :=
  if collect then Ok tt else match errs with [] => Ok tt | e :: _ => SigmaErr e end.
Definition load_with (stage2 : step) (final : yv -> outcome unit) (collect : bool) (d : yv)
  : outcome (list N) :=
  e1 <- run_steps common_steps d ;;
  _ <- raise_first collect e1 ;;
  e2 <- stage2 d ;;
  _ <- raise_first collect (e1 ++ e2) ;;
  _ <- final d ;;
  Ok (e1 ++ e2).

(* SigmaRuleBase.__post_init__: (repaired) only a str id is converted, ValueError ignored *)
Definition base_post_init (d : yv) : outcome unit :=
  v <- dget d s_id ;;
  if is_str v then catch (py_uuid v) X_Value (Ok tt) else Ok tt.

Definition rule_stage2 : step := run_steps [st_logsource; st_detection].
Definition load_rule : bool -> yv -> outcome (list N) := load_with rule_stage2 base_post_init.

(* ------------------------------------------------------------------------------------------ *)
(* SigmaFilter.from_dict / SigmaGlobalFilter.from_dict *)
Definition global_filter_from_dict (v : yv) : outcome unit :=
  c <- catch (ditem v s_condition) X_Key (SigmaErr EFilterCond) ;;
  _ <- (if is_str c then Ok tt else SigmaErr EFilterCond) ;;
  r <- catch (ditem v s_rules) X_Key (SigmaErr EFilterRef) ;;
  _ <- (if is_str r || is_list r then Ok tt else SigmaErr EFilterRef) ;;
  m <- ditems v ;;
  let defs := named_defs [s_condition; s_rules] m in
  _ <- iter_out from_def defs ;;
  match defs with [] => SigmaErr EDetection | _ => Ok tt end.
Definition st_filter : step := fun d =>
  match (v <- ditem d s_filter ;; global_filter_from_dict v) with
  | Ok _ => Ok []
  | SigmaErr e => Ok [e]
  | Crash c => if N.eqb c X_Key || N.eqb c X_Type then Ok [EFilter] else Crash c
  end.
Definition filter_stage2 : step := run_steps [st_logsource; st_filter].
Definition load_filter : bool -> yv -> outcome (list N) := load_with filter_stage2 base_post_init.

(* ------------------------------------------------------------------------------------------ *)
(* SigmaCorrelationRule.from_dict *)
Definition ctypes : list str :=
  [s_EVENT_COUNT; s_VALUE_COUNT; s_TEMPORAL; s_TEMPORAL_ORDERED; s_VALUE_SUM; s_VALUE_AVG;
   s_VALUE_PERCENTILE; s_VALUE_MEDIAN].
(* value of the local `correlation_type` after the type block *)
Inductive ctype := CTNone | CTBad | CTTemporal | CTValue | CTEvent.
Definition ctype_of (u : str) : ctype :=
  if str_eqb u s_TEMPORAL || str_eqb u s_TEMPORAL_ORDERED then CTTemporal
  else if str_eqb u s_EVENT_COUNT then CTEvent
  else if in_strs u ctypes then CTValue else CTBad.
Definition is_temporal (t : ctype) : bool := match t with CTTemporal => true | _ => false end.

(* rule.get("correlation", dict()), (repaired) replaced by {} unless it is a dict *)
Definition corr_section (d : yv) : outcome (yv * list N) :=
  o <- dget_opt d s_correlation ;;
  match o with
  | None => Ok (YMap [], [])
  | Some (YMap m) => Ok (YMap m, [])
  | Some _ => Ok (YMap [], [ECorrRule])
  end.
Definition corr_type (c : yv) : outcome (ctype * list N) :=
  t <- dget c s_type ;;
  if is_null t then Ok (CTNone, [ECorrType])
  else if negb (is_str t) then Ok (CTNone, [ECorrType])        (* (repaired) *)
  else u <- py_upper t ;;
       let ct := ctype_of u in Ok (ct, match ct with CTBad => [ECorrType] | _ => [] end).
(* rules: Some l = the reference list handed to the constructor *)
Definition corr_rules (c : yv) (t : ctype) : outcome (list yv * list N) :=
  r <- dget c s_rules ;;
  Ok match r with
     | YNull => ([], if is_temporal t then [] else [ECorrRule])
     | YStr s => ([YStr s], [])
     | YList l => (l, [])
     | _ => ([], [ECorrRule])
     end.
Definition corr_generate (c : yv) : outcome (list N) :=
  g <- dget c s_generate ;; Ok (if is_null g || is_bool g then [] else [ECorrRule]).
Definition corr_groupby (c : yv) : outcome (list N) :=
  g <- dget c s_group_by ;; Ok (if is_null g || is_str g || is_list g then [] else [ECorrRule]).
(* SigmaCorrelationTimespan(spec): (repaired) non-strings rejected before slicing *)
Definition unit_chars : str := [115; 109; 104; 100; 119; 77; 121].   (* s m h d w M y *)
Definition timespan_ok (s : str) : bool :=
  match rev s with
  | [] => false
  | u :: p => int_ok L (rev p) && mem u unit_chars
  end.
Definition corr_timespan (c : yv) : outcome (list N) :=
  t <- dget c s_timespan ;;
  Ok match t with
     | YNull => [ECorrRule]
     | YStr s => if timespan_ok s then [] else [ETimespan]
     | _ => [ETimespan]
     end.
(* SigmaCorrelationFieldAliases.from_dict raises (not appended) when a mapping is not a dict *)
Definition corr_aliases (c : yv) : outcome (list N) :=
  a <- dget c s_aliases ;;
  match a with
  | YNull => Ok []
  | YMap m => if forallb (fun kv => is_map (snd kv)) m then Ok [] else SigmaErr ECorrRule
  | _ => Ok [ECorrRule]
  end.

Definition cond_ops : list str := [s_lt; s_lte; s_gt; s_gte; s_eq; s_neq].
(* the local `condition` after the condition block *)
Inductive ccond :=
| CNone                          (* (repaired) initialised to None *)
| CBasic (has_field : bool)      (* SigmaCorrelationCondition; fieldref is not None *)
| CExt (refs : list str).        (* SigmaExtendedCorrelationCondition and its identifiers *)
(* int(x) inside try/except (ValueError, TypeError, OverflowError) (repaired) *)
Definition int_or_cond_error (v : yv) : outcome unit :=
  match py_int v with
  | Ok _ => Ok tt
  | Crash c => if N.eqb c X_Value || N.eqb c X_Type || N.eqb c X_Overflow then SigmaErr ECorrCond else Crash c
  | SigmaErr e => SigmaErr e
  end.
Definition key_in (l : list str) (k : yv) : bool := existsb (key_is k) l.
(* SigmaCorrelationCondition.from_dict *)
Definition basic_condition (m : list (yv * yv)) : outcome ccond :=
  let ops := filter (fun kv => key_in cond_ops (fst kv)) m in
  match ops with
  | [(_, cnt)] =>
    if existsb (fun kv => negb (key_in (cond_ops ++ [s_field; s_percentile]) (fst kv))) m
    then SigmaErr ECorrCond
    else _ <- int_or_cond_error cnt ;;
         _ <- match assoc m s_percentile with None => Ok tt | Some p => int_or_cond_error p end ;;
         Ok (CBasic (match assoc m s_field with None | Some YNull => false | Some _ => true end))
  | _ => SigmaErr ECorrCond
  end.
Definition corr_condition (c : yv) (t : ctype) (nrules : nat) : outcome (ccond * list N) :=
  v <- dget c s_condition ;;
  match v with
  | YNull => Ok (if is_temporal t then (CBasic false, []) else (CNone, [ECorrRule]))
  | YMap m => k <- basic_condition m ;; Ok (k, [])
  | YStr s =>
    if negb (is_temporal t) then Ok (CNone, [ECorrRule])
    else match ext_refs L s with
         | Some refs => Ok (CExt refs, [])
         | None => Ok (CNone, [ECorrCond])
         end
  | _ => Ok (CNone, [ECorrRule])
  end.

Record cstate := { cs_type : ctype; cs_rules : list yv; cs_cond : ccond }.
Definition corr_parse (d : yv) : outcome (cstate * list N) :=
  r0 <- corr_section d ;; let c := fst r0 in
  r1 <- corr_type c ;; let t := fst r1 in
  r2 <- corr_rules c t ;; let rules := fst r2 in
  e3 <- corr_generate c ;;
  e4 <- corr_groupby c ;;
  e5 <- corr_timespan c ;;
  e6 <- corr_aliases c ;;
  r7 <- corr_condition c t (length rules) ;;
  Ok ({| cs_type := t; cs_rules := rules; cs_cond := fst r7 |},
      snd r0 ++ snd r1 ++ snd r2 ++ e3 ++ e4 ++ e5 ++ e6 ++ snd r7).
Definition corr_stage2 : step := fun d => r <- corr_parse d ;; Ok (snd r).

(* {rule.reference for rule in self.rules}: hashing a list/dict reference raises TypeError *)
Definition hashable (v : yv) : bool := match v with YList _ | YMap _ => false | _ => true end.
Definition ref_in (refs : list str) (v : yv) : bool := match v with YStr s => in_strs s refs | _ => false end.
(* SigmaCorrelationRule.__post_init__ (after SigmaRuleBase.__post_init__) *)
Definition corr_post_init (s : cstate) : outcome unit :=
  let t := cs_type s in
  (* "Convert empty rules list to None if using extended condition" *)
  let rules_none := match cs_rules s, cs_cond s with [], CExt _ => true | _, _ => false end in
  _ <- match cs_cond s with
       | CExt refs =>
         if negb (is_temporal t) then SigmaErr ECorrCond
         else if rules_none then Ok tt
         else if negb (forallb hashable (cs_rules s)) then Crash X_Type
         else let unref := filter (fun r => negb (ref_in refs r)) (cs_rules s) in
              match unref with
              | _ :: _ =>
                (* ', '.join(sorted(unreferenced_rules)): a non-str element raises TypeError, in sorted() when
                   compared with another element and in join() otherwise *)
                if forallb is_str unref then SigmaErr ECorrCond else Crash X_Type
              | [] =>
                if forallb (fun r => existsb (fun v => key_is v r) (cs_rules s)) refs then Ok tt
                else SigmaErr ECorrCond
              end
       | _ => Ok tt
       end ;;
  match cs_cond s with
  | CBasic has_field =>
    match t with CTValue => if has_field then Ok tt else SigmaErr ECorrRule | _ => Ok tt end
  | CNone | CExt _ => if is_temporal t then Ok tt else SigmaErr ECorrRule
  end.
Definition corr_final (d : yv) : outcome unit :=
  _ <- base_post_init d ;;
  r <- corr_parse d ;; corr_post_init (fst r).
Definition load_corr : bool -> yv -> outcome (list N) := load_with corr_stage2 corr_final.

End Loader.

(* the three single-document loaders under one name *)
Inductive kind := KRule | KCorr | KFilter.
Definition load (L : lib) (k : kind) : bool -> yv -> outcome (list N) :=
  match k with KRule => load_rule L | KCorr => load_corr L | KFilter => load_filter L end.
