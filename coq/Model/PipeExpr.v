(* Model of sigma/processing/condition_expressions.py: parse_condition_expression (pyparsing
   infix_notation over Word(alphanums+"_-") with the operators not / and / or as *keywords* over
   the identifier character set) and the evaluator (ConditionIdentifier / ConditionNOT /
   ConditionAND / ConditionOR, methods match, match_detection_item, match_field_name).  Definitions only. *)
From Coq Require Import NArith List Bool.
From PS Require Import Base.Chars Base.Outcome.
Import ListNotations.
Open Scope N_scope.

(* ---- lexical level: pyparsing skips " \t\n\r" before every element; Word takes the maximal run
   of identifier characters; Keyword("not", ident_chars) matches iff that maximal run is "not" ---- *)
Inductive tok := TW (w : str) | TL | TR.

Definition is_ident_char (c : char) : bool :=
  ((48 <=? c) && (c <=? 57)) || ((65 <=? c) && (c <=? 90)) || ((97 <=? c) && (c <=? 122))
  || (c =? 95) || (c =? 45).
Definition is_ws (c : char) : bool := (c =? 32) || (c =? 9) || (c =? 10) || (c =? 13).

Definition flush (cur : str) (k : list tok) : list tok :=
  match cur with [] => k | _ => TW (rev cur) :: k end.

(* cur: the identifier being read, reversed.  None: a character that no element of the grammar accepts *)
Fixpoint lex (cur : str) (s : str) : option (list tok) :=
  match s with
  | [] => Some (flush cur [])
  | c :: s' =>
    if is_ident_char c then lex (c :: cur) s'
    else if is_ws c then option_map (flush cur) (lex [] s')
    else if c =? c_lpar then option_map (fun k => flush cur (TL :: k)) (lex [] s')
    else if c =? c_rpar then option_map (fun k => flush cur (TR :: k)) (lex [] s')
    else None
  end.

Definition w_not : str := [110; 111; 116].
Definition w_and : str := [97; 110; 100].
Definition w_or : str := [111; 114].
Definition is_kw (w : str) : bool := str_eqb w w_not || str_eqb w w_and || str_eqb w w_or.

(* ---- syntax tree: BinaryConditionOp.from_parsed builds a left-associative binary tree ---- *)
Inductive ex := EId (w : str) | ENot (e : ex) | EAnd (a b : ex) | EOr (a b : ex).

Inductive pres := Fail | OutOfFuel | Parsed (e : ex) (rest : list tok).

Definition op_word (lv : nat) : str := match lv with 2%nat => w_and | _ => w_or end.
Definition mk_bin (lv : nat) (a b : ex) : ex := match lv with 2%nat => EAnd a b | _ => EOr a b end.

(* levels: 0 operand (identifier | parenthesised expression), 1 not (right assoc., prefix),
   2 and (left assoc.), 3 or (left assoc.).  pyparsing is an ordered-choice parser: at level 1
   the word "not" is the operator if an operand follows, otherwise it is an identifier; a binary
   level repeats (operator operand) as long as that succeeds. *)
Fixpoint pe (f : nat) (lv : nat) (ts : list tok) {struct f} : pres :=
  match f with O => OutOfFuel | S f' =>
    match lv with
    | O => match ts with
           | TW w :: r => Parsed (EId w) r
           | TL :: r => match pe f' 3 r with
                        | Parsed e (TR :: r') => Parsed e r'
                        | Parsed _ _ => Fail
                        | x => x end
           | _ => Fail end
    | 1%nat => match ts with
           | TW w :: r =>
             if str_eqb w w_not then
               match pe f' 1 r with
               | Parsed e r' => Parsed (ENot e) r'
               | Fail => pe f' 0 ts
               | OutOfFuel => OutOfFuel end
             else pe f' 0 ts
           | _ => pe f' 0 ts end
    | S k => match pe f' k ts with
             | Parsed e r => loop f' lv e r
             | x => x end
    end
  end
with loop (f : nat) (lv : nat) (acc : ex) (ts : list tok) {struct f} : pres :=
  match f with O => OutOfFuel | S f' =>
    match ts with
    | TW w :: r =>
      if str_eqb w (op_word lv) then
        match pe f' (Nat.pred lv) r with
        | Parsed e r' => loop f' lv (mk_bin lv acc e) r'
        | Fail => Parsed acc ts
        | OutOfFuel => OutOfFuel end
      else Parsed acc ts
    | _ => Parsed acc ts
    end
  end.

Definition fuel_for (ts : list tok) : nat := (8 * length ts + 8)%nat.

Definition parse_tokens (ts : list tok) : option ex :=
  match pe (fuel_for ts) 3 ts with
  | Parsed e [] => Some e
  | _ => None
  end.

(* parse_condition_expression: None = SigmaPipelineConditionError (parse_all=True) *)
Definition parse_expr (s : str) : option ex :=
  match lex [] s with
  | Some ts => parse_tokens ts
  | None => None
  end.

(* ---- resolve: identifiers in order of a left-to-right traversal ---- *)
Fixpoint ids (e : ex) : list str :=
  match e with
  | EId w => [w]
  | ENot a => ids a
  | EAnd a b | EOr a b => ids a ++ ids b
  end.

(* ---- evaluation: BinaryConditionOp.match builds the list [left, right] first, so both
   operands are always evaluated, left before right ---- *)
Fixpoint eval_ex (env : str -> outcome bool) (e : ex) : outcome bool :=
  match e with
  | EId w => env w
  | ENot a => obind (eval_ex env a) (fun x => Ok (negb x))
  | EAnd a b => obind (eval_ex env a) (fun x => obind (eval_ex env b) (fun y => Ok (x && y)))
  | EOr a b => obind (eval_ex env a) (fun x => obind (eval_ex env b) (fun y => Ok (x || y)))
  end.
