(* C02 - model of the condition grammar of sigma/conditions.py (after the Keyword repair, D6).

   pyparsing is scannerless; the model has two layers whose composition is what the
   correspondence check compares with SigmaCondition.parse(False):

   (1) lex: blanks (space, tab, LF, CR = pyparsing's default whitespace) separate; a word is a
       maximal run over [A-Za-z0-9_*-]; '(' and ')' are single tokens; every other character is
       an error (pyparsing cannot consume it, parse_all=True then fails; this also covers the
       explicit '|' test in SigmaCondition.parse).
   (2) pe/loop: a token-level PEG that mirrors infix_notation(operand, [not/1/RIGHT, and/2/LEFT,
       or/2/LEFT]) as pyparsing 3 builds it:
         L0 := selector | identifier | '(' L3 ')'
         L1 := FB('not' L1) Group('not' L1)            | L0
         L2 := FB(L1 'and' L1) Group(L1 ('and' L1)+)    | L1
         L3 := FB(L2 'or' L2)  Group(L2 ('or' L2)+)     | L2
       with ordered choice and no backtracking into a successful alternative, so that
         - a reserved word is an identifier where the operator reading fails ("not" alone, "a and not"),
         - an operator whose right operand fails ends the repetition and is left unconsumed,
         - Group(... )[0::2] gives n-ary AND/OR nodes for a run of the same operator, no node for a
           single operand, and parentheses are not flattened.
       One scannerless quirk is reproduced: Keyword("of") uses pyparsing's default identifier
       characters (no '*'), hence "1 of*x" is read as the selector 1 of "*x".

   The parser is generic in the algebra that receives the nodes: it is instantiated with trees
   (compared with the implementation) and with truth values (used by the proofs, see
   Proofs/CondParseP.v: pe_hom). *)
From Coq Require Import NArith List Bool Arith.
From PS Require Import Base.Chars Base.Outcome.
Import ListNotations.
Open Scope N_scope.

Inductive tok := TW (w : str) | TL | TR.
Inductive quant := Q1 | QAny | QAll.
Inductive bop := BAnd | BOr.

Definition w_not : str := [110;111;116].
Definition w_and : str := [97;110;100].
Definition w_or  : str := [111;114].
Definition w_of  : str := [111;102].
Definition w_1   : str := [49].
Definition w_any : str := [97;110;121].
Definition w_all : str := [97;108;108].
Definition w_them : str := [116;104;101;109].

Definition is_alnum (c : char) : bool :=
  ((48 <=? c) && (c <=? 57)) || ((65 <=? c) && (c <=? 90)) || ((97 <=? c) && (c <=? 122)).
Definition is_identc (c : char) : bool := is_alnum c || (c =? c_us) || (c =? c_dash).   (* Word(alphanums + "_-") *)
Definition is_patc (c : char) : bool := is_alnum c || (c =? c_us) || (c =? c_star).     (* Word(alphanums + "*_") *)
Definition is_wordc (c : char) : bool := is_identc c || (c =? c_star).
Definition is_blank (c : char) : bool := (c =? 32) || (c =? 9) || (c =? 10) || (c =? 13).

Definition nonempty {A} (l : list A) : bool := match l with [] => false | _ => true end.
Definition is_ident (w : str) : bool := nonempty w && forallb is_identc w.
Definition is_pat (w : str) : bool := nonempty w && forallb is_patc w.

(* ---------- layer 1: lexer ---------- *)
Definition flush (cur : str) (ts : list tok) : list tok :=
  match cur with [] => ts | _ => TW (rev cur) :: ts end.

Definition omap {A B} (f : A -> B) (x : outcome A) : outcome B :=
  match x with Ok a => Ok (f a) | SigmaErr c => SigmaErr c | Crash c => Crash c end.

(* cur: the characters of the word being read, reversed *)
Fixpoint lex (s : str) (cur : str) : outcome (list tok) :=
  match s with
  | [] => Ok (flush cur [])
  | c :: r =>
      if is_wordc c then lex r (c :: cur)
      else if is_blank c then omap (flush cur) (lex r [])
      else if c =? c_lpar then omap (fun ts => flush cur (TL :: ts)) (lex r [])
      else if c =? c_rpar then omap (fun ts => flush cur (TR :: ts)) (lex r [])
      else SigmaErr E_Condition
  end.

(* ---------- layer 2: token-level PEG ---------- *)
Inductive pres (X : Type) := Done (x : X) | Fail | OutOfFuel.
Arguments Done {X} x.
Arguments Fail {X}.
Arguments OutOfFuel {X}.

Definition quant_of (w : str) : option quant :=
  if str_eqb w w_1 then Some Q1 else if str_eqb w w_any then Some QAny
  else if str_eqb w w_all then Some QAll else None.
Definition qword (q : quant) : str := match q with Q1 => w_1 | QAny => w_any | QAll => w_all end.
Definition opw (o : bop) : str := match o with BAnd => w_and | BOr => w_or end.

Section Parser.
  Context {A : Type}.
  Variable a_id : str -> A.
  Variable a_sel : quant -> str -> A.
  Variable a_not : A -> A.
  Variable a_bin : bop -> list A -> A.

  (* selector := quantifier + Keyword("of") + Word(alphanums + "*_") *)
  Definition sel (ts : list tok) : option (A * list tok) :=
    match ts with
    | TW q :: TW o :: r =>
        match quant_of q with
        | Some qq =>
            if str_eqb o w_of then
              match r with
              | TW p :: r' => if is_pat p then Some (a_sel qq p, r') else None
              | _ => None
              end
            else match o with
                 | c1 :: c2 :: c3 :: p' =>             (* "of*..." : Keyword("of") ends before '*' *)
                     if (c1 =? 111) && (c2 =? 102) && (c3 =? c_star) && forallb is_patc p'
                     then Some (a_sel qq (c_star :: p'), r) else None
                 | _ => None
                 end
        | None => None
        end
    | _ => None
    end.

  (* Group(x (op x)+) with the [0::2] of from_parsed; no node for a single operand *)
  Definition fin (o : bop) (l : list A) : A := match l with [x] => x | _ => a_bin o l end.

  Definition lvl_op (k : nat) : bop := match k with 1%nat => BAnd | _ => BOr end.

  Fixpoint pe (f : nat) (i : nat) (ts : list tok) {struct f} : pres (A * list tok) :=
    match f with
    | O => OutOfFuel
    | S f' =>
        match i with
        | 0%nat =>
            match sel ts with
            | Some x => Done x
            | None =>
                match ts with
                | TW w :: r => if is_ident w then Done (a_id w, r) else Fail
                | TL :: r =>
                    match pe f' 3 r with
                    | Done (v, TR :: r') => Done (v, r')
                    | Done _ => Fail
                    | Fail => Fail
                    | OutOfFuel => OutOfFuel
                    end
                | _ => Fail
                end
            end
        | 1%nat =>
            match ts with
            | TW w :: r =>
                if str_eqb w w_not then
                  match pe f' 1 r with
                  | Done (v, r') => Done (a_not v, r')
                  | Fail => pe f' 0 ts                 (* MatchFirst: "not" read as an identifier *)
                  | OutOfFuel => OutOfFuel
                  end
                else pe f' 0 ts
            | _ => pe f' 0 ts
            end
        | S k =>
            match pe f' k ts with
            | Done (v, r) => loop f' (lvl_op k) k [v] r
            | Fail => Fail
            | OutOfFuel => OutOfFuel
            end
        end
    end
  with loop (f : nat) (o : bop) (k : nat) (acc : list A) (r : list tok) {struct f} : pres (A * list tok) :=
    match f with
    | O => OutOfFuel
    | S f' =>
        match r with
        | TW w :: r' =>
            if str_eqb w (opw o) then
              match pe f' k r' with
              | Done (v', r'') => loop f' o k (v' :: acc) r''
              | Fail => Done (fin o (rev acc), r)      (* repetition ends, operator stays unconsumed *)
              | OutOfFuel => OutOfFuel
              end
            else Done (fin o (rev acc), r)
        | _ => Done (fin o (rev acc), r)
        end
    end.

  Definition fuel_for (ts : list tok) : nat := 4 * length ts + 4.

  (* condition.parse_string(s, parse_all=True)[0] on the token level *)
  Definition parse_toks (ts : list tok) : pres A :=
    match pe (fuel_for ts) 3 ts with
    | Done (v, []) => Done v
    | Done _ => Fail
    | Fail => Fail
    | OutOfFuel => OutOfFuel
    end.
End Parser.

(* ---------- instance: parse trees (SigmaCondition.parse(False)) ---------- *)
Inductive ptree :=
| PId (n : str)
| PSel (q : quant) (p : str)
| PNot (t : ptree)
| PAnd (l : list ptree)
| POr (l : list ptree).

Definition t_bin (o : bop) (l : list ptree) : ptree := match o with BAnd => PAnd l | BOr => POr l end.

Definition parse_tree (ts : list tok) : pres ptree := parse_toks PId PSel PNot t_bin ts.

Definition E_Fuel : N := 77.   (* never produced: Proofs/CondParseP.v parse_never_out_of_fuel *)

Definition parse (s : str) : outcome ptree :=
  match lex s [] with
  | Ok ts => match parse_tree ts with
             | Done t => Ok t
             | Fail => SigmaErr E_Condition
             | OutOfFuel => Crash E_Fuel
             end
  | SigmaErr c => SigmaErr c
  | Crash c => Crash c
  end.
