(* C15 - model of the process-wide state that survives from one conversion to the next, and of the
   operations that read and write it.  Anchors:
     sigma/processing/pipeline.py   ProcessingPipeline per-rule fields (applied, applied_ids,
                                    field_mappings, state), apply() reset, __add__ (clears the owner
                                    link `_pipeline` of every item of both operands; the new pipeline
                                    takes the items over), ProcessingItem.apply / set_pipeline
     sigma/processing/tracking.py   FieldMappingTracking.add_mapping
     sigma/processing/transformations/state.py, fields.py, failure.py; conditions/state.py, rule.py
     sigma/conversion/base.py       Backend.init_processing_pipeline, convert, convert_rule
                                    (collect_errors), TextQueryBackend.not_equals_context_manager
                                    (class attributes swapped and restored in `finally`),
                                    convert_condition_{and,or,not}, compare_precedence
     sigma/conditions.py            _parse_condition_string (lru_cache) + deep copy in parse()
     sigma/modifiers.py             SigmaModifier._type_hint_cache
     sigma/processing/pipeline.py   vars: ProcessingPipeline.__add__ builds a NEW dict {**self.vars, **other.vars};
     sigma/conversion/base.py       init_processing_pipeline updates the vars of the new pipeline object in
                                    place with backend_<option>, backend, output_format.  The dict belongs to
                                    the new pipeline object alone, so dict identity = pipeline object identity
                                    (w_pvars is keyed by pipeline object); the dicts of the operands are never
                                    written.  Readers (value_placeholders) go through the item's owner link.
     sigma/processing/transformations/external.py  ExternalSourceBaseTransformation._values_cache /
                                    _get_values (cache written only after fetch, parse and filter succeeded)
   Object identity that matters is explicit: every processing item object has an id (where it was
   created, position) and an owner link; every "last_processing_pipeline" object has a number.
   Definitions only.  Single-threaded histories. *)
From Coq Require Import NArith List Bool Arith.
From Coq Require Import String Ascii.
From PS Require Import Base.Chars Base.Outcome.
Import ListNotations.
Open Scope N_scope.

Fixpoint lit (s : string) : str :=
  match s with EmptyString => [] | String a r => N_of_ascii a :: lit r end.
Arguments lit s%string.

(* ---------- association lists keyed by strings (Python dict / set, insertion ordered) ---------- *)
Fixpoint lookup {A} (k : str) (l : list (str * A)) : option A :=
  match l with [] => None | (k', v) :: r => if str_eqb k k' then Some v else lookup k r end.
Fixpoint set_assoc {A} (k : str) (v : A) (l : list (str * A)) : list (str * A) :=
  match l with
  | [] => [(k, v)]
  | (k', v') :: r => if str_eqb k k' then (k', v) :: r else (k', v') :: set_assoc k v r
  end.
Fixpoint del_assoc {A} (k : str) (l : list (str * A)) : list (str * A) :=
  match l with [] => [] | (k', v) :: r => if str_eqb k k' then r else (k', v) :: del_assoc k r end.
Definition getd {A} (d : A) (k : str) (l : list (str * A)) : A :=
  match lookup k l with Some v => v | None => d end.
Definition smem (k : str) (l : list str) : bool := existsb (str_eqb k) l.
Definition sadd (k : str) (l : list str) : list str := if smem k l then l else l ++ [k].
Definition srem (k : str) (l : list str) : list str := filter (fun x => negb (str_eqb k x)) l.

(* ---------- rules ---------- *)
Inductive vkind := VNum | VStr | VStar | VPh | VRe | VNull | VStrs (l : list str) | VCt.
   (* number | plain string | string with trailing wildcard (also `|startswith`) | unresolved placeholder
      (di_text = its name) | regular expression | no value at all | list of plain strings (a placeholder
      after replacement; [] renders as null, one value as that string, more as an OR) | *text* (`|contains`) *)
Record ditem := { di_field : str; di_text : str; di_kind : vkind }.
Inductive ptree := PId (n : str) | PNot (t : ptree) | PAnd (l : list ptree) | POr (l : list ptree)
                 | PSel (all : bool) (pat : str).     (* selector: `all of pat` / `1 of pat` (`any of pat`) *)
Record rule := {
  r_bad : option N;                    (* Some tag: loading this document raises that Sigma error *)
  r_mods : list (N * N);               (* modifier applications while loading: (modifier class, type of the value:
                                          0 string, 1 number), each type-checked against the class's modify() hint *)
  r_product : N;                       (* 0 none, 1 windows, 2 linux *)
  r_dets : list (str * list ditem);    (* detections: name -> AND-linked map of field: value *)
  r_conds : list str;                  (* condition strings *)
  r_fields : list str;                 (* the rule's `fields` attribute *)
  r_attrs : list (str * str) }.        (* custom attributes set by transformations *)

(* ---------- pipelines ---------- *)
Inductive rcond := RAlways | RProduct (p : N) | RState (k v : str).
(* query postprocessing items (entries of `postprocessing_items`; in a pipeline definition of this model they follow
   the processing items and share the owner-link bookkeeping): embed with a prefix; a template
   "ix=[{{ pipeline.state.K }}] {{ query }}" reading the state of the pipeline the item is bound to; `nest`, whose
   nested items (identifier, rule condition, transformation) are bound to the nest transformation's own pipeline object *)
Inductive post0 := P0Embed (pre : str) | P0Tpl (k : str).
Inductive post := PTop (p : post0) | PNest (l : list (str * rcond * post0)).
Inductive trans := TSetState (k v : str) | TFieldMap (m : list (str * str)) | TFail | TFile (d : N) | TVars
                 | TSetField (l : list str) | TAddField (l : list str) | TRemoveField (l : list str)
                 | TSetAttr (k v : str) | TSetProduct (p : N)
                 | TPost (p : post).
   (* set_field / add_field / remove_field / set_custom_attribute / change_logsource: they change the rule
      only; the rule gets copies of the configured values (sigma/processing/transformations/fields.py, rule.py) *)
   (* TFile d: file_placeholders transformation reading external source d;
      TVars: value_placeholders, resolving every placeholder from the pipeline variables *)
Definition vars := list (str * list str).    (* pipeline variables: name -> value list (a scalar is one value) *)
Record item := { i_id : str; i_cond : rcond; i_tr : trans }.
   (* identifier: given, or generated from a hash of the definition in __post_init__ - never empty *)

Record pstate := {                     (* the fields reset by ProcessingPipeline.apply *)
  ps_applied : list bool;
  ps_ids : list str;
  ps_state : list (str * str);
  ps_fmap : list (str * list str);     (* FieldMappingTracking: source -> targets *)
  ps_rev : list (str * list str);      (* FieldMappingTracking.target_fields *)
  ps_fna : list (str * list str) }.    (* field_name_applied_ids: field of rule.fields -> items applied *)
Definition ps0 : pstate :=
  {| ps_applied := []; ps_ids := []; ps_state := []; ps_fmap := []; ps_rev := []; ps_fna := [] |}.

Definition E_Transformation : N := 7.

(* FieldMappingTracking.add_mapping for a 1:1 mapping (tracking.py l.44-71).  The loop variable
   `source_field` is used after the loop: only the last source gets the reverse link. *)
Definition add_mapping (s t : str) (ps : pstate) : pstate :=
  let '(fm1, rv1) :=
    match lookup s (ps_rev ps) with
    | Some srcs =>
        let fm' := fold_left (fun m sf => set_assoc sf (sadd t (srem s (getd [] sf m))) m) srcs (ps_fmap ps) in
        let rv' := del_assoc s (ps_rev ps) in
        (fm', match last (map Some srcs) None with
              | Some sf => set_assoc t (sadd sf (getd [] t rv')) rv'
              | None => rv' end)
    | None => (ps_fmap ps, ps_rev ps)
    end in
  {| ps_applied := ps_applied ps; ps_ids := ps_ids ps; ps_state := ps_state ps;
     ps_fmap := set_assoc s (sadd t (getd [] s fm1)) fm1;
     ps_rev := set_assoc t (sadd s (getd [] t rv1)) rv1; ps_fna := ps_fna ps |}.

(* ProcessingPipeline.track_field_processing_items for a 1:1 mapping of a name in rule.fields *)
Definition track_field (id : str) (src dst : str) (ps : pstate) : pstate :=
  if str_eqb src dst then ps else
  {| ps_applied := ps_applied ps; ps_ids := ps_ids ps; ps_state := ps_state ps; ps_fmap := ps_fmap ps; ps_rev := ps_rev ps;
     ps_fna := set_assoc dst (sadd id (getd [] src (ps_fna ps))) (del_assoc src (ps_fna ps)) |}.

Definition set_state (k v : str) (ps : pstate) : pstate :=
  {| ps_applied := ps_applied ps; ps_ids := ps_ids ps; ps_state := set_assoc k v (ps_state ps);
     ps_fmap := ps_fmap ps; ps_rev := ps_rev ps; ps_fna := ps_fna ps |}.

(* ProcessingPipeline.apply l.921-925: applied.append(...), applied_ids.add(identifier) *)
Definition note_applied (it : item) (m : bool) (ps : pstate) : pstate :=
  {| ps_applied := ps_applied ps ++ [m];
     ps_ids := if m then sadd (i_id it) (ps_ids ps) else ps_ids ps;
     ps_state := ps_state ps; ps_fmap := ps_fmap ps; ps_rev := ps_rev ps; ps_fna := ps_fna ps |}.

Definition eval_rcond_st (st : list (str * str)) (r : rule) (c : rcond) : bool :=
  match c with
  | RAlways => true
  | RProduct p => N.eqb (r_product r) p
  | RState k v => match lookup k st with Some v' => str_eqb v' v | None => false end
  end.
Definition eval_rcond (rd : pstate) (r : rule) (c : rcond) : bool := eval_rcond_st (ps_state rd) r c.

Definition map_item (m : list (str * str)) (d : ditem) : ditem :=
  match lookup (di_field d) m with
  | Some f' => {| di_field := f'; di_text := di_text d; di_kind := di_kind d |}
  | None => d end.
Definition mapped_pairs (m : list (str * str)) (r : rule) : list (str * str) :=
  flat_map (fun nd => flat_map (fun d => match lookup (di_field d) m with
                                         | Some f' => [(di_field d, f')] | None => [] end) (snd nd))
           (r_dets r).
Definition mapped_fields (m : list (str * str)) (r : rule) : list (str * str) :=
  flat_map (fun f => match lookup f m with Some f' => [(f, f')] | None => [] end) (r_fields r).
Definition map_rule (m : list (str * str)) (r : rule) : rule :=
  {| r_bad := r_bad r; r_mods := r_mods r; r_product := r_product r;
     r_dets := map (fun nd => (fst nd, map (map_item m) (snd nd))) (r_dets r); r_conds := r_conds r;
     r_fields := map (fun f => getd f f m) (r_fields r); r_attrs := r_attrs r |}.

(* placeholder replacement (BasePlaceholderTransformation.apply_value): every value with a placeholder
   becomes the list of replacement values *)
Definition is_ph (d : ditem) : bool := match di_kind d with VPh => true | _ => false end.
Definition rule_has_ph (r : rule) : bool := existsb (fun nd => existsb is_ph (snd nd)) (r_dets r).
Definition expand_item (vs : list str) (d : ditem) : ditem :=
  if is_ph d then {| di_field := di_field d; di_text := []; di_kind := VStrs vs |} else d.
Definition expand_rule (vs : list str) (r : rule) : rule :=
  {| r_bad := r_bad r; r_mods := r_mods r; r_product := r_product r;
     r_dets := map (fun nd => (fst nd, map (expand_item vs) (snd nd))) (r_dets r); r_conds := r_conds r;
     r_fields := r_fields r; r_attrs := r_attrs r |}.

(* ValueListPlaceholderTransformation: every placeholder is looked up in the variables of the pipeline
   the item's owner link points to; an unknown name raises SigmaValueError *)
Definition expand_item_vars (pv : vars) (d : ditem) : ditem :=
  if is_ph d then {| di_field := di_field d; di_text := []; di_kind := VStrs (getd [] (di_text d) pv) |} else d.
Definition ph_missing (pv : vars) (r : rule) : bool :=
  existsb (fun nd => existsb (fun d => is_ph d && match lookup (di_text d) pv with None => true | Some _ => false end) (snd nd)) (r_dets r).
Definition expand_rule_vars (pv : vars) (r : rule) : rule :=
  {| r_bad := r_bad r; r_mods := r_mods r; r_product := r_product r;
     r_dets := map (fun nd => (fst nd, map (expand_item_vars pv) (snd nd))) (r_dets r); r_conds := r_conds r;
     r_fields := r_fields r; r_attrs := r_attrs r |}.

Definition with_fields (r : rule) (l : list str) : rule :=
  {| r_bad := r_bad r; r_mods := r_mods r; r_product := r_product r; r_dets := r_dets r; r_conds := r_conds r;
     r_fields := l; r_attrs := r_attrs r |}.
(* list.remove: the first occurrence, nothing when absent *)
Fixpoint remove_first (x : str) (l : list str) : list str :=
  match l with [] => [] | y :: r => if str_eqb x y then r else y :: remove_first x r end.

(* one processing item on one rule: what it reads from / writes to the pipeline object its owner
   link points to, and what it does to the rule.  vals: what _get_values() of this transformation
   object returns or raises (only looked at by wants_values items); pv: the variables of the pipeline
   object the owner link points to *)
Record istep := { is_match : bool; is_upd : pstate -> pstate; is_res : rule + N }.
Definition wants_values (rd : pstate) (r : rule) (it : item) : bool :=
  eval_rcond rd r (i_cond it) && match i_tr it with TFile _ => rule_has_ph r | _ => false end.
Definition item_step (rd : pstate) (pv : vars) (r : rule) (it : item) (vals : outcome (list str)) : istep :=
  if eval_rcond rd r (i_cond it) then
    match i_tr it with
    | TSetState k v => {| is_match := true; is_upd := set_state k v; is_res := inl r |}
    | TFieldMap m => {| is_match := true;
                        is_upd := fun ps => fold_left (fun ps p => add_mapping (fst p) (snd p) ps) (mapped_pairs m r)
                                              (fold_left (fun ps p => track_field (i_id it) (fst p) (snd p) ps) (mapped_fields m r) ps);
                        is_res := inl (map_rule m r) |}
    | TFail => {| is_match := true; is_upd := fun ps => ps; is_res := inr E_Transformation |}
    | TFile _ =>
        {| is_match := true; is_upd := fun ps => ps;
           is_res := if rule_has_ph r then
                       match vals with
                       | Ok vs => inl (expand_rule vs r)
                       | SigmaErr e => inr e
                       | Crash e => inr e
                       end
                     else inl r |}
    | TVars =>
        {| is_match := true; is_upd := fun ps => ps;
           is_res := if ph_missing pv r then inr E_Value else inl (expand_rule_vars pv r) |}
    | TPost _ => {| is_match := true; is_upd := fun ps => ps; is_res := inl r |}   (* never applied as a processing item *)
    | TSetField l => {| is_match := true; is_upd := fun ps => ps; is_res := inl (with_fields r l) |}
    | TAddField l => {| is_match := true; is_upd := fun ps => ps; is_res := inl (with_fields r (r_fields r ++ l)) |}
    | TRemoveField l =>
        {| is_match := true; is_upd := fun ps => ps;
           is_res := inl (with_fields r (fold_left (fun fs x => remove_first x fs) l (r_fields r))) |}
    | TSetAttr k v =>
        {| is_match := true; is_upd := fun ps => ps;
           is_res := inl {| r_bad := r_bad r; r_mods := r_mods r; r_product := r_product r; r_dets := r_dets r;
                            r_conds := r_conds r; r_fields := r_fields r; r_attrs := set_assoc k v (r_attrs r) |} |}
    | TSetProduct p =>
        {| is_match := true; is_upd := fun ps => ps;
           is_res := inl {| r_bad := r_bad r; r_mods := r_mods r; r_product := p; r_dets := r_dets r;
                            r_conds := r_conds r; r_fields := r_fields r; r_attrs := r_attrs r |} |}
    end
  else {| is_match := false; is_upd := fun ps => ps; is_res := inl r |}.

(* ---------- identities ---------- *)
Inductive src := SBk (c : N) | SFmt (c f : N) | SUser (o : N).
   (* class-level backend_processing_pipeline / output_format_processing_pipeline[f] of class c;
      user pipeline object o *)
Definition iid := (src * nat)%type.
Definition src_eqb (a b : src) : bool :=
  match a, b with
  | SBk c, SBk d => N.eqb c d
  | SFmt c f, SFmt d g => N.eqb c d && N.eqb f g
  | SUser o, SUser p => N.eqb o p
  | _, _ => false end.
Definition iid_eqb (a b : iid) : bool := src_eqb (fst a) (fst b) && Nat.eqb (snd a) (snd b).

Record env := {
  e_ne : N -> bool;                    (* class uses convert_not_as_not_eq *)
  e_bk : N -> list item;               (* class-level backend pipeline *)
  e_fmt : N -> N -> list item;         (* class-level output format pipelines *)
  e_user : N -> list item;             (* user pipeline objects (one definition each) *)
  e_accepts : N -> N -> bool;          (* modify() of modifier class m is annotated to take values of type t *)
  e_qexpr : N -> option str;           (* class query_expression "idx={state[k]} | {query}": Some k; default "{query}": None *)
  e_sdef : N -> list (str * str);      (* class state_defaults (a class-level dict; read only) *)
  e_bkvars : N -> vars;                (* `vars` of these pipeline definitions *)
  e_fmtvars : N -> N -> vars;
  e_uservars : N -> vars;
  e_parse : str -> option ptree;       (* what the condition grammar yields (C02); None: ParseException *)
  e_src : N -> outcome (list str);     (* external source d, fetched + parsed + filtered now: values, or the
                                          error of the stage that fails (security / fetch / parse) *)
  e_files : list iid }.                (* file_placeholders item objects whose cache is reported *)

Definition tagp (s : src) (its : list item) : list (iid * item) :=
  combine (map (fun k => (s, k)) (seq 0 (List.length its))) its.
(* backend_processing_pipeline + processing_pipeline + output_format_processing_pipeline[fmt] *)
Definition pipe_pairs (E : env) (cls : N) (user : option N) (fmt : N) : list (iid * item) :=
  tagp (SBk cls) (e_bk E cls) ++
  match user with Some o => tagp (SUser o) (e_user E o) | None => [] end ++
  tagp (SFmt cls fmt) (e_fmt E cls fmt).

(* ---------- the world ---------- *)
Definition tpls := (N * N * N * N)%type.  (* class attributes eq_expression, startswith_expression, re_expression,
                                             contains_expression: template ids *)
Definition t_eq (t : tpls) : N := fst (fst (fst t)).
Definition t_sw (t : tpls) : N := snd (fst (fst t)).
Definition t_re (t : tpls) : N := snd (fst t).
Definition t_ct (t : tpls) : N := snd t.
Definition tpl0 : tpls := (0, 2, 4, 6).
Definition tpl_neg : tpls := (1, 3, 5, 7).  (* not_eq_, not_startswith_, not_re_expression = None, not_contains_expression *)

Record backend := { b_cls : N; b_user : option N; b_collect : bool; b_opts : list (str * str);
                    b_last : option (nat * N) }.
   (* b_opts: backend options given to the constructor *)
   (* b_last: number of the last_processing_pipeline object and the format it was built for *)

Record world := {
  w_cache : list (str * ptree);        (* lru_cache of _parse_condition_string *)
  w_hits : N; w_miss : N;
  w_hints : list (N * N);              (* SigmaModifier._type_hint_cache: modifier class -> the class whose modify()
                                          annotation was stored for it *)
  w_tpl : N -> tpls;                   (* backend class attributes *)
  w_owner : iid -> option nat;         (* item._pipeline (None: a pipeline that is never applied) *)
  w_ps : nat -> pstate;                (* per-rule fields of each last_processing_pipeline object *)
  w_vc : iid -> option (list str);     (* _values_cache of each external-source transformation object *)
  w_pvars : nat -> vars;               (* vars dict of each last_processing_pipeline object *)
  w_nest : iid -> list (str * str) * list str;   (* state and applied_ids of the nested pipeline object of each `nest` item *)
  w_next : nat;
  w_bks : list backend }.

Definition init : world :=
  {| w_cache := []; w_hits := 0; w_miss := 0; w_hints := []; w_tpl := fun _ => tpl0;
     w_owner := fun _ => None; w_ps := fun _ => ps0; w_vc := fun _ => None; w_pvars := fun _ => []; w_nest := fun _ => ([], []); w_next := 0%nat; w_bks := [] |}.

Definition set_ps (w : world) (p : nat) (v : pstate) : world :=
  {| w_cache := w_cache w; w_hits := w_hits w; w_miss := w_miss w; w_hints := w_hints w;
     w_tpl := w_tpl w; w_owner := w_owner w;
     w_ps := fun q => if Nat.eqb q p then v else w_ps w q; w_vc := w_vc w; w_pvars := w_pvars w; w_nest := w_nest w; w_next := w_next w; w_bks := w_bks w |}.
Definition set_tplw (w : world) (tp : N -> tpls) : world :=
  {| w_cache := w_cache w; w_hits := w_hits w; w_miss := w_miss w; w_hints := w_hints w;
     w_tpl := tp; w_owner := w_owner w; w_ps := w_ps w; w_vc := w_vc w; w_pvars := w_pvars w; w_nest := w_nest w; w_next := w_next w; w_bks := w_bks w |}.
Definition set_bks (w : world) (l : list backend) : world :=
  {| w_cache := w_cache w; w_hits := w_hits w; w_miss := w_miss w; w_hints := w_hints w;
     w_tpl := w_tpl w; w_owner := w_owner w; w_ps := w_ps w; w_vc := w_vc w; w_pvars := w_pvars w; w_nest := w_nest w; w_next := w_next w; w_bks := l |}.
Definition set_hints (w : world) (l : list (N * N)) : world :=
  {| w_cache := w_cache w; w_hits := w_hits w; w_miss := w_miss w; w_hints := l;
     w_tpl := w_tpl w; w_owner := w_owner w; w_ps := w_ps w; w_vc := w_vc w; w_pvars := w_pvars w; w_nest := w_nest w; w_next := w_next w; w_bks := w_bks w |}.
Definition set_cache (w : world) (c : list (str * ptree)) (h m : N) : world :=
  {| w_cache := c; w_hits := h; w_miss := m; w_hints := w_hints w;
     w_tpl := w_tpl w; w_owner := w_owner w; w_ps := w_ps w; w_vc := w_vc w; w_pvars := w_pvars w; w_nest := w_nest w; w_next := w_next w; w_bks := w_bks w |}.

Definition rd_vars (w : world) (o : option nat) : vars :=
  match o with Some p => w_pvars w p | None => [] end.
Definition rd_owner (w : world) (o : option nat) : pstate :=
  match o with Some p => w_ps w p | None => ps0 end.
Definition wr_owner (w : world) (o : option nat) (f : pstate -> pstate) : world :=
  match o with Some p => set_ps w p (f (w_ps w p)) | None => w end.

Definition set_vc (w : world) (i : iid) (v : list str) : world :=
  {| w_cache := w_cache w; w_hits := w_hits w; w_miss := w_miss w; w_hints := w_hints w;
     w_tpl := w_tpl w; w_owner := w_owner w; w_ps := w_ps w;
     w_vc := fun j => if iid_eqb j i then Some v else w_vc w j; w_pvars := w_pvars w; w_nest := w_nest w; w_next := w_next w; w_bks := w_bks w |}.
(* ExternalSourceBaseTransformation._get_values of transformation object i reading source d: the cache is
   consulted first; it is written only when security check, fetch, parse and filter all succeeded *)
Definition get_values (E : env) (w : world) (i : iid) (d : N) : world * outcome (list str) :=
  match w_vc w i with
  | Some v => (w, Ok v)
  | None => match e_src E d with
            | Ok v => (set_vc w i v, Ok v)
            | SigmaErr e => (w, SigmaErr e)
            | Crash e => (w, Crash e)
            end
  end.

Definition is_post (it : item) : bool := match i_tr it with TPost _ => true | _ => false end.
(* what the transformation of item object i gets from _get_values(), if it asks at all *)
Definition fetch_vals (E : env) (w : world) (i : iid) (it : item) (rd : pstate) (r : rule)
  : world * outcome (list str) :=
  match i_tr it with
  | TFile d => if wants_values rd r it then get_values E w i d else (w, Ok [])
  | _ => (w, Ok [])
  end.

(* the loop of ProcessingPipeline.apply on pipeline object L: conditions and transformations work
   on the pipeline their owner link points to, `applied`/`applied_ids` are those of L *)
Fixpoint apply_items (E : env) (w : world) (L : nat) (r : rule) (its : list (iid * item)) : world * (rule + N) :=
  match its with
  | [] => (w, inl r)
  | (i, it) :: rest =>
      if is_post it then apply_items E w L r rest else      (* postprocessing items are not part of `items` *)
      let o := w_owner w i in
      let rd := rd_owner w o in
      let '(w0, vals) := fetch_vals E w i it rd r in
      let st := item_step rd (rd_vars w o) r it vals in
      let w1 := wr_owner w0 o (is_upd st) in
      match is_res st with
      | inr e => (w1, inr e)
      | inl r' => apply_items E (set_ps w1 L (note_applied it (is_match st) (w_ps w1 L))) L r' rest
      end
  end.

(* Backend.init_processing_pipeline: a new pipeline object that takes over every item *)
Fixpoint set_nth {A} (n : nat) (x : A) (l : list A) : list A :=
  match l, n with
  | [], _ => []
  | _ :: r, O => x :: r
  | y :: r, S k => y :: set_nth k x r
  end.
Definition fmt_name (f : N) : str :=
  match f with 0 => lit "default" | 1 => lit "test" | 2 => lit "state" | _ => lit "fields" end.
Definition backend_name : str := lit "Test backend".
Definition merge_vars (a b : vars) : vars := fold_left (fun m kv => set_assoc (fst kv) (snd kv) m) b a.
(* {**backend_pp.vars, **user.vars, **format_pp.vars}, then .update(backend_<option>), ["backend"], ["output_format"] *)
Definition init_vars (E : env) (cls : N) (user : option N) (opts : list (str * str)) (fmt : N) : vars :=
  let base := merge_vars (merge_vars (e_bkvars E cls) (match user with Some o => e_uservars E o | None => [] end))
                         (e_fmtvars E cls fmt) in
  set_assoc (lit "output_format") [fmt_name fmt]
    (set_assoc (lit "backend") [backend_name]
       (fold_left (fun m kv => set_assoc (lit "backend_" ++ fst kv) [snd kv] m) opts base)).
Definition init_pipeline (E : env) (w : world) (b : nat) (bk : backend) (fmt : N) : world :=
  let L := w_next w in
  let ids := map fst (pipe_pairs E (b_cls bk) (b_user bk) fmt) in
  {| w_cache := w_cache w; w_hits := w_hits w; w_miss := w_miss w; w_hints := w_hints w;
     w_tpl := w_tpl w;
     w_owner := fun i => if existsb (iid_eqb i) ids then Some L else w_owner w i;
     w_ps := fun q => if Nat.eqb q L then ps0 else w_ps w q;
     w_vc := w_vc w;
     w_pvars := fun q => if Nat.eqb q L then init_vars E (b_cls bk) (b_user bk) (b_opts bk) fmt else w_pvars w q;
     w_nest := w_nest w;
     w_next := S L;
     w_bks := set_nth b {| b_cls := b_cls bk; b_user := b_user bk; b_collect := b_collect bk; b_opts := b_opts bk;
                           b_last := Some (L, fmt) |} (w_bks w) |}.

(* ---------- conditions ---------- *)
(* SigmaCondition.parse: cached parse result, deep-copied, so the cache entry never changes *)
Definition cache_parse (E : env) (w : world) (k : str) : world * outcome ptree :=
  if mem c_pipe k then (w, SigmaErr E_Condition)      (* deprecated pipe syntax: rejected before the cache *)
  else
  match lookup k (w_cache w) with
  | Some t => (set_cache w (w_cache w) (w_hits w + 1) (w_miss w), Ok t)
  | None =>
      match e_parse E k with
      | Some t => (set_cache w ((k, t) :: w_cache w) (w_hits w) (w_miss w + 1), Ok t)
      | None => (set_cache w (w_cache w) (w_hits w) (w_miss w + 1), SigmaErr E_Condition)
      end
  end.

Inductive ctree := CLeaf (d : ditem) | CNot (c : ctree) | CAnd (l : list ctree) | COr (l : list ctree).
Definition omap {A B} (f : A -> outcome B) : list A -> outcome (list B) :=
  fix go (l : list A) : outcome (list B) :=
    match l with
    | [] => Ok []
    | x :: r => obind (f x) (fun y => obind (go r) (fun ys => Ok (y :: ys)))
    end.
(* a replacement value is parsed as a Sigma string: a trailing * is a wildcard *)
Definition val_leaf (f v : str) : ditem :=
  match rev v with
  | 42 :: r => {| di_field := f; di_text := rev r; di_kind := VStar |}
  | _ => {| di_field := f; di_text := v; di_kind := VStr |}
  end.
(* SigmaDetectionItem.postprocess: no value -> field is null, one value -> that value, more -> OR *)
Definition leaf_of (d : ditem) : ctree :=
  match di_kind d with
  | VStrs [] => CLeaf {| di_field := di_field d; di_text := []; di_kind := VNull |}
  | VStrs [v] => CLeaf (val_leaf (di_field d) v)
  | VStrs vs => COr (map (fun v => CLeaf (val_leaf (di_field d) v)) vs)
  | _ => CLeaf d
  end.
(* ConditionSelector.resolve_referenced_detections: the detection names, IN THE ORDER OF THE RULE'S DETECTION SECTION,
   that the pattern matches ("them": all; * stands for any character sequence); names starting with _ (filter
   detections) only for patterns starting with _ *)
Fixpoint glob (p : str) : str -> bool :=
  match p with
  | [] => fun s => match s with [] => true | _ => false end
  | c :: p' =>
      if N.eqb c 42
      then fix star (s : str) : bool := glob p' s || match s with [] => false | _ :: s' => star s' end
      else fun s => match s with x :: s' => N.eqb x c && glob p' s' | [] => false end
  end.
Definition starts_us (s : str) : bool := match s with 95 :: _ => true | _ => false end.
Definition sel_match (pat name : str) : bool :=
  (if str_eqb pat (lit "them") then true else glob pat name) && (starts_us pat || negb (starts_us name)).
Definition det_tree (ds : list ditem) : ctree :=
  match ds with [d] => leaf_of d | _ => CAnd (map leaf_of ds) end.
(* postprocess(): identifiers are replaced by the rule's detections *)
Fixpoint resolve (dets : list (str * list ditem)) (t : ptree) : outcome ctree :=
  match t with
  | PId n => match lookup n dets with
             | None => SigmaErr E_Condition
             | Some ds => Ok (det_tree ds)
             end
  | PSel all pat =>
      let ms := map (fun nd => det_tree (snd nd)) (filter (fun nd => sel_match pat (fst nd)) dets) in
      (* ConditionItem.postprocess: an AND / OR left with one argument is that argument (no match at all yields no
         condition and no query; histories here always match something) *)
      Ok (match ms with [x] => x | _ => if all then CAnd ms else COr ms end)
  | PNot a => obind (resolve dets a) (fun c => Ok (CNot c))
  | PAnd l => obind (omap (resolve dets) l) (fun cs => Ok (CAnd cs))
  | POr l => obind (omap (resolve dets) l) (fun cs => Ok (COr cs))
  end.

(* ---------- rendering (TextQueryTestBackend without in-expressions) ---------- *)
Definition tpl_render (id : N) (field value : str) : str :=
  match id with
  | 0 => field ++ lit "=" ++ value
  | 1 => field ++ lit "!=" ++ value
  | 2 => field ++ lit " startswith " ++ value
  | 3 => field ++ lit " not_startswith " ++ value
  | 6 => field ++ lit " contains " ++ value
  | _ => field ++ lit " not_contains " ++ value
  end.
Definition quote (s : str) : str := lit """" ++ s ++ lit """".
Definition leaf_text (tp : tpls) (d : ditem) : outcome str :=
  match di_kind d with
  | VNum => Ok (di_field d ++ lit "=" ++ di_text d)
  | VStr => Ok (tpl_render (t_eq tp) (di_field d) (quote (di_text d)))
  | VStar => Ok (tpl_render (t_sw tp) (di_field d) (quote (di_text d)))
  | VPh => SigmaErr E_Placeholder
  | VRe => if N.eqb (t_re tp) 4 then Ok (di_field d ++ lit "=/" ++ di_text d ++ lit "/")
           else Crash 1          (* re_expression is None while swapped: NotImplementedError *)
  | VNull => Ok (di_field d ++ lit " is null")
  | VStrs _ => Crash 1           (* unreachable: leaf_of splits value lists *)
  | VCt => Ok (tpl_render (t_ct tp) (di_field d) (quote (di_text d)))
  end.
Definition set_tpl (tp : N -> tpls) (cls : N) (v : tpls) : N -> tpls :=
  fun c => if N.eqb c cls then v else tp c.
(* convert_condition_field_eq_val + not_equals_context_manager: the class attributes are saved,
   replaced by the negated templates, and restored in `finally` (also when rendering raises) *)
Definition render_leaf (ne : bool) (cls : N) (neg : bool) (d : ditem) (tp : N -> tpls)
  : (N -> tpls) * outcome str :=
  if neg && ne then
    let orig := tp cls in
    let tp1 := set_tpl tp cls tpl_neg in
    let r := leaf_text (tp1 cls) d in
    (set_tpl tp1 cls orig, r)
  else (tp, leaf_text (tp cls) d).

Definition group (s : str) : str := lit "(" ++ s ++ lit ")".
Definition s_not : str := lit "not ".
Definition s_and : str := lit " and ".
Definition s_or : str := lit " or ".
Fixpoint join (sep : str) (l : list str) : str :=
  match l with [] => [] | [x] => x | x :: r => x ++ sep ++ join sep r end.
Definition is_leaf (c : ctree) : bool := match c with CLeaf _ => true | _ => false end.
Definition is_or (c : ctree) : bool := match c with COr _ => true | _ => false end.

(* arguments of AND / OR in order; the class attributes are threaded through; the first error ends it *)
Definition render_args (f : ctree -> (N -> tpls) -> (N -> tpls) * outcome str) (wrap : ctree -> str -> str)
  : list ctree -> (N -> tpls) -> (N -> tpls) * outcome (list str) :=
  fix go (l : list ctree) (tp : N -> tpls) : (N -> tpls) * outcome (list str) :=
    match l with
    | [] => (tp, Ok [])
    | a :: rest =>
        let '(tp1, x) := f a tp in
        match x with
        | Ok s => let '(tp2, y) := go rest tp1 in (tp2, obind y (fun ss => Ok (wrap a s :: ss)))
        | SigmaErr e => (tp1, SigmaErr e)
        | Crash e => (tp1, Crash e)
        end
    end.
Definition wrap_and (a : ctree) (s : str) : str := if is_or a then group s else s.
Definition wrap_or (a : ctree) (s : str) : str := s.
Definition not_text (ne : bool) (a : ctree) (s : str) : str :=
  let body := if is_leaf a then s else group s in if ne then body else s_not ++ body.

Fixpoint render (ne : bool) (cls : N) (neg : bool) (c : ctree) (tp : N -> tpls) {struct c}
  : (N -> tpls) * outcome str :=
  match c with
  | CLeaf d => render_leaf ne cls neg d tp
  | CNot a =>
      let '(tp1, r) := render ne cls true a tp in (tp1, obind r (fun s => Ok (not_text ne a s)))
  | CAnd l =>
      let '(tp1, r) := render_args (render ne cls neg) wrap_and l tp in
      (tp1, obind r (fun ss => Ok (join s_and ss)))
  | COr l =>
      let '(tp1, r) := render_args (render ne cls neg) wrap_or l tp in
      (tp1, obind r (fun ss => Ok (join s_or ss)))
  end.

(* finalize_query_<format> of the test backend *)
Definition product_name (p : N) : str :=
  match p with 0 => lit "None" | 1 => lit "windows" | _ => lit "linux" end.
(* format 3 ("fields", defined by the harness like a backend with a field-list clause): the query followed by the
   processed rule's field list, custom attributes and log source product *)
Definition finalize (fmt : N) (st : list (str * str)) (r : rule) (q : str) : str :=
  match fmt with
  | 0 => q
  | 1 => lit "[ " ++ q ++ lit " ]"
  | 2 => lit "index=" ++ getd (lit "default") (lit "index") st ++ lit " (" ++ q ++ lit ")"
  | _ => q ++ lit " | fields=" ++ join (lit ",") (r_fields r) ++ lit " attrs="
         ++ join (lit ",") (map (fun kv => fst kv ++ lit ":" ++ snd kv) (r_attrs r))
         ++ lit " product=" ++ product_name (r_product r)
  end.

(* TextQueryBackend.finish_query: query_expression.format(query=..., state=ChainMap(processing_state, state_defaults));
   the rule's pipeline state shadows the class defaults and never changes them; a key in neither: KeyError *)
Definition finish_query (E : env) (cls : N) (st : list (str * str)) (q : str) : outcome str :=
  match e_qexpr E cls with
  | None => Ok q
  | Some k =>
      match lookup k st with
      | Some v => Ok (lit "idx=" ++ v ++ lit " | " ++ q)
      | None => match lookup k (e_sdef E cls) with
                | Some v => Ok (lit "idx=" ++ v ++ lit " | " ++ q)
                | None => Crash 1
                end
      end
  end.

(* the loop over rule.detection.parsed_condition in convert_rule *)
Fixpoint conv_conds (E : env) (cls : N) (dets : list (str * list ditem)) (fin : str -> outcome str) (w : world) (ks : list str)
  : world * outcome (list str) :=
  match ks with
  | [] => (w, Ok [])
  | k :: rest =>
      let '(w1, pt) := cache_parse E w k in
      match obind pt (resolve dets) with
      | Ok ct =>
          let '(tp, q) := render (e_ne E cls) cls false ct (w_tpl w1) in
          let w2 := set_tplw w1 tp in
          match obind q fin with
          | Ok s => let '(w3, r) := conv_conds E cls dets fin w2 rest in (w3, obind r (fun ss => Ok (s :: ss)))
          | SigmaErr e => (w2, SigmaErr e)
          | Crash e => (w2, Crash e)
          end
      | SigmaErr e => (w1, SigmaErr e)
      | Crash e => (w1, Crash e)
      end
  end.

(* Backend.convert_rule up to the except clauses: the pipeline object is built only when there is
   none yet; otherwise the existing one is used whatever format it was built for *)
(* ---------- query postprocessing (ProcessingPipeline.postprocess_query, called by Backend.finalize_query) ---------- *)
Definition post0_apply (st : list (str * str)) (p : post0) (q : str) : str :=
  match p with
  | P0Embed pre => pre ++ q
  | P0Tpl k => lit "ix=[" ++ getd [] k st ++ lit "] " ++ q
  end.
Definition add_ids (l : list str) (ps : pstate) : pstate :=
  {| ps_applied := ps_applied ps; ps_ids := fold_left (fun ids x => sadd x ids) l (ps_ids ps); ps_state := ps_state ps;
     ps_fmap := ps_fmap ps; ps_rev := ps_rev ps; ps_fna := ps_fna ps |}.
(* nested.postprocess_query: the nested items' conditions and templates see the NESTED pipeline's state; applied
   identifiers are added to the nested pipeline's applied_ids *)
Fixpoint nest_run (nst : list (str * str)) (r : rule) (q : str) (l : list (str * rcond * post0)) (ids : list str)
  : str * list str :=
  match l with
  | [] => (q, ids)
  | (id, c, p) :: rest =>
      if eval_rcond_st nst r c then nest_run nst r (post0_apply nst p q) rest (sadd id ids) else nest_run nst r q rest ids
  end.
Definition set_nest (w : world) (i : iid) (v : list (str * str) * list str) : world :=
  {| w_cache := w_cache w; w_hits := w_hits w; w_miss := w_miss w; w_hints := w_hints w;
     w_tpl := w_tpl w; w_owner := w_owner w; w_ps := w_ps w; w_vc := w_vc w; w_pvars := w_pvars w;
     w_nest := fun j => if iid_eqb j i then v else w_nest w j; w_next := w_next w; w_bks := w_bks w |}.
(* postprocess_query of pipeline object L on one query: a top-level item reads the state of the pipeline its owner link
   points to; `nest` runs its nested pipeline (whose state nothing writes, and whose applied_ids are handed to the owner
   and then reset), then L notes the item's identifier *)
Fixpoint post_items (w : world) (L : nat) (r : rule) (q : str) (its : list (iid * item)) : world * str :=
  match its with
  | [] => (w, q)
  | (i, it) :: rest =>
      match i_tr it with
      | TPost p =>
          let o := w_owner w i in
          let rd := rd_owner w o in
          if eval_rcond rd r (i_cond it) then
            let '(w1, q1) :=
              match p with
              | PTop p0 => (w, post0_apply (ps_state rd) p0 q)
              | PNest l =>
                  let '(q', nids) := nest_run (fst (w_nest w i)) r q l (snd (w_nest w i)) in
                  (set_nest (wr_owner w o (add_ids nids)) i (fst (w_nest w i), []), q')
              end in
            post_items (set_ps w1 L (add_ids [i_id it] (w_ps w1 L))) L r q1 rest
          else post_items w L r q rest
      | _ => post_items w L r q rest
      end
  end.
Fixpoint post_all (w : world) (L : nat) (r : rule) (qs : list str) (its : list (iid * item)) : world * list str :=
  match qs with
  | [] => (w, [])
  | q :: rest => let '(w1, q1) := post_items w L r q its in
                 let '(w2, l) := post_all w1 L r rest its in (w2, q1 :: l)
  end.

Definition conv_with (E : env) (w : world) (L : nat) (lfmt : N) (bk : backend) (fmt : N) (r : rule)
  : world * outcome (list str) :=
  let w2 := set_ps w L ps0 in
  let '(w3, res) := apply_items E w2 L r (pipe_pairs E (b_cls bk) (b_user bk) lfmt) in
  match res with
  | inr e => (w3, SigmaErr e)
  | inl r' =>
      let st := ps_state (w_ps w3 L) in
      let '(w4, qs) := conv_conds E (b_cls bk) (r_dets r') (finish_query E (b_cls bk) st) w3 (r_conds r') in
      match qs with
      | Ok l => (* Backend.finalize_query: finalize_query_<format>, then the pipeline's postprocessing items *)
                let '(w5, l') := post_all w4 L r' (map (finalize fmt st r') l) (pipe_pairs E (b_cls bk) (b_user bk) lfmt) in
                (w5, Ok l')
      | SigmaErr e => (w4, SigmaErr e)
      | Crash e => (w4, Crash e)
      end
  end.
Definition conv_rule_raw (E : env) (w : world) (b : nat) (bk : backend) (fmt : N) (r : rule)
  : world * outcome (list str) :=
  match b_last bk with
  | Some (L, f) => conv_with E w L f bk fmt r
  | None => conv_with E (init_pipeline E w b bk fmt) (w_next w) fmt bk fmt r
  end.

(* ---------- operations ---------- *)
Inductive op :=
| OLoad (r : rule)
| ONew (cls : N) (user : option N) (collect : bool) (opts : list (str * str))
| OInit (b : nat) (fmt : N)
| OConvColl (b : nat) (rs : list rule) (fmt : N)
| OConvRule (b : nat) (r : rule) (fmt : N).

Record obs := {                       (* what the caller of the API sees *)
  o_res : outcome (list str);         (* queries / raised error *)
  o_errs : list N;                    (* errors appended to backend.errors by this operation *)
  o_snap : option pstate }.           (* bookkeeping of the backend's last_processing_pipeline *)
Record out := { out_obs : obs; out_hits : N; out_miss : N; out_hints : list N; out_tpl_ok : bool;
                out_vc : list (option (list str)) }.

(* SigmaModifier._get_modify_type_hint: the annotation of the class's own modify() is stored under the exact class the
   first time it is needed.  (Documents that fail their type check have one modified item here, so nothing after the
   failing application would have been cached.) *)
Definition load (w : world) (r : rule) : world :=
  set_hints w (fold_left (fun h mt => if existsb (fun e => N.eqb (fst e) (fst mt)) h then h else h ++ [(fst mt, fst mt)])
                         (r_mods r) (w_hints w)).
(* type_check of every modifier application against the hint found in the cache, else the class's own *)
Definition hint_of (w : world) (m : N) : N :=
  match find (fun e => N.eqb (fst e) m) (w_hints w) with Some e => snd e | None => m end.
Definition load_check (E : env) (w : world) (r : rule) : option N :=
  match find (fun mt => negb (e_accepts E (hint_of w (fst mt)) (snd mt))) (r_mods r) with
  | Some _ => Some E_Type
  | None => r_bad r
  end.

Definition snap (w : world) (b : nat) : option pstate :=
  match nth_error (w_bks w) b with
  | Some bk => match b_last bk with Some (L, _) => Some (w_ps w L) | None => None end
  | None => None end.

(* convert(): init, then every rule; with collect_errors a failing rule yields no query
   (the collection was loaded before) *)
Fixpoint conv_rules (E : env) (w : world) (b : nat) (fmt : N) (collect : bool) (rs : list rule)
         (acc : list str) (errs : list N) : world * outcome (list str) * list N :=
  match rs with
  | [] => (w, Ok acc, errs)
  | r :: rest =>
      match nth_error (w_bks w) b with
      | None => (w, Crash 1, errs)
      | Some bk =>
          let '(w1, q) := conv_rule_raw E w b bk fmt r in
          match q with
          | Ok l => conv_rules E w1 b fmt collect rest (acc ++ l) errs
          | SigmaErr e => if collect then conv_rules E w1 b fmt collect rest acc (errs ++ [e])
                          else (w1, SigmaErr e, errs)
          | Crash e => (w1, Crash e, errs)
          end
      end
  end.

Definition classes_probe : list N := [0; 1; 2; 3; 4; 5; 6; 7; 8; 9; 10; 11].
Definition mk_out (E : env) (w : world) (o : obs) : out :=
  {| out_obs := o; out_hits := w_hits w; out_miss := w_miss w; out_hints := map fst (w_hints w);
     out_tpl_ok := forallb (fun c => N.eqb (t_eq (w_tpl w c)) 0 && N.eqb (t_sw (w_tpl w c)) 2 && N.eqb (t_re (w_tpl w c)) 4 && N.eqb (t_ct (w_tpl w c)) 6) classes_probe;
     out_vc := map (w_vc w) (e_files E) |}.
Definition ok_obs (s : option pstate) : obs := {| o_res := Ok []; o_errs := []; o_snap := s |}.

Definition step (E : env) (w : world) (o : op) : world * out :=
  match o with
  | OLoad r =>
      let w1 := load w r in
      (w1, mk_out E w1 {| o_res := match load_check E w r with Some t => SigmaErr t | None => Ok [] end;
                        o_errs := []; o_snap := None |})
  | ONew cls user collect opts =>
      let w1 := set_bks w (w_bks w ++ [{| b_cls := cls; b_user := user; b_collect := collect; b_opts := opts; b_last := None |}]) in
      (w1, mk_out E w1 (ok_obs None))
  | OInit b fmt =>
      match nth_error (w_bks w) b with
      | None => (w, mk_out E w {| o_res := Crash 1; o_errs := []; o_snap := None |})
      | Some bk => let w1 := init_pipeline E w b bk fmt in (w1, mk_out E w1 (ok_obs (snap w1 b)))
      end
  | OConvColl b rs fmt =>
      match nth_error (w_bks w) b with
      | None => (w, mk_out E w {| o_res := Crash 1; o_errs := []; o_snap := None |})
      | Some bk =>
          let '(w1, q, errs) := conv_rules E (init_pipeline E (fold_left load rs w) b bk fmt) b fmt (b_collect bk) rs [] [] in
          (w1, mk_out E w1 {| o_res := q; o_errs := errs; o_snap := snap w1 b |})
      end
  | OConvRule b r fmt =>
      match nth_error (w_bks w) b with
      | None => (w, mk_out E w {| o_res := Crash 1; o_errs := []; o_snap := None |})
      | Some bk =>
          let '(w1, q) := conv_rule_raw E (load w r) b bk fmt r in
          let o := match q with
                   | SigmaErr e => if b_collect bk then {| o_res := Ok []; o_errs := [e]; o_snap := snap w1 b |}
                                   else {| o_res := q; o_errs := []; o_snap := snap w1 b |}
                   | _ => {| o_res := q; o_errs := []; o_snap := snap w1 b |}
                   end in
          (w1, mk_out E w1 o)
      end
  end.

Fixpoint run (E : env) (w : world) (ops : list op) : world * list out :=
  match ops with
  | [] => (w, [])
  | o :: rest => let '(w1, x) := step E w o in let '(w2, xs) := run E w1 rest in (w2, x :: xs)
  end.
