(* Model of sigma/processing/transformations/{base,fields,values,condition,detection_item,placeholder,
   meta}.py: detection trees, the detection walk with in-place replacement, and the built-in
   transformations as functions on trees / rules.  Definitions only.
   The model follows the code of the repaired tree (fix cb9846f: one-to-many mapping of a negated
   item is AND-linked; fix b7aeed1: replace_string keeps the string class). *)
From Coq Require Import NArith List Bool.
From PS Require Import Base.Chars Model.SString.
Import ListNotations.
Open Scope N_scope.

(* ---------- values after modifier application ---------- *)
Inductive aval :=
| AStr (cased : bool) (s : sstring)      (* SigmaString / SigmaCasedString *)
| ANum (n : str)                         (* SigmaNumber, printed *)
| ABool (b : bool)
| ANull
| ARe (r : str) (fl : str)               (* SigmaRegularExpression: text, flags *)
| ARef (f : str) (sw ew : bool)          (* SigmaFieldReference *)
| AQuery (e i : str)                     (* SigmaQueryExpression *)
| AOther (t : str).                      (* CIDR, compare, exists, ...: opaque, printed *)
Inductive value := V (a : aval) | VExp (l : list aval).   (* SigmaExpansion *)

(* SigmaDetectionItem: field (None = keyword), values, value_linking = AND, negated *)
(* i_applied: applied_processing_items (identifiers of the processing items that replaced / touched the item) *)
Record ditem := mkI { i_field : option str; i_vals : list value; i_all : bool; i_neg : bool; i_applied : list str }.
(* SigmaDetection: items / nested detections, item_linking = AND *)
Inductive det := DI (i : ditem) | DD (l : list det) (land : bool).

Definition opt_str_eqb := option_eqb str_eqb.
Definition mem_str (s : str) (l : list str) : bool := existsb (str_eqb s) l.

(* ---------- DetectionItemTransformation.apply_detection (base.py l.114-126) ----------
   tr gives, for a detection item, the replacement returned by apply_detection_item (already gated
   by processing_item.match_detection_item); Delete is the DeleteSigmaDetectionItem marker that
   DropDetectionItemTransformation.apply_detection filters out of the same list afterwards. *)
Inductive rep := Keep | Repl (d : det) | Delete.

Fixpoint walk (tr : ditem -> rep) (d : det) : list det :=
  match d with
  | DI i => match tr i with Keep => [DI i] | Repl r => [r] | Delete => [] end
  | DD l land => [DD (flat_map (walk tr) l) land]
  end.
(* entry point: a named detection is always a SigmaDetection *)
Definition walk_top (tr : ditem -> rep) (d : det) : det :=
  match d with
  | DD l land => DD (flat_map (walk tr) l) land
  | DI i => DI i
  end.

Definition gated (im : ditem -> bool) (tr : ditem -> rep) (i : ditem) : rep :=
  if im i then tr i else Keep.

(* processing_item_applied(r) on a returned replacement (base.py l.125): every detection item of the
   replacement is marked with the identifier of the processing item (tracking.py); a one-to-many
   mapping's copies start with the marks of the replaced item (fix ab135a8) *)
Definition add_id (id : str) (l : list str) : list str := if mem_str id l then l else id :: l.
Definition mark_item (id : option str) (i : ditem) : ditem :=
  match id with
  | Some x => mkI (i_field i) (i_vals i) (i_all i) (i_neg i) (add_id x (i_applied i))
  | None => i
  end.
Fixpoint mark_det (id : option str) (d : det) : det :=
  match d with DI i => DI (mark_item id i) | DD l land => DD (map (mark_det id) l) land end.
Definition marked (id : option str) (tr : ditem -> rep) (i : ditem) : rep :=
  match tr i with Repl d => Repl (mark_det id d) | x => x end.

(* ---------- SigmaString helpers used by transformations ---------- *)
(* SigmaString._merge_strs *)
Fixpoint merge_strs (s : sstring) : sstring :=
  match s with
  | PStr a :: r =>
      match merge_strs r with
      | PStr b :: r' => PStr (a ++ b) :: r'
      | r' => PStr a :: r'
      end
  | p :: r => p :: merge_strs r
  | [] => []
  end.
Definition starts_multi (s : sstring) : bool := match s with PMulti :: _ => true | _ => false end.
Definition ends_multi (s : sstring) : bool := match rev s with PMulti :: _ => true | _ => false end.
(* FieldMappingTransformationBase._add_wildcards_to_value *)
Definition add_wild (s : sstring) : sstring :=
  let s1 := if starts_multi s then s else merge_strs (PMulti :: s) in
  if ends_multi s1 then s1 else merge_strs (s1 ++ [PMulti]).
Definition wild_value (v : value) : value :=
  match v with V (AStr c s) => V (AStr c (add_wild s)) | _ => v end.

(* ---------- FieldMappingTransformationBase (base.py l.145-326) ---------- *)
Inductive fres := FNone | FOne (s : str) | FMany (l : list str).   (* apply_field_name result *)
Definition fres_some (r : fres) : bool := match r with FNone => false | _ => true end.

Section FieldMap.
Variable fm : option str -> bool.          (* processing_item.match_field_name *)
Variable afn : option str -> fres.         (* apply_field_name *)

(* _apply_field_name *)
Definition afn_list (g : str) : list str :=
  match afn (Some g) with
  | FNone => [g]
  | FOne s => if fm (Some g) then [s] else [g]
  | FMany l => if fm (Some g) then l else [g]
  end.

Definition map_ref (v : value) : list value * bool :=
  match v with
  | V (ARef g sw ew) =>
      if fm (Some g) then (map (fun g' => V (ARef g' sw ew)) (afn_list g), true) else ([v], false)
  | _ => ([v], false)
  end.

(* apply_detection_item l.269-326 *)
Definition fieldmap_item (i : ditem) : rep :=
  let rs := map map_ref (i_vals i) in
  let rm := existsb snd rs in
  let vals1 := if rm then flat_map fst rs else i_vals i in
  let mp := afn (i_field i) in
  if fres_some mp && fm (i_field i) then
    let vals2 := match i_field i with None => map wild_value vals1 | Some _ => vals1 end in
    match mp with
    | FOne s => Repl (DI (mkI (Some s) vals2 (i_all i) (i_neg i) (i_applied i)))
    | FMany l => Repl (DD (map (fun s => DI (mkI (Some s) vals2 (i_all i) (i_neg i) (i_applied i))) l) (i_neg i))
    | FNone => Keep
    end
  else if rm then Repl (DI (mkI (i_field i) vals1 (i_all i) (i_neg i) (i_applied i))) else Keep.

(* rule.fields (apply l.209-212) *)
Definition fieldmap_fields (fs : list str) : list str := flat_map afn_list fs.
End FieldMap.

(* fields.py *)
Definition afn_mapping (m : list (option str * fres)) (f : option str) : fres :=
  match find (fun p => opt_str_eqb (fst p) f) m with Some p => snd p | None => FNone end.
Definition afn_prefixmap (m : list (str * fres)) (f : option str) : fres :=
  match f with
  | None => FNone
  | Some g =>
      match find (fun p => prefixb (fst p) g) m with
      | Some (src, FOne d) => FOne (d ++ skipn (length src) g)
      | Some (src, FMany l) => FMany (map (fun d => d ++ skipn (length src) g) l)
      | _ => FNone
      end
  end.
Definition afn_prefix (p : str) (f : option str) : fres :=
  match f with None => FNone | Some g => FOne (p ++ g) end.
Definition afn_suffix (s : str) (f : option str) : fres :=
  match f with None => FNone | Some g => FOne (g ++ s) end.

(* ---------- ValueTransformation.apply_detection_item (base.py l.355-377) ---------- *)
Definition is_some {A} (o : option A) : bool := match o with Some _ => true | None => false end.
Definition value_item (tv : option str -> value -> option (list value)) (i : ditem) : rep :=
  let rs := map (fun v => (v, tv (i_field i) v)) (i_vals i) in
  if existsb (fun p => is_some (snd p)) rs then
    Repl (DI (mkI (i_field i)
                  (flat_map (fun p => match snd p with Some l => l | None => [fst p] end) rs)
                  (i_all i) (i_neg i) (i_applied i)))
  else Keep.

(* StringValueTransformation.apply_value: only SigmaString values *)
Definition on_str (f : bool -> sstring -> option (list value)) (v : value) : option (list value) :=
  match v with V (AStr c s) => f c s | _ => None end.

(* --- values.py CaseTransformation / SigmaString.lower, upper, snake_case (ASCII; other code points
       are outside the model's table) --- *)
Definition is_upper (c : char) : bool := (65 <=? c) && (c <=? 90).
Definition is_lower (c : char) : bool := (97 <=? c) && (c <=? 122).
Definition lower_c (c : char) : char := if is_upper c then c + 32 else c.
Definition upper_c (c : char) : char := if is_lower c then c - 32 else c.
(* re.sub(r"(?<!^)(?=[A-Z])", "_", x).lower() on one string part *)
Definition snake_str (s : str) : str :=
  match s with
  | [] => []
  | c :: r => lower_c c :: flat_map (fun x => if is_upper x then [c_us; lower_c x] else [x]) r
  end.
Inductive casem := CLower | CUpper | CSnake.
Definition case_str (m : casem) (s : str) : str :=
  match m with CLower => map lower_c s | CUpper => map upper_c s | CSnake => snake_str s end.
Definition map_str_parts (f : str -> str) (s : sstring) : sstring :=
  map (fun p => match p with PStr x => PStr (f x) | _ => p end) s.
Definition tv_case (m : casem) (_ : option str) : value -> option (list value) :=
  on_str (fun c s => Some [V (AStr c (map_str_parts (case_str m) s))]).

(* --- SetValueTransformation: every value is replaced --- *)
Definition tv_set (a : aval) (_ : option str) (_ : value) : option (list value) := Some [V a].

(* --- MapStringTransformation: mapping.get(str(val)); str -> one SigmaString, list -> several --- *)
Definition tv_mapstring (m : list (str * list str)) (_ : option str) : value -> option (list value) :=
  on_str (fun _ s =>
    match find (fun p => str_eqb (fst p) (to_plain false s)) m with
    | Some p => Some (map (fun x => V (AStr false (parse true x))) (snd p))
    | None => None
    end).

(* --- ReplaceStringTransformation (skip_special = False), values.py l.224-249.
       sub = re.sub(regex, replacement, .) is an oracle. --- *)
(* re.sub(r"\\(?![*?])", r"\\\\", s): double every backslash not followed by '*' or '?' *)
Fixpoint post_bs (s : str) : str :=
  match s with
  | [] => []
  | c :: r =>
      if N.eqb c c_bs then
        match r with
        | d :: _ => if is_special d then c :: post_bs r else c :: c :: post_bs r
        | [] => [c; c]
        end
      else c :: post_bs r
  end.
(* SigmaString.insert_placeholders on one string part: (?<!\\)%([^%]+)% ; "\%" -> "%" in the rest *)
Fixpoint unesc_pct (s : str) : str :=
  match s with
  | a :: ((b :: r') as r) => if N.eqb a c_bs && N.eqb b c_pct then c_pct :: unesc_pct r' else a :: unesc_pct r
  | _ => s
  end.
Fixpoint span_nopct (s : str) : str * str :=
  match s with
  | [] => ([], [])
  | c :: r => if N.eqb c c_pct then ([], s) else let '(a, b) := span_nopct r in (c :: a, b)
  end.
Definition push_str (acc : str) : sstring := match unesc_pct acc with [] => [] | x => [PStr x] end.
Fixpoint insph_go (fuel : nat) (s : str) (acc : str) (prev_bs : bool) : sstring :=
  match fuel with O => [] | S fuel' =>
  match s with
  | [] => push_str acc
  | c :: r =>
      if N.eqb c c_pct && negb prev_bs then
        match span_nopct r with
        | (x :: name, _ :: rest) => push_str acc ++ PPh (x :: name) :: insph_go fuel' rest [] false
        | _ => insph_go fuel' r (acc ++ [c]) false
        end
      else insph_go fuel' r (acc ++ [c]) (N.eqb c c_bs)
  end end.
Definition insert_placeholders (v : sstring) : sstring :=
  flat_map (fun p => match p with PStr x => insph_go (S (length x)) x [] false | _ => [p] end) v.

Section Replace.
Variable sub : str -> str.
Definition replace_sstring (s : sstring) : sstring :=
  let v := parse true (post_bs (sub (to_plain false s))) in
  if contains_placeholder s then insert_placeholders v else v.
Definition tv_replace (_ : option str) (v : value) : option (list value) :=
  match v with
  | V (AStr c s) => Some [V (AStr c (replace_sstring s))]
  | V (ANum n) => Some [V (AStr false (replace_sstring (parse true n)))]
  | _ => None
  end.
End Replace.

(* --- ConvertTypeTransformation target_type = str --- *)
Definition num_to_str (a : aval) : aval := match a with ANum n => AStr false (parse true n) | _ => a end.
Definition tv_convert_str (_ : option str) (v : value) : option (list value) :=
  match v with
  | V (ANum n) => Some [V (AStr false (parse true n))]
  | VExp l => Some [VExp (map num_to_str l)]
  | _ => None
  end.


(* --- RegexTransformation (values.py): SigmaString -> SigmaRegularExpression; ASCII --- *)
(* re.escape: ()[]{}?*+-|^$\.&~# \t\n\r\v\f *)
Definition re_special : str := [40; 41; 91; 93; 123; 125; 63; 42; 43; 45; 124; 94; 36; 92; 46; 38; 126; 35; 32; 9; 10; 13; 11; 12].
Definition re_escape_c (c : char) : str := if mem c re_special then [c_bs; c] else [c].
Definition is_alpha (c : char) : bool := is_upper c || is_lower c.
Inductive remethod := RPlain | RFlag | RBrackets.
Definition regex_part (m : remethod) (p : part) : str :=
  match p with
  | PStr x => flat_map (fun c => match m with
                                 | RBrackets => if is_alpha c then [91; lower_c c; upper_c c; 93] else re_escape_c c
                                 | _ => re_escape_c c
                                 end) x
  | PMulti => [46; 42]
  | PSingle => [46]
  | PPh _ => []        (* SigmaConfigurationError in the implementation: outside the model *)
  end.
Definition tv_regex (m : remethod) (_ : option str) : value -> option (list value) :=
  on_str (fun c s => match s with
                     | [] => Some [V (AStr c s)]          (* "empty string can not be converted": returned as it is *)
                     | _ => Some [V (ARe (flat_map (regex_part m) s) (match m with RFlag => [105] | _ => [] end))]
                     end).

(* --- ConvertTypeTransformation target_type = num: SigmaNumber(str(val)); Python's int()/float() reading of
       the plain form is an oracle (finite table plain form -> printed number; absent: SigmaValueError,
       outside the model) --- *)
Definition str_to_num (tbl : list (str * str)) (a : aval) : aval :=
  match a with
  | AStr _ s => match find (fun p => str_eqb (fst p) (to_plain false s)) tbl with Some p => ANum (snd p) | None => a end
  | _ => a
  end.
Definition tv_convert_num (tbl : list (str * str)) (_ : option str) (v : value) : option (list value) :=
  match v with
  | V (AStr c s) => Some [V (str_to_num tbl (AStr c s))]
  | VExp l => Some [VExp (map (str_to_num tbl) l)]
  | _ => None
  end.

(* --- placeholder.py: SigmaString.replace_placeholders (types.py l.473) --- *)
Record phsel := { ph_inc : option (list str); ph_exc : option (list str) }.
Definition ph_handled (k : phsel) (n : str) : bool :=
  match ph_inc k, ph_exc k with
  | None, None => true
  | Some l, None => mem_str n l
  | None, Some l => negb (mem_str n l)
  | Some l, Some l' => mem_str n l || negb (mem_str n l')
  end.
(* contains_placeholder(include, exclude) *)
Definition ph_contains (k : phsel) (s : sstring) : bool :=
  existsb (fun p => match p with
                    | PPh n => match ph_inc k with None => true | Some l => mem_str n l end &&
                               match ph_exc k with None => true | Some l => negb (mem_str n l) end
                    | _ => false end) s.
Fixpoint repl_ph (cb : str -> list sstring) (s : sstring) : list sstring :=
  match s with
  | [] => [[]]
  | PPh n :: t => flat_map (fun r => map (fun rs => r ++ rs) (repl_ph cb t)) (cb n)
  | p :: t => map (cons p) (repl_ph cb t)
  end.
Definition tv_placeholder (k : phsel) (repl : str -> list sstring) (_ : option str)
  : value -> option (list value) :=
  on_str (fun _ s =>
    if ph_contains k s then
      Some (map (fun x => V (AStr false (merge_strs x)))
                (repl_ph (fun n => if ph_handled k n then repl n else [[PPh n]]) s))
    else None).
(* WildcardPlaceholderTransformation *)
Definition repl_wild (_ : str) : list sstring := [[PMulti]].
(* ValueListPlaceholderTransformation: vars[name] -> SigmaString(str(v)) each (missing variable: error,
   outside the model) *)
Definition repl_vars (vars : list (str * list str)) (n : str) : list sstring :=
  match find (fun p => str_eqb (fst p) n) vars with
  | Some p => map (parse true) (snd p)
  | None => []
  end.


(* QueryExpressionPlaceholderTransformation: a placeholder-only string becomes a query expression
   (strings with a placeholder among other parts: SigmaValueError, outside the model) *)
Definition tv_queryph (k : phsel) (expr : str) (mapping : list (str * str)) (_ : option str)
  : value -> option (list value) :=
  on_str (fun _ s =>
    match s with
    | [PPh n] => if ph_handled k n then
                   Some [V (AQuery expr (match find (fun p => str_eqb (fst p) n) mapping with
                                         | Some (_, (x :: _) as m) => m      (* mapping.get(name) or name *)
                                         | _ => n end))]
                 else None
    | _ => None
    end).

(* ---------- HashesFieldsDetectionItemTransformation (values.py l.38-195) ---------- *)
Fixpoint split_go (c : char) (s : str) (acc : str) : list str :=
  match s with
  | [] => [acc]
  | x :: r => if N.eqb x c then acc :: split_go c r [] else split_go c r (acc ++ [x])
  end.
Definition split_on (c : char) (s : str) : list str := split_go c s [].      (* str.split(c) *)
Fixpoint lstrip (cs : str) (s : str) : str :=
  match s with x :: r => if mem x cs then lstrip cs r else s | [] => [] end.
Definition strip (cs : str) (s : str) : str := rev (lstrip cs (rev (lstrip cs s))).
Definition s_md5 : str := [77; 68; 53].
Definition s_sha1 : str := [83; 72; 65; 49].
Definition s_sha256 : str := [83; 72; 65; 50; 53; 54].
Definition s_sha512 : str := [83; 72; 65; 53; 49; 50].
Definition s_keyword : str := [107; 101; 121; 119; 111; 114; 100].
Definition hash_by_len (n : nat) : str :=
  if Nat.eqb n 32 then s_md5 else if Nat.eqb n 40 then s_sha1 else if Nat.eqb n 64 then s_sha256
  else if Nat.eqb n 128 then s_sha512 else [].
Record hcfg := mkH { h_valid : list str; h_prefix : str; h_drop : bool; h_fields : list str }.
(* _extract_hash_algo_and_value *)
Definition hash_extract (H : hcfg) (v : str) : str * str :=
  let parts := if mem c_pipe v then split_on c_pipe v else split_on c_eq v in
  let ah := match parts with
            | [a; h] => (map upper_c (lstrip [c_star] a), strip [c_star; c_qm] h)
            | p :: _ => let h := strip [c_star; c_qm] p in (hash_by_len (length h), h)
            | [] => ([], [])
            end in
  if mem_str (fst ah) (h_valid H) then ah else ([], snd ah).
(* algo_dict[field_name].append(hash_value): a dict keeps first-insertion order *)
Fixpoint dict_add (k v : str) (d : list (str * list str)) : list (str * list str) :=
  match d with
  | [] => [(k, [v])]
  | (k', vs) :: r => if str_eqb k k' then (k', vs ++ [v]) :: r else (k', vs) :: dict_add k v r
  end.
Definition dict_group (pairs : list (str * str)) : list (str * list str) :=
  fold_left (fun d p => dict_add (fst p) (snd p) d) pairs [].
Definition is_strv (v : value) : bool := match v with V (AStr _ _) => true | _ => false end.
Definition nonempty (s : str) : bool := match s with [] => false | _ => true end.
(* _parse_hash_values *)
Definition hash_pairs (H : hcfg) (vs : list value) : list (str * str) :=
  flat_map (fun v => match v with
                     | V (AStr _ s) =>
                         let ah := hash_extract H (to_plain false s) in
                         if nonempty (fst ah) then [(h_prefix H ++ (if h_drop H then [] else fst ah), snd ah)] else []
                     | _ => []
                     end) vs.
Definition hash_entry (i : ditem) (neg : bool) (g : str * list str) : ditem :=
  mkI (if str_eqb (fst g) s_keyword then None else Some (fst g))
      (map (fun h => V (AStr false (parse true h))) (snd g)) (i_all i) neg [].
(* apply_detection_item + _create_new_detection_items (repaired: value linking and negation are kept, fix 0dde42a);
   "no valid hash algorithm" / empty detection raise errors: outside the model *)
Definition hashes_item (H : hcfg) (i : ditem) : rep :=
  match i_field i with
  | Some f =>
      if mem_str f (h_fields H) && forallb is_strv (i_vals i) then
        Repl (DD (map (fun g => DI (hash_entry i (i_neg i) g))
                      (filter (fun g => nonempty (fst g)) (dict_group (hash_pairs H (i_vals i)))))
                 (xorb (i_all i) (i_neg i)))
      else Keep
  | None => Keep
  end.

(* ---------- ExtractFieldsTransformation (values.py): re.match with named groups is an oracle
   (table plain form -> None | groupdict), Python's int()/float() reading too ---------- *)
Record xcfg := mkX {
  x_prefix : option str;                                    (* field_prefix (None also for "") *)
  x_preserve : bool;                                        (* preserve_unmatched *)
  x_tbl : list (str * option (list (str * option str)));    (* plain form -> match.groupdict() *)
  x_num : list (str * str)                                  (* captured text -> printed number *)
}.
Definition s_null : str := [110; 117; 108; 108].
Definition s_none : str := [110; 111; 110; 101].
(* _convert_value *)
Definition extract_conv (X : xcfg) (v : str) : aval :=
  let lv := map lower_c v in
  if str_eqb lv s_null || str_eqb lv s_none || negb (nonempty v) then ANull
  else if negb (str_eqb v [48]) && prefixb [48] v then AStr false (parse true v)
  else match find (fun p => str_eqb (fst p) v) (x_num X) with
       | Some p => ANum (snd p)
       | None => AStr false (parse true v)
       end.
Definition extract_fname (X : xcfg) (g : str) : str :=
  match x_prefix X with Some p => p ++ [c_dot] ++ g | None => g end.
Definition extract_group_items (X : xcfg) (groups : list (str * option str)) : list ditem :=
  flat_map (fun g => match snd g with
                     | Some gv => if nonempty gv then [mkI (Some (extract_fname X (fst g))) [V (extract_conv X gv)] false false []] else []
                     | None => []
                     end) groups.
Definition extract_lookup (X : xcfg) (s : sstring) : option (list (str * option str)) :=
  match find (fun p => str_eqb (fst p) (to_plain false s)) (x_tbl X) with Some p => snd p | None => None end.
Definition extract_dets (X : xcfg) (i : ditem) : list det :=
  flat_map (fun v => match v with
                     | V (AStr _ s) =>
                         match extract_lookup X s with
                         | Some groups => match extract_group_items X groups with
                                          | [] => []
                                          | items => [DD (map DI items) true]
                                          end
                         | None => if x_preserve X then [DI (mkI (i_field i) [v] false false [])] else []
                         end
                     | _ => []
                     end) (i_vals i).
Definition extract_item (X : xcfg) (i : ditem) : rep :=
  if forallb is_strv (i_vals i) then
    match extract_dets X i with
    | [] => Keep
    | [x] => Repl x
    | l => Repl (DD l (i_all i))
    end
  else Keep.

(* ---------- DropDetectionItemTransformation ---------- *)
Definition drop_item (_ : ditem) : rep := Delete.

(* ---------- rules, processing items, pipelines ---------- *)
(* rule-level attributes transformations set and later processing items read: log source
   (category, product, service), custom attributes, pipeline state (reset for every rule by
   ProcessingPipeline.apply), identifiers of the processing items applied to the rule; values are printed *)
Record rattrs := mkA {
  a_logsource : option str * (option str * option str);
  a_custom : list (str * str);
  a_state : list (str * str);
  a_applied : list str
}.
Definition attrs0 : rattrs := mkA (None, (None, None)) [] [] [].
Record rule := mkRule { r_dets : list (str * det); r_cond : str; r_fields : list str; r_attrs : rattrs }.
Definition mkR (ds : list (str * det)) (c : str) (fs : list str) : rule := mkRule ds c fs attrs0.

Inductive fcond := FInc (l : list str) | FExc (l : list str).
Definition fc_match (c : fcond) (f : option str) : bool :=
  match c, f with
  | FInc _, None => false
  | FInc l, Some s => mem_str s l
  | FExc _, None => true
  | FExc l, Some s => negb (mem_str s l)
  end.
(* detection item conditions (conditions/values.py), cond = any / all *)
Inductive icond := IIsNull (call : bool) | IWild (call : bool) | IApplied (id : str).   (* processing_item_applied *)
Definition quant (call : bool) (p : value -> bool) (vs : list value) : bool :=
  if call then forallb p vs else existsb p vs.
Definition ic_match (c : icond) (i : ditem) : bool :=
  match c with
  | IIsNull call => quant call (fun v => match v with V ANull => true | _ => false end) (i_vals i)
  | IWild call => quant call (fun v => match v with V (AStr _ s) => contains_special s | _ => false end) (i_vals i)
  | IApplied id => mem_str id (i_applied i)
  end.
(* rule conditions (conditions/rule.py, state.py): logsource (unspecified attributes are ignored),
   processing_item_applied, processing_state eq, rule_attribute eq / ne on a custom string attribute *)
Inductive rcond :=
| RLogsource (c p s : option str)
| RApplied (id : str)
| RState (k v : str)
| RAttr (ne : bool) (k v : str).
Record conds := mkC {
  c_id : option str;           (* identifier of the processing item *)
  c_rule : bool;               (* match_rule_conditions; rules_consistent checks it against c_rconds on the model's rule *)
  c_rconds : list rcond; c_rneg : bool;     (* rule_conditions, linking all, rule_cond_not *)
  c_fconds : list fcond; c_fneg : bool;     (* field_name_conditions, linking all, field_name_cond_not *)
  c_iconds : list icond; c_ineg : bool      (* detection_item_conditions, linking all, detection_item_cond_not *)
}.
(* ProcessingItem.match_field_name / match_detection_item (pipeline.py l.558-625) *)
Definition fm_of (c : conds) (f : option str) : bool :=
  xorb (c_fneg c) (forallb (fun x => fc_match x f) (c_fconds c)).
Definition im_of (c : conds) (i : ditem) : bool :=
  xorb (c_ineg c) (forallb (fun x => ic_match x i) (c_iconds c)) &&
  xorb (c_fneg c) (forallb (fun x => fc_match x (i_field i) ||
                                     existsb (fun v => match v with V (ARef g _ _) => fc_match x (Some g) | _ => false end)
                                             (i_vals i)) (c_fconds c)).

Inductive setv := SVal (a : aval).
Inductive tspec :=
| TFieldMap (m : list (option str * fres))
| TPrefixMap (m : list (str * fres))
| TPrefix (p : str)
| TSuffix (s : str)
| TDrop
| TAddCond (name : str) (d : det) (neg : bool)   (* detection = from_definition(substituted conditions) *)
| TSetValue (a : aval)
| TCase (m : casem)
| TMapString (m : list (str * list str))
| TReplace (tbl : list (str * str))              (* re.sub as a finite table on the plain forms that occur *)
| TConvertStr
| TWildPh (k : phsel)
| TValuePh (k : phsel) (vars : list (str * list str))
| TRegex (m : remethod)
| TConvertNum (tbl : list (str * str))
| TQueryPh (k : phsel) (expr : str) (mapping : list (str * str))
| THashes (H : hcfg)
| TExtract (X : xcfg)
| TChangeLogsource (c p s : option str)   (* rule.py: a fresh SigmaLogSource(category, product, service) *)
| TSetCustom (k v : str)
| TSetState (k v : str)
| TAddField (l : list str) | TRemoveField (l : list str) | TSetField (l : list str)
| TNoop.                                         (* set_state, change_logsource, add_field ...: no effect on detections *)

Definition tbl_sub (tbl : list (str * str)) (s : str) : str :=
  match find (fun p => str_eqb (fst p) s) tbl with Some p => snd p | None => s end.

Definition map_dets (f : det -> det) (r : rule) : rule :=
  mkRule (map (fun p => (fst p, f (snd p))) (r_dets r)) (r_cond r) (r_fields r) (r_attrs r).

(* AddConditionTransformation.apply_condition *)
Definition s_not : str := [110; 111; 116; 32].                 (* "not " *)
Definition s_and_open : str := [32; 97; 110; 100; 32; 40].     (* " and (" *)
Definition add_cond_text (name : str) (neg : bool) (c : str) : str :=
  (if neg then s_not else []) ++ match c with [] => name | _ => name ++ s_and_open ++ c ++ [c_rpar] end.
(* rule.detection.detections[name] = ... : dict assignment (replace in place or append) *)
Fixpoint dict_set {A} (k : str) (v : A) (l : list (str * A)) : list (str * A) :=
  match l with
  | [] => [(k, v)]
  | (k', v') :: r => if str_eqb k k' then (k, v) :: r else (k', v') :: dict_set k v r
  end.

(* list.remove(x): the first occurrence; a missing field is ignored (fields.py RemoveFieldTransformation) *)
Fixpoint remove_first (f : str) (l : list str) : list str :=
  match l with [] => [] | x :: r => if str_eqb x f then r else x :: remove_first f r end.

Definition apply_fieldmap (c : conds) (afn : option str -> fres) (r : rule) : rule :=
  let r' := map_dets (walk_top (marked (c_id c) (gated (im_of c) (fieldmap_item (fm_of c) afn)))) r in
  mkRule (r_dets r') (r_cond r') (fieldmap_fields (fm_of c) afn (r_fields r)) (r_attrs r).
Definition apply_values (c : conds) (tv : option str -> value -> option (list value)) (r : rule) : rule :=
  map_dets (walk_top (marked (c_id c) (gated (im_of c) (value_item tv)))) r.

Definition apply_tspec (c : conds) (t : tspec) (r : rule) : rule :=
  match t with
  | TFieldMap m => apply_fieldmap c (afn_mapping m) r
  | TPrefixMap m => apply_fieldmap c (afn_prefixmap m) r
  | TPrefix p => apply_fieldmap c (afn_prefix p) r
  | TSuffix s => apply_fieldmap c (afn_suffix s) r
  | TDrop => map_dets (walk_top (gated (im_of c) drop_item)) r
  | TAddCond name d neg => mkRule (dict_set name (mark_det (c_id c) d) (r_dets r)) (add_cond_text name neg (r_cond r)) (r_fields r) (r_attrs r)
  | TSetValue a => apply_values c (tv_set a) r
  | TCase m => apply_values c (tv_case m) r
  | TMapString m => apply_values c (tv_mapstring m) r
  | TReplace tbl => apply_values c (tv_replace (tbl_sub tbl)) r
  | TConvertStr => apply_values c tv_convert_str r
  | TWildPh k => apply_values c (tv_placeholder k repl_wild) r
  | TValuePh k vars => apply_values c (tv_placeholder k (repl_vars vars)) r
  | TRegex m => apply_values c (tv_regex m) r
  | TConvertNum tbl => apply_values c (tv_convert_num tbl) r
  | TQueryPh k e m => apply_values c (tv_queryph k e m) r
  | THashes H => map_dets (walk_top (marked (c_id c) (gated (im_of c) (hashes_item H)))) r
  | TExtract X => map_dets (walk_top (marked (c_id c) (gated (im_of c) (extract_item X)))) r
  | TChangeLogsource c0 p s =>
      mkRule (r_dets r) (r_cond r) (r_fields r)
             (mkA (c0, (p, s)) (a_custom (r_attrs r)) (a_state (r_attrs r)) (a_applied (r_attrs r)))
  | TSetCustom k v =>
      mkRule (r_dets r) (r_cond r) (r_fields r)
             (mkA (a_logsource (r_attrs r)) (dict_set k v (a_custom (r_attrs r))) (a_state (r_attrs r)) (a_applied (r_attrs r)))
  | TSetState k v =>
      mkRule (r_dets r) (r_cond r) (r_fields r)
             (mkA (a_logsource (r_attrs r)) (a_custom (r_attrs r)) (dict_set k v (a_state (r_attrs r))) (a_applied (r_attrs r)))
  | TAddField l => mkRule (r_dets r) (r_cond r) (r_fields r ++ l) (r_attrs r)
  | TRemoveField l => mkRule (r_dets r) (r_cond r) (fold_left (fun fs f => remove_first f fs) l (r_fields r)) (r_attrs r)
  | TSetField l => mkRule (r_dets r) (r_cond r) l (r_attrs r)
  | TNoop => r
  end.

(* PreprocessingTransformation.apply: every applied transformation marks the rule with its identifier *)
Definition mark_rule (id : option str) (r : rule) : rule :=
  match id with
  | Some x => mkRule (r_dets r) (r_cond r) (r_fields r)
                     (mkA (a_logsource (r_attrs r)) (a_custom (r_attrs r)) (a_state (r_attrs r)) (add_id x (a_applied (r_attrs r))))
  | None => r
  end.
(* ProcessingItem.apply: rule conditions gate the transformation *)
Definition apply_item (it : conds * tspec) (r : rule) : rule :=
  if c_rule (fst it) then mark_rule (c_id (fst it)) (apply_tspec (fst it) (snd it) r) else r.
(* ProcessingPipeline.apply; NestedProcessingTransformation = the nested items in sequence *)
Inductive pitem := PItem (c : conds) (t : tspec) | PNest (c : conds) (items : list (conds * tspec)).
Definition apply_pitem (p : pitem) (r : rule) : rule :=
  match p with
  | PItem c t => apply_item (c, t) r
  | PNest c items => if c_rule c then fold_left (fun r it => apply_item it r) items (mark_rule (c_id c) r) else r
  end.
Definition apply_pipeline (p : list pitem) (r : rule) : rule := fold_left (fun r it => apply_pitem it r) p r.

(* ProcessingItemBase.match_rule_conditions on the model's rule *)
Definition opt_sub (c : option str) (x : option str) : bool :=
  match c with None => true | Some _ => opt_str_eqb c x end.
Definition lookup_str (k : str) (l : list (str * str)) : option str :=
  match find (fun p => str_eqb (fst p) k) l with Some p => Some (snd p) | None => None end.
Definition rc_match (r : rule) (c : rcond) : bool :=
  match c with
  | RLogsource c0 p s =>
      let l := a_logsource (r_attrs r) in
      opt_sub c0 (fst l) && opt_sub p (fst (snd l)) && opt_sub s (snd (snd l))
  | RApplied id => mem_str id (a_applied (r_attrs r))
  | RState k v => opt_str_eqb (lookup_str k (a_state (r_attrs r))) (Some v)
  | RAttr ne k v => match lookup_str k (a_custom (r_attrs r)) with
                    | Some x => xorb ne (str_eqb x v)
                    | None => false
                    end
  end.
Definition rule_match (c : conds) (r : rule) : bool :=
  match c_rconds c with
  | [] => true
  | l => xorb (c_rneg c) (forallb (rc_match r) l)
  end.
(* the c_rule flags of a pipeline are what match_rule_conditions gives on the rule at that point *)
Fixpoint items_consistent (its : list (conds * tspec)) (r : rule) : bool :=
  match its with
  | [] => true
  | it :: rest => Bool.eqb (c_rule (fst it)) (rule_match (fst it) r) && items_consistent rest (apply_item it r)
  end.
Fixpoint rules_consistent (ps : list pitem) (r : rule) : bool :=
  match ps with
  | [] => true
  | p :: rest =>
      match p with
      | PItem c t => Bool.eqb (c_rule c) (rule_match c r)
      | PNest c items => Bool.eqb (c_rule c) (rule_match c r) &&
                         (negb (c_rule c) || items_consistent items (mark_rule (c_id c) r))
      end && rules_consistent rest (apply_pitem p r)
  end.
