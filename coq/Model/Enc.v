(* Model of the encoding modifiers of sigma/modifiers.py (base64, base64offset, wide, utf16be,
   utf16; contains as a possible last element of a chain), of SigmaString.__bytes__, and of the
   library functions they call (base64.b64encode, str.encode, bytes.decode). Definitions only. *)
From Coq Require Import NArith List Bool.
From PS Require Import Base.Chars Base.Outcome Model.SString Spec.Items Spec.Utf.
Import ListNotations.
Open Scope N_scope.

(* ---------- base64.b64encode (binascii.b2a_base64): three octets -> four characters ---------- *)
Definition alpha (n : N) : char :=
  if n <? 26 then 65 + n
  else if n <? 52 then 97 + (n - 26)
  else if n <? 62 then 48 + (n - 52)
  else if n =? 62 then 43 else 47.

Fixpoint b64 (bs : list N) : str :=
  match bs with
  | [] => []
  | [a] => [alpha (a / 4); alpha ((a mod 4) * 16); 61; 61]
  | [a; b] => [alpha (a / 4); alpha ((a mod 4) * 16 + b / 16); alpha ((b mod 16) * 4); 61]
  | a :: b :: c :: r =>
      alpha (a / 4) :: alpha ((a mod 4) * 16 + b / 16) :: alpha ((b mod 16) * 4 + c / 64)
      :: alpha (c mod 64) :: b64 r
  end.

(* ---------- str.encode: 'utf-8', 'utf-16le', 'utf-16be' raise UnicodeEncodeError on surrogates ---------- *)
Definition py_encode (enc : str -> list N) (s : str) : option (list N) :=
  if forallb scalar s then Some (enc s) else None.

(* ---------- bytes.decode('utf-8'), strict: None where CPython raises UnicodeDecodeError ---------- *)
Definition cont (b : N) : bool := (128 <=? b) && (b <=? 191).
Fixpoint utf8_dec (bs : list N) : option str :=
  match bs with
  | [] => Some []
  | b0 :: r0 =>
    if b0 <? 128 then option_map (cons b0) (utf8_dec r0)
    else if b0 <? 194 then None                   (* continuation octet, or overlong C0 / C1 *)
    else if b0 <? 224 then
      match r0 with
      | b1 :: r1 =>
          if cont b1 then option_map (cons ((b0 - 192) * 64 + (b1 - 128))) (utf8_dec r1) else None
      | _ => None
      end
    else if b0 <? 240 then
      match r0 with
      | b1 :: b2 :: r2 =>
          if (if b0 =? 224 then 160 <=? b1 else 128 <=? b1)        (* E0: no overlong forms *)
             && (if b0 =? 237 then b1 <=? 159 else b1 <=? 191)     (* ED: no surrogates *)
             && cont b2
          then option_map (cons ((b0 - 224) * 4096 + (b1 - 128) * 64 + (b2 - 128))) (utf8_dec r2)
          else None
      | _ => None
      end
    else if b0 <? 245 then
      match r0 with
      | b1 :: b2 :: b3 :: r3 =>
          if (if b0 =? 240 then 144 <=? b1 else 128 <=? b1)        (* F0: no overlong forms *)
             && (if b0 =? 244 then b1 <=? 143 else b1 <=? 191)     (* F4: at most 10FFFF *)
             && cont b2 && cont b3
          then option_map (cons ((b0 - 240) * 262144 + (b1 - 128) * 4096 + (b2 - 128) * 64 + (b3 - 128)))
                          (utf8_dec r3)
          else None
      | _ => None
      end
    else None
  end.

(* ---------- SigmaString.__bytes__ : self.to_plain(regex=True).encode() ---------- *)
Definition bytes_of (v : sstring) : option (list N) := py_encode utf8 (to_plain true v).

(* ---------- SigmaBase64OffsetModifier: start_offsets, end_offsets, the slice ---------- *)
Definition start_off (i : nat) : nat := match i with 0 => 0 | 1 => 2 | _ => 3 end%nat.
(* end_offsets = (None, -3, -2): number of characters cut from the end *)
Definition end_cut (r : nat) : nat := match r with 0 => 0 | 1 => 3 | _ => 2 end%nat.
(* t[a : len(t) - cut]  (t[a:] for cut = 0); empty when the bounds cross *)
Definition py_slice (a cut : nat) (t : str) : str :=
  firstn (length t - cut - a) (skipn a t).
(* b64encode(i * b" " + b)[start_offsets[i] : end_offsets[(len(b) + i) % 3]] *)
Definition variant (i : nat) (b : list N) : str :=
  py_slice (start_off i) (end_cut (Nat.modulo (length b + i) 3)) (b64 (repeat 32 i ++ b)).

(* ---------- the modifiers ---------- *)
Inductive emod := MBase64 | MBase64Offset | MWide | MUtf16be | MUtf16 | MContains.

(* values of a detection item: a string, an expansion of values, anything else (number, bool, null) *)
Inductive sval := VStr (v : sstring) | VExp (l : list sval) | VOther.

(* the loop of SigmaWideModifier / SigmaUTF16BEModifier.modify: string parts are encoded and
   decoded again as UTF-8, every other part is kept *)
Fixpoint recode (enc : str -> list N) (v : sstring) : outcome sstring :=
  match v with
  | [] => Ok []
  | PStr s :: v' =>
      match py_encode enc s with
      | None => SigmaErr E_Value                       (* UnicodeEncodeError -> SigmaValueError *)
      | Some bs =>
        match utf8_dec bs with
        | None => SigmaErr E_Value                     (* UnicodeDecodeError -> SigmaValueError *)
        | Some s' => obind (recode enc v') (fun r => Ok (PStr s' :: r))
        end
      end
  | p :: v' => obind (recode enc v') (fun r => Ok (p :: r))
  end.

(* SigmaString._merge_strs *)
Fixpoint merge_strs (v : sstring) : sstring :=
  match v with
  | [] => []
  | PStr a :: r => match merge_strs r with
                   | PStr b :: r' => PStr (a ++ b) :: r'
                   | r' => PStr a :: r'
                   end
  | p :: r => p :: merge_strs r
  end.
Definition starts_multi (v : sstring) : bool := match v with PMulti :: _ => true | _ => false end.
Definition ends_multi (v : sstring) : bool := starts_multi (rev v).
(* SigmaContainsModifier.modify on a string *)
Definition contains_mod (v : sstring) : sstring :=
  let v1 := if starts_multi v then v else merge_strs (PMulti :: v) in
  if ends_multi v1 then v1 else merge_strs (v1 ++ [PMulti]).

(* modify() on a SigmaString *)
Definition mod_str (m : emod) (v : sstring) : outcome sval :=
  match m with
  | MBase64 =>
      if contains_special v then SigmaErr E_Value
      else match bytes_of v with
           | None => SigmaErr E_Value
           | Some b => Ok (VStr (parse true (b64 b)))
           end
  | MBase64Offset =>
      if contains_special v then SigmaErr E_Value
      else match bytes_of v with
           | None => SigmaErr E_Value
           | Some b => Ok (VExp [VStr (parse true (variant 0 b)); VStr (parse true (variant 1 b));
                                 VStr (parse true (variant 2 b))])
           end
  | MWide => obind (recode utf16le v) (fun r => Ok (VStr r))
  | MUtf16be => obind (recode utf16be v) (fun r => Ok (VStr r))
  | MUtf16 => obind (recode utf16le v) (fun r => Ok (VStr (PStr [65279] :: r)))   (* "﻿" part first *)
  | MContains => Ok (VStr (contains_mod v))
  end.

(* "[y for x in l for y in f(x)]" where every f(x) has one element; the first exception wins *)
Definition omap {A B} (f : A -> outcome B) : list A -> outcome (list B) :=
  fix go (l : list A) : outcome (list B) :=
    match l with
    | [] => Ok []
    | y :: r => obind (f y) (fun a => obind (go r) (fun b => Ok (a :: b)))
    end.

(* SigmaModifier.apply: expansions are mapped element-wise and wrapped again; type_check rejects
   everything that is not a string. Each of these modifiers returns exactly one value. *)
Fixpoint apply_val (m : emod) (x : sval) : outcome sval :=
  match x with
  | VStr v => mod_str m v
  | VOther => SigmaErr E_Type
  | VExp l => obind (omap (apply_val m) l) (fun l' => Ok (VExp l'))
  end.

(* one modifier over the value list of the detection item *)
Definition apply_all (m : emod) (xs : list sval) : outcome (list sval) := omap (apply_val m) xs.

(* SigmaDetectionItem.apply_modifiers *)
Fixpoint apply_chain (ms : list emod) (xs : list sval) : outcome (list sval) :=
  match ms with
  | [] => Ok xs
  | m :: ms' => obind (apply_all m xs) (apply_chain ms')
  end.

(* sigma_type(): str -> SigmaString(v); other Python values are not strings *)
Inductive pval := PVStr (s : str) | PVOther.
Definition sigma_type (p : pval) : sval :=
  match p with PVStr s => VStr (parse true s) | PVOther => VOther end.
Definition from_mapping (ms : list emod) (ps : list pval) : outcome (list sval) :=
  apply_chain ms (map sigma_type ps).
