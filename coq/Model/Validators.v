(* C19 - model of rule validation: sigma/validation.py (SigmaValidator.validate_rule, finalize,
   validate_rules with exclusions), sigma/validators/core/condition.py (DanglingDetectionValidator,
   DanglingConditionValidator over the unpostprocessed parse tree) and
   sigma/validators/core/metadata.py (IdentifierExistence, IdentifierUniqueness, DuplicateTitle,
   DuplicateFilename: accumulate in validate(), report in finalize()).

   A rule is what these validators read of it.  r_key is the identity of the rule object (the
   issues carry rule objects; the harness numbers them by their position in the source collection).
   Hash-order of Python sets is an explicit parameter where it is observable:
     - the validator instances are held in a set: the iteration order is the order of the list
       `vs` handed to the model (any list; theorems quantify over all of them),
     - `detection_names - referenced_ids` and the set of unknown patterns are iterated in set
       order: the model lists them in document order / first-occurrence order and the theorems speak
       about membership and multiplicity only. *)
From Coq Require Import NArith List Bool Arith.
From PS Require Import Base.Chars Base.Outcome Model.VCond.
Import ListNotations.
Open Scope N_scope.

Record rule := {
  r_key   : N;                    (* identity of the rule object *)
  r_corr  : bool;                 (* SigmaCorrelationRule: no detections *)
  r_id    : option str;           (* rule.id (canonical UUID text) *)
  r_title : option str;           (* rule.title (always a str for loaded rules) *)
  r_path  : option (list str);    (* rule.source.path as path components; name = last component *)
  r_dets  : list str;             (* rule.detection.detections.keys(), dict order *)
  r_conds : list str              (* rule.detection.condition (texts) *)
}.

Inductive vkind := VUnused | VDangling | VIdExist | VIdUniq | VTitle | VFile.

Definition vkind_eqb (a b : vkind) : bool :=
  match a, b with
  | VUnused, VUnused | VDangling, VDangling | VIdExist, VIdExist
  | VIdUniq, VIdUniq | VTitle, VTitle | VFile, VFile => true
  | _, _ => false
  end.

Inductive issue :=
| IUnused (r : N) (name : str)           (* DanglingDetectionIssue([rule], name) *)
| IDangling (r : N) (pat : str)          (* DanglingConditionIssue([rule], pattern) *)
| INoId (r : N)                          (* IdentifierExistenceIssue([rule]) *)
| IIdColl (rs : list N) (v : str)        (* IdentifierCollisionIssue(rules, id) *)
| ITitle (rs : list N) (v : str)         (* DuplicateTitleIssue(rules, title) *)
| IFile (rs : list N) (v : str).         (* DuplicateFilenameIssue(rules, filename) *)

(* ---------- reference analysis over the parse tree ---------- *)
Definition mem_str (n : str) (l : list str) : bool := existsb (str_eqb n) l.

(* condition_referenced_ids: Identifier -> {identifier}; Selector -> resolved names;
   other ConditionItem -> union over args *)
Fixpoint refs (dets : list str) (t : ptree) {struct t} : list str :=
  match t with
  | PId n => [n]
  | PSel _ p => resolve dets p
  | PNot a => refs dets a
  | PAnd l => flat_map (refs dets) l
  | POr l => flat_map (refs dets) l
  end.

(* condition_unknown_referenced_ids: Selector resolving to nothing -> {pattern} *)
Fixpoint unknown (dets : list str) (t : ptree) {struct t} : list str :=
  match t with
  | PId _ => []
  | PSel _ p => match resolve dets p with [] => [p] | _ => [] end
  | PNot a => unknown dets a
  | PAnd l => flat_map (unknown dets) l
  | POr l => flat_map (unknown dets) l
  end.

Fixpoint sequence {A} (l : list (outcome A)) : outcome (list A) :=
  match l with
  | [] => Ok []
  | x :: r => obind x (fun a => obind (sequence r) (fun b => Ok (a :: b)))
  end.

(* [condition.parse(False) for condition in rule.detection.parsed_condition]; the first condition
   that does not parse raises SigmaConditionError *)
Definition parse_all (conds : list str) : outcome (list ptree) := sequence (map parse conds).

Fixpoint dedup (l : list str) : list str :=
  match l with
  | [] => []
  | x :: r => if mem_str x r then dedup r else x :: dedup r
  end.

(* ---------- per-instance state (metadata.py) ---------- *)
(* defaultdict(list): insertion-ordered association list, value = rules appended so far *)
Definition tbl := list (str * list N).

Fixpoint tbl_add (k : str) (r : N) (t : tbl) : tbl :=
  match t with
  | [] => [(k, [r])]
  | (k', rs) :: t' => if str_eqb k k' then (k', rs ++ [r]) :: t' else (k', rs) :: tbl_add k r t'
  end.

Fixpoint tbl_get (k : str) (t : tbl) : list N :=
  match t with
  | [] => []
  | (k', rs) :: t' => if str_eqb k k' then rs else tbl_get k t'
  end.

(* defaultdict(set) filename -> set of str(path) *)
Definition path_eqb (a b : list str) : bool := list_eqb str_eqb a b.
Definition ptbl := list (str * list (list str)).

Fixpoint ptbl_add (k : str) (p : list str) (t : ptbl) : ptbl :=
  match t with
  | [] => [(k, [p])]
  | (k', ps) :: t' =>
      if str_eqb k k' then (k', if existsb (path_eqb p) ps then ps else ps ++ [p]) :: t'
      else (k', ps) :: ptbl_add k p t'
  end.

Record vstate := { s_tbl : tbl; s_paths : ptbl }.
Definition s_init : vstate := {| s_tbl := []; s_paths := [] |}.

Definition path_name (p : list str) : str := last p [].

(* validator.validate(rule): the issues returned for the rule (may raise) *)
Definition v_check (v : vkind) (r : rule) : outcome (list issue) :=
  match v with
  | VUnused =>
      if r_corr r then Ok []
      else obind (parse_all (r_conds r)) (fun ts =>
             let referenced := flat_map (refs (r_dets r)) ts in
             Ok (map (IUnused (r_key r))
                     (filter (fun n => negb (mem_str n referenced)) (dedup (r_dets r)))))
  | VDangling =>
      if r_corr r then Ok []
      else obind (parse_all (r_conds r)) (fun ts =>
             Ok (map (IDangling (r_key r)) (dedup (flat_map (unknown (r_dets r)) ts))))
  | VIdExist => match r_id r with None => Ok [INoId (r_key r)] | Some _ => Ok [] end
  | VIdUniq | VTitle | VFile => Ok []
  end.

(* validator.validate(rule): the effect on the instance's tables *)
Definition v_acc (v : vkind) (s : vstate) (r : rule) : vstate :=
  match v with
  | VIdUniq => match r_id r with
               | Some i => {| s_tbl := tbl_add i (r_key r) (s_tbl s); s_paths := s_paths s |}
               | None => s end
  | VTitle => match r_title r with
              | Some t => {| s_tbl := tbl_add t (r_key r) (s_tbl s); s_paths := s_paths s |}
              | None => s end
  | VFile => match r_path r with
             | Some p => {| s_tbl := tbl_add (path_name p) (r_key r) (s_tbl s);
                            s_paths := ptbl_add (path_name p) p (s_paths s) |}
             | None => s end
  | _ => s
  end.

Definition v_validate (v : vkind) (s : vstate) (r : rule) : outcome (list issue * vstate) :=
  obind (v_check v r) (fun l => Ok (l, v_acc v s r)).

(* validator.finalize() *)
Definition v_finalize (v : vkind) (s : vstate) : list issue :=
  match v with
  | VIdUniq => flat_map (fun kr => if (1 <? length (snd kr))%nat then [IIdColl (snd kr) (fst kr)] else []) (s_tbl s)
  | VTitle => flat_map (fun kr => if (1 <? length (snd kr))%nat then [ITitle (snd kr) (fst kr)] else []) (s_tbl s)
  | VFile => flat_map (fun kp => if (1 <? length (snd kp))%nat
                                 then [IFile (tbl_get (fst kp) (s_tbl s)) (fst kp)] else []) (s_paths s)
  | _ => []
  end.

(* ---------- SigmaValidator ---------- *)
Definition inst := (vkind * vstate)%type.
(* exclusions: defaultdict(set, {rule id or None: set of validator classes}) *)
Definition oid_eqb (a b : option str) : bool := option_eqb str_eqb a b.
Definition excl := list (option str * list vkind).

Fixpoint excl_get (E : excl) (i : option str) : list vkind :=
  match E with
  | [] => []
  | (k, vs) :: E' => if oid_eqb i k then vs else excl_get E' i
  end.

Definition excluded (E : excl) (r : rule) (v : vkind) : bool :=
  existsb (vkind_eqb v) (excl_get E (r_id r)).

(* validate_rule: for validator in self.validators: if class not in exclusions: issues.extend(...) *)
Fixpoint validate_rule (E : excl) (insts : list inst) (r : rule) : outcome (list issue * list inst) :=
  match insts with
  | [] => Ok ([], [])
  | (v, s) :: rest =>
      if excluded E r v then
        obind (validate_rule E rest r) (fun x => Ok (fst x, (v, s) :: snd x))
      else
        obind (v_validate v s r) (fun y =>
          obind (validate_rule E rest r) (fun x => Ok (fst y ++ fst x, (v, snd y) :: snd x)))
  end.

Definition finalize (insts : list inst) : list issue :=
  flat_map (fun i => v_finalize (fst i) (snd i)) insts.

Fixpoint validate_loop (E : excl) (insts : list inst) (rules : list rule) : outcome (list issue * list inst) :=
  match rules with
  | [] => Ok ([], insts)
  | r :: rest =>
      obind (validate_rule E insts r) (fun y =>
        obind (validate_loop E (snd y) rest) (fun x => Ok (fst y ++ fst x, snd x)))
  end.

(* SigmaValidator(vs, E).validate_rules(rules) on fresh instances *)
Definition validate (E : excl) (vs : list vkind) (rules : list rule) : outcome (list issue) :=
  obind (validate_loop E (map (fun v => (v, s_init)) vs) rules) (fun x => Ok (fst x ++ finalize (snd x))).

(* the same SigmaValidator object validates the collection a second time: the instances keep their
   tables (finalize() does not reset them); result = issues of the first and of the second call *)
Definition validate_twice (E : excl) (vs : list vkind) (rules : list rule) : outcome (list issue * list issue) :=
  obind (validate_loop E (map (fun v => (v, s_init)) vs) rules) (fun x =>
    obind (validate_loop E (snd x) rules) (fun y =>
      Ok (fst x ++ finalize (snd x), fst y ++ finalize (snd y)))).
