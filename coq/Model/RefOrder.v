(* C09 - model of rule-reference resolution, ordering of a collection and conversion order.

   Mirrors (pySigma working tree, after the two `fix:` commits of branch wC09):
     sigma/collection.py   SigmaCollection.__post_init__ (ids_to_rules / names_to_rules, last writer wins),
                           __getitem__ (reference string: UUID -> id table only, otherwise name table),
                           resolve_rule_references (resolve, then stable depth-first topological order)
     sigma/correlations.py SigmaCorrelationRule.resolve_rule_references (backreference, disable_output
                           unless generate), SigmaRuleReference.resolve
     sigma/conversion/base.py Backend.convert (resolves + orders a second time, converts in list order),
                           convert_rule / convert_correlation_rule (result stored on the rule object,
                           emitted only when _output), convert_correlation_search (get_conversion_result
                           of every referenced rule; SigmaConversionError when not yet available)
   and, as documentation of defect D22, the ORIGINAL ordering step `sorted(self.rules)` with
   __lt__ = "is referenced by" (CPython list.sort for n < 64: count_run + binary insertion).

   A rule object is identified by its position in the list of documents the collection was
   initialised with (object identity in Python).  Definitions only. *)
From Coq Require Import NArith List Bool Arith.
From PS Require Import Base.Chars Base.Outcome.
Import ListNotations.
Local Open Scope nat_scope.

(* a reference string: Python's UUID(s) accepts it (u = canonical text of that UUID) or not *)
Inductive ref := RId (u : str) | RName (n : str).

Inductive ctype :=
| CTemporal                      (* condition defaults to  gte len(rules) *)
| CEventCount (cnt : str).       (* condition  gte: cnt  (decimal digits) *)

Inductive body :=
| Plain (values : list str)      (* detection s_k: {f: v_k}; condition [s_0, ..] : one query per value *)
| Corr (ty : ctype) (refs : list ref) (generate : bool) (groupby timespan : str).

Record doc := { d_title : str; d_name : option str; d_id : option str; d_body : body }.

Definition is_corr (d : doc) : bool := match d_body d with Corr _ _ _ _ _ => true | _ => false end.
Definition doc_refs (d : doc) : list ref := match d_body d with Corr _ rs _ _ _ => rs | _ => [] end.
Definition doc_generate (d : doc) : bool := match d_body d with Corr _ _ g _ _ => g | _ => true end.

(* ---------------------------------------------------------------------------------------- *)
(* name / id tables and SigmaCollection.__getitem__                                          *)
Definition matches (r : ref) (d : doc) : bool :=
  match r with
  | RId u => match d_id d with Some v => str_eqb u v | None => false end
  | RName n => match d_name d with Some v => str_eqb n v | None => false end
  end.

(* the tables are filled in document order, a later document overwrites an earlier one:
   the reference resolves to the LAST document carrying the key *)
Fixpoint lookup (ds : list doc) (r : ref) : option nat :=
  match ds with
  | [] => None
  | d :: t => match lookup t r with
              | Some j => Some (S j)
              | None => if matches r d then Some 0 else None
              end
  end.

(* SigmaCorrelationRule.resolve_rule_references: references in order, the first unknown one raises
   SigmaRuleNotFoundError (None) *)
Fixpoint resolve_refs (ds : list doc) (rs : list ref) : option (list nat) :=
  match rs with
  | [] => Some []
  | r :: t => match lookup ds r with
              | None => None
              | Some i => match resolve_refs ds t with None => None | Some l => Some (i :: l) end
              end
  end.

(* for every rule of the collection (plain rules have no references) *)
Fixpoint resolve_each (ds : list doc) (l : list doc) : option (list (list nat)) :=
  match l with
  | [] => Some []
  | d :: t => match resolve_refs ds (doc_refs d) with
              | None => None
              | Some x => match resolve_each ds t with None => None | Some y => Some (x :: y) end
              end
  end.
Definition resolve_all (ds : list doc) := resolve_each ds ds.

Definition children (rr : list (list nat)) (i : nat) : list nat := nth i rr [].
Definition memn (i : nat) (l : list nat) : bool := existsb (Nat.eqb i) l.

(* _output: False as soon as one correlation rule without generate refers to the rule *)
Definition output_flag (ds : list doc) (rr : list (list nat)) (i : nat) : bool :=
  negb (existsb (fun dr => is_corr (fst dr) && negb (doc_generate (fst dr)) && memn i (snd dr))
                (combine ds rr)).

(* ---------------------------------------------------------------------------------------- *)
(* resolve_rule_references, ordering step (repaired code): stable depth-first topological order.
     def visit(rule):
         if id(rule) in visited or id(rule) not in members: return
         visited.add(id(rule))
         for ref in rule.referenced_rules: visit(ref.rule)
         ordered.append(rule)
     for rule in self.rules: visit(rule)
   state = (visited, ordered).  Python recursion is modelled with fuel; S (length rules) suffices
   (RefOrderP.visit_fuel), the 0 branch is unreachable. *)
Definition vstate := (list nat * list nat)%type.

Fixpoint visit (fuel : nat) (rr : list (list nat)) (members : list nat) (i : nat) (st : vstate) : vstate :=
  match fuel with
  | 0 => st
  | S f =>
      if memn i (fst st) || negb (memn i members) then st
      else
        let st' := fold_left (fun s j => visit f rr members j s) (children rr i) (i :: fst st, snd st) in
        (fst st', snd st' ++ [i])
  end.

Definition topo (rr : list (list nat)) (rules : list nat) : list nat :=
  snd (fold_left (fun s i => visit (S (length rules)) rr rules i s) rules ([], [])).

(* ---------------------------------------------------------------------------------------- *)
(* conversion: Backend.convert walks collection.rules in order; every rule's result is stored on
   the rule object; a correlation rule reads the stored results of the rules it refers to.
   The backend's rendering is a parameter (the theorems hold for every backend):
     rplain d           queries of a plain rule
     rcorr d subs       queries of a correlation rule, given (referenced rule, its stored queries)
                        for every reference in order *)
(* error tags: SigmaRuleNotFoundError at load time, SigmaConversionError during conversion *)
Definition E_NotFound : N := 20%N.
Definition E_Conversion : N := 21%N.

Section Conv.
  Variable Q : Type.
  Variable rplain : doc -> list Q.
  Variable rcorr : doc -> list (doc * list Q) -> list Q.

  Definition results := list (nat * list Q).      (* rule -> _conversion_result, newest first *)

  Fixpoint get (res : results) (i : nat) : option (list Q) :=
    match res with
    | [] => None
    | (k, q) :: t => if Nat.eqb k i then Some q else get t i
    end.

  (* get_conversion_result of every referenced rule, None = SigmaConversionError, conversion result not available *)
  Fixpoint collect (ds : list doc) (res : results) (js : list nat) : option (list (doc * list Q)) :=
    match js with
    | [] => Some []
    | j :: t => match nth_error ds j, get res j with
                | Some d, Some q => match collect ds res t with
                                    | Some l => Some ((d, q) :: l)
                                    | None => None
                                    end
                | _, _ => None
                end
    end.

  Definition conv_rule (ds : list doc) (rr : list (list nat)) (res : results) (i : nat) : option (list Q) :=
    match nth_error ds i with
    | None => None
    | Some d => if is_corr d
                then match collect ds res (children rr i) with
                     | Some subs => Some (rcorr d subs)
                     | None => None
                     end
                else Some (rplain d)
    end.

  (* emitted queries are tagged with the rule they belong to.  `always_corr` = the behaviour of the
     ORIGINAL convert_correlation_rule (no _output check), kept for the model of the unrepaired code *)
  Fixpoint run (always_corr : bool) (ds : list doc) (rr : list (list nat)) (ord : list nat)
           (res : results) (em : list (nat * Q)) : option (results * list (nat * Q)) :=
    match ord with
    | [] => Some (res, em)
    | i :: t =>
        match conv_rule ds rr res i with
        | None => None
        | Some q =>
            let emits := output_flag ds rr i
                         || (always_corr && match nth_error ds i with Some d => is_corr d | None => false end) in
            run always_corr ds rr t ((i, q) :: res) (if emits then em ++ map (pair i) q else em)
        end
    end.

  Record converted := {
    c_order_load : list nat;              (* collection.rules after loading *)
    c_order_conv : list nat;              (* collection.rules after Backend.convert *)
    c_results : results;                  (* per rule, newest first *)
    c_emitted : list (nat * Q)            (* return value of Backend.convert, tagged by rule *)
  }.

  Definition load (ds : list doc) : outcome (list (list nat) * list nat) :=
    match resolve_all ds with
    | None => SigmaErr E_NotFound
    | Some rr => Ok (rr, topo rr (seq 0 (length ds)))
    end.

  Definition pipeline (ds : list doc) : outcome converted :=
    match load ds with
    | Ok (rr, o1) =>
        let o2 := topo rr o1 in      (* Backend.convert calls resolve_rule_references again *)
        match run false ds rr o2 [] [] with
        | Some (res, em) => Ok {| c_order_load := o1; c_order_conv := o2; c_results := res; c_emitted := em |}
        | None => SigmaErr E_Conversion
        end
    | SigmaErr e => SigmaErr e
    | Crash e => Crash e
    end.

  (* ------------------------------------------------------------------------------------ *)
  (* ORIGINAL code (defect D22): self.rules = list(sorted(self.rules)),  lt a b  :=  a referenced by b.
     CPython list.sort, n < 64: one natural run (count_run; reversed when strictly descending), the
     rest inserted by binary insertion (binarysort). *)
  Definition lt_ref (rr : list (list nat)) (a b : nat) : bool := memn a (children rr b).

  Section PySort.
    Variable lt : nat -> nat -> bool.

    (* length of the run starting at the head; descending flag *)
    Fixpoint run_asc (prev : nat) (l : list nat) : nat :=
      match l with
      | [] => 0
      | x :: t => if lt x prev then 0 else S (run_asc x t)
      end.
    Fixpoint run_desc (prev : nat) (l : list nat) : nat :=
      match l with
      | [] => 0
      | x :: t => if lt x prev then S (run_desc x t) else 0
      end.
    Definition count_run (l : list nat) : nat * bool :=
      match l with
      | [] => (0, false)
      | [a] => (1, false)
      | a :: b :: t => if lt b a then (2 + run_desc b t, true) else (2 + run_asc b t, false)
      end.

    (* binary search for the insertion point of pivot in the sorted prefix:  l <= p < r *)
    Fixpoint bsearch (fuel : nat) (pre : list nat) (pivot : nat) (l r : nat) : nat :=
      match fuel with
      | 0 => l
      | S f => if l <? r
               then let p := l + (r - l) / 2 in
                    if lt pivot (nth p pre 0) then bsearch f pre pivot l p else bsearch f pre pivot (S p) r
               else l
      end.
    Definition insert_at (pre : list nat) (k : nat) (x : nat) := firstn k pre ++ x :: skipn k pre.
    Fixpoint binarysort (pre rest : list nat) : list nat :=
      match rest with
      | [] => pre
      | x :: t => let k := bsearch (S (length pre)) pre x 0 (length pre) in
                  binarysort (insert_at pre k x) t
      end.
    Definition pysort (l : list nat) : list nat :=
      let '(n, desc) := count_run l in
      let pre := firstn n l in
      binarysort (if desc then rev pre else pre) (skipn n l).
  End PySort.

  Definition pipeline_sorted (ds : list doc) : outcome converted :=
    match resolve_all ds with
    | None => SigmaErr E_NotFound
    | Some rr =>
        let o1 := pysort (lt_ref rr) (seq 0 (length ds)) in
        let o2 := pysort (lt_ref rr) o1 in
        match run true ds rr o2 [] [] with
        | Some (res, em) => Ok {| c_order_load := o1; c_order_conv := o2; c_results := res; c_emitted := em |}
        | None => SigmaErr E_Conversion
        end
    end.
End Conv.

Arguments c_order_load {Q}.
Arguments c_order_conv {Q}.
Arguments c_results {Q}.
Arguments c_emitted {Q}.

(* ---------------------------------------------------------------------------------------- *)
(* rendering of the shipped TextQueryTestBackend (sigma/backends/test/backend.py), default output
   format, correlation method "test", for the rule shapes the correspondence generates:
   values without characters that need quoting, group-by one plain field name, timespan unit not
   in timespan_mapping (rendered as written). *)
Local Open Scope N_scope.
Definition s_eq_open : str := [102; 61; 34].                    (* f= and a double quote *)
Definition nl : str := [10].
Fixpoint join (sep : str) (l : list str) : str :=
  match l with
  | [] => []
  | [x] => x
  | x :: t => x ++ sep ++ join sep t
  end.

Definition tq_plain (d : doc) : list str :=
  match d_body d with
  | Plain vs => map (fun v => s_eq_open ++ v ++ [34]) vs
  | _ => []
  end.

(* rule.name or rule.id *)
Definition s_None : str := [78; 111; 110; 101].
Definition ruleid (d : doc) : str :=
  match d_name d with
  | Some (c :: n) => c :: n
  | _ => match d_id d with Some u => u | None => s_None end
  end.

Fixpoint dec_aux (fuel : nat) (n : N) (acc : str) : str :=
  match fuel with
  | O => acc
  | S f => let acc' := (48 + n mod 10) :: acc in
           if n / 10 =? 0 then acc' else dec_aux f (n / 10) acc'
  end.
Definition dec (n : N) : str := dec_aux 40 n [].

(* subsearch { <q> | set event_type=<dq><id><dq> } *)
Definition s_subsearch : str := [115;117;98;115;101;97;114;99;104;32;123;32].
Definition s_set_et : str := [32;124;32;115;101;116;32;101;118;101;110;116;95;116;121;112;101;61;34].
Definition s_close : str := [34;32;125].
Definition subsearch (q id : str) : str := s_subsearch ++ q ++ s_set_et ++ id ++ s_close.

Definition tq_search (subs : list (doc * list str)) : str :=
  match subs with
  | [(_, [q])] => q
  | _ => join nl (flat_map (fun dq => map (fun q => subsearch q (ruleid (fst dq))) (snd dq)) subs)
  end.

(* | temporal window=<ts> eventtypes=<ids> by <gb>   and   | where eventtype_count >= <n> *)
Definition s_temporal : str := [124;32;116;101;109;112;111;114;97;108;32;119;105;110;100;111;119;61].
Definition s_eventtypes : str := [32;101;118;101;110;116;116;121;112;101;115;61].
Definition s_by : str := [32;98;121;32].
Definition s_where_etc : str := [124;32;119;104;101;114;101;32;101;118;101;110;116;116;121;112;101;95;99;111;117;110;116;32;62;61;32].
(* | aggregate window=<ts> count() as event_count by <gb>   and   | where event_count >= <cnt> *)
Definition s_aggregate : str := [124;32;97;103;103;114;101;103;97;116;101;32;119;105;110;100;111;119;61].
Definition s_count_as : str := [32;99;111;117;110;116;40;41;32;97;115;32;101;118;101;110;116;95;99;111;117;110;116].
Definition s_where_ec : str := [124;32;119;104;101;114;101;32;101;118;101;110;116;95;99;111;117;110;116;32;62;61;32].

Definition tq_corr (d : doc) (subs : list (doc * list str)) : list str :=
  match d_body d with
  | Corr CTemporal _ _ gb ts =>
      [tq_search subs ++ nl ++ nl
       ++ s_temporal ++ ts ++ s_eventtypes ++ join [44] (map (fun dq => ruleid (fst dq)) subs) ++ s_by ++ gb
       ++ nl ++ nl ++ s_where_etc ++ dec (N.of_nat (length subs))]
  | Corr (CEventCount cnt) _ _ gb ts =>
      [tq_search subs ++ nl
       ++ s_aggregate ++ ts ++ s_count_as ++ s_by ++ gb
       ++ nl ++ s_where_ec ++ cnt]
  | _ => []
  end.
