(* Model of "re.compile(text) succeeds" (CPython 3.12 sre_parse) for the fragment of the regular
   expression syntax that the C17 generators use: ordinary characters, '.', escapes, the quantifiers
   * + ? with lazy / possessive suffix, anchors ^ $ and alternation. No groups, classes or braces.
   Modelled, not verified: validated against CPython only by the correspondence runs. *)
From Coq Require Import NArith List Bool.
From PS Require Import Base.Chars.
Import ListNotations.
Open Scope N_scope.

(* re.compile(str(regexp)) succeeds: scanner for the fragment of Python's regular expression syntax
   that the generators use (no groups, classes or braces). Modelled, validated by correspondence only. *)
Definition is_digit (c : char) : bool := (48 <=? c) && (c <=? 57).
Definition is_octal (c : char) : bool := (48 <=? c) && (c <=? 55).
Definition is_hex (c : char) : bool :=
  is_digit c || ((65 <=? c) && (c <=? 70)) || ((97 <=? c) && (c <=? 102)).
Definition is_alnum (c : char) : bool :=
  is_digit c || ((65 <=? c) && (c <=? 90)) || ((97 <=? c) && (c <=? 122)).
(* a b f n r t v A B d D s S w W Z 0 *)
Definition valid_esc : str := [97; 98; 102; 110; 114; 116; 118; 65; 66; 100; 68; 115; 83; 119; 87; 90; 48].
Definition at_esc : str := [98; 66; 65; 90].

Inductive rxst := RStart | RAt | RAtom | RQuant | RDone.
(* skip: characters already consumed by a multi-character escape *)
Fixpoint rx_go (s : str) (st : rxst) (esc : bool) (skip : nat) : bool :=
  match s with
  | [] => negb esc
  | c :: s' =>
    match skip with
    | S k => rx_go s' st false k
    | O =>
      if esc then
        if N.eqb c 120 then                                  (* \xHH *)
          match s' with
          | h1 :: h2 :: _ => is_hex h1 && is_hex h2 && rx_go s' RAtom false 2
          | _ => false
          end
        else if is_digit c && negb (N.eqb c 48) then         (* \ooo octal, else group reference *)
          match s' with
          | o2 :: o3 :: _ => (c <=? 51) && is_octal o2 && is_octal o3 && rx_go s' RAtom false 2
          | _ => false
          end
        else if is_alnum c then
          mem c valid_esc && rx_go s' (if mem c at_esc then RAt else RAtom) false 0
        else rx_go s' RAtom false 0
      else if N.eqb c c_bs then rx_go s' st true 0
      else if N.eqb c c_star || N.eqb c 43 then
        match st with
        | RAtom => rx_go s' RQuant false 0
        | RQuant => N.eqb c 43 && rx_go s' RDone false 0
        | _ => false
        end
      else if N.eqb c c_qm then
        match st with
        | RAtom => rx_go s' RQuant false 0
        | RQuant => rx_go s' RDone false 0
        | _ => false
        end
      else if N.eqb c 94 || N.eqb c 36 then rx_go s' RAt false 0
      else if N.eqb c c_pipe then rx_go s' RStart false 0
      else rx_go s' RAtom false 0
    end
  end.
Definition rxok (s : str) : bool := rx_go s RStart false 0.

