(* C02 - model of selector resolution and postprocessing (sigma/conditions.py
   ConditionSelector.resolve_referenced_detections / postprocess, ConditionIdentifier.postprocess,
   ConditionItem.postprocess), for detections that each contribute one atom.

   Detections are given by the list of their names in document (dict) order. *)
From Coq Require Import NArith List Bool Arith.
From PS Require Import Base.Chars Base.Outcome Model.CondParse.
Import ListNotations.
Open Scope N_scope.

(* ---------- re.compile(pattern.replace("*", ".*"), re.DOTALL).fullmatch(name) ---------- *)
(* The pattern is a Word(alphanums + "*_"): after the replacement the regular expression consists
   of literal characters and ".*" only.  Python's backtracking matcher for this fragment: *)
Inductive ritem := RLit (c : char) | RDotStar.

Definition compile (p : str) : list ritem :=
  map (fun c => if c =? c_star then RDotStar else RLit c) p.

(* greedy-or-not is irrelevant for fullmatch's yes/no answer; the matcher tries every split *)
Fixpoint star_any (f : str -> bool) (n : str) : bool :=
  f n || match n with [] => false | _ :: n' => star_any f n' end.

Fixpoint rmatch (r : list ritem) (n : str) {struct r} : bool :=
  match r with
  | [] => match n with [] => true | _ => false end
  | RLit c :: r' => match n with x :: n' => (x =? c) && rmatch r' n' | [] => false end
  | RDotStar :: r' => star_any (rmatch r') n
  end.

Definition starts_us (s : str) : bool := match s with c :: _ => c =? c_us | [] => false end.

(* if pattern == "them": ".*" else pattern.replace("*", ".*") *)
Definition sel_regex (p : str) : list ritem :=
  if str_eqb p w_them then [RDotStar] else compile p.

Definition resolve (dets : list str) (p : str) : list str :=
  filter (fun n => rmatch (sel_regex p) n && (starts_us p || negb (starts_us n))) dets.

(* ---------- postprocess ---------- *)
(* condition tree over detection atoms; None is Python's None (an argument that vanished) *)
Inductive ctree :=
| CLeaf (n : str)
| CNot (a : option ctree)
| CAnd (l : list (option ctree))
| COr (l : list (option ctree)).

Definition c_bin (o : bop) (l : list (option ctree)) : ctree :=
  match o with BAnd => CAnd l | BOr => COr l end.

(* ConditionItem.postprocess for arg_count = 2, after the arguments were postprocessed *)
Definition collapse (o : bop) (args : list (option ctree)) : option ctree :=
  match args with
  | [] => None
  | [a] => a
  | _ => Some (c_bin o args)
  end.

Definition mem_str (n : str) (l : list str) : bool := existsb (str_eqb n) l.

Definition quant_op (q : quant) : bop := match q with QAll => BAnd | _ => BOr end.

Fixpoint sequence {A} (l : list (outcome A)) : outcome (list A) :=
  match l with
  | [] => Ok []
  | x :: r => obind x (fun a => obind (sequence r) (fun b => Ok (a :: b)))
  end.

Fixpoint post (dets : list str) (t : ptree) {struct t} : outcome (option ctree) :=
  match t with
  | PId n => if mem_str n dets then Ok (Some (CLeaf n)) else SigmaErr E_Condition
  | PSel q p => Ok (collapse (quant_op q) (map (fun n => Some (CLeaf n)) (resolve dets p)))
  | PNot a => obind (post dets a) (fun c => Ok (Some (CNot c)))
  | PAnd l => obind (sequence (map (post dets) l)) (fun args => Ok (collapse BAnd args))
  | POr l => obind (sequence (map (post dets) l)) (fun args => Ok (collapse BOr args))
  end.

(* ---------- truth value of a postprocessed tree; undefined as soon as a None occurs ---------- *)
Fixpoint all_some {A} (l : list (option A)) : option (list A) :=
  match l with
  | [] => Some []
  | Some a :: r => match all_some r with Some b => Some (a :: b) | None => None end
  | None :: _ => None
  end.

Fixpoint ceval (asg : str -> bool) (c : ctree) {struct c} : option bool :=
  match c with
  | CLeaf n => Some (asg n)
  | CNot None => None
  | CNot (Some a) => option_map negb (ceval asg a)
  | CAnd l => option_map (forallb (fun b => b))
                (all_some (map (fun a => match a with Some x => ceval asg x | None => None end) l))
  | COr l => option_map (existsb (fun b => b))
                (all_some (map (fun a => match a with Some x => ceval asg x | None => None end) l))
  end.

Definition ceval_top (asg : str -> bool) (c : option ctree) : option bool :=
  match c with Some x => ceval asg x | None => None end.

(* ---------- assignments by bit mask over the detection list ---------- *)
Fixpoint index_of (n : str) (l : list str) (i : nat) : option nat :=
  match l with
  | [] => None
  | x :: r => if str_eqb n x then Some i else index_of n r (S i)
  end.

Definition asg_of (dets : list str) (mask : N) (n : str) : bool :=
  match index_of n dets 0 with Some i => N.testbit mask (N.of_nat i) | None => false end.

Definition masks (dets : list str) : list N :=
  map N.of_nat (seq 0 (Nat.pow 2 (length dets))).

(* the whole observable behaviour of SigmaCondition on (detections, condition string) *)
Definition run_parse (s : str) : outcome ptree := parse s.
Definition run_post (dets : list str) (s : str) : outcome (option ctree) := obind (parse s) (post dets).
Definition run_table (dets : list str) (s : str) : option (list bool) :=
  match run_post dets s with
  | Ok c => all_some (map (fun m => ceval_top (asg_of dets m) c) (masks dets))
  | _ => None
  end.
