(* C08 - Backend.convert over a rule collection (sigma/conversion/base.py, after the repairs of D12/D13):

     init_processing_pipeline; rule_collection.resolve_rule_references();
     queries = [q for rule in rules for q in (convert_rule(rule) | convert_correlation_rule(rule))]
     return finalize(queries)

   What a single rule needs from the rest of the library is abstracted by Section variables (their
   independence of the conversion history is C15's business):
     conv1  d        pipeline application + conversion of every condition + finish_query of a detection rule
     finq   p i q    finalize_query (format specific finalisation + query post-processing) of query number i
     cpre   c        correlation method check + pipeline application on a correlation rule
     cpost  c qss    the correlation query templates, given the stored results of the referenced rules
     finout qs       Backend.finalize (output finalisation + pipeline finalisers)
   Everything else is modelled: the per-rule try/except, backend.errors, the output switch (_output), the
   decision between finalised and raw stored results (_backreferences / finalize_correlation_subqueries),
   set_conversion_result / get_conversion_result ("Conversion result not available"), collection order.
   Rule references are positions in the collection (SigmaRuleReference.resolve has already happened). *)
From Coq Require Import NArith List Bool.
From PS Require Import Base.Outcome.
Import ListNotations.

Definition E_Conversion : N := 7.       (* SigmaConversionError *)
Definition E_Transformation : N := 8.   (* SigmaTransformationError *)

Fixpoint all_some {A} (l : list (option A)) : option (list A) :=
  match l with
  | [] => Some []
  | Some x :: r => match all_some r with Some r' => Some (x :: r') | None => None end
  | None :: _ => None
  end.

Definition memn (i : nat) (l : list nat) : bool := existsb (Nat.eqb i) l.

Section Collection.
Variables query drule crule output : Type.

Inductive payload := PD (d : drule) | PC (c : crule).
Inductive rule := Det (d : drule) | Cor (c : crule) (refs : list nat) (generate : bool).

Variable conv1 : drule -> outcome (list query).
Variable finq : payload -> nat -> query -> outcome query.
Variable cpre : crule -> outcome unit.
Variable cpost : crule -> list (list query) -> outcome (list query).
Variable finout : list query -> outcome output.
Variable fcs : bool.                      (* Backend.finalize_correlation_subqueries *)

Definition refs_of (r : rule) : list nat := match r with Cor _ refs _ => refs | Det _ => [] end.
Definition payload_of (r : rule) : payload := match r with Det d => PD d | Cor c _ _ => PC c end.

(* SigmaCorrelationRule.resolve_rule_references: every referenced rule gets a back reference; its output is
   disabled unless the referring rule says generate: true *)
Definition has_backref (C : list rule) (i : nat) : bool := existsb (fun r => memn i (refs_of r)) C.
Definition out_enabled (C : list rule) (i : nat) : bool :=
  negb (existsb (fun r => match r with Cor _ refs false => memn i refs | _ => false end) C).

(* [finalize_query(rule, q, index, ...) for index, q in enumerate(queries)] *)
Fixpoint fin_all (p : payload) (i : nat) (qs : list query) : outcome (list query) :=
  match qs with
  | [] => Ok []
  | q :: r => obind (finq p i q) (fun q' => obind (fin_all p (S i) r) (fun r' => Ok (q' :: r')))
  end.

Record rres := { stored : option (list query);      (* rule._conversion_result after the call (None: not set) *)
                 ret : outcome (list query) }.       (* what convert_rule returns / raises *)

(* step 3 of convert_rule / the end of convert_correlation_rule.  When referring correlation rules embed the
   raw queries (back reference, no finalize_correlation_subqueries) these are stored first; the rule's own
   output is finalised afterwards and only if its output switch is on. *)
Definition finish (p : payload) (out br : bool) (raw : outcome (list query)) : rres :=
  match raw with
  | Ok qs =>
      if fcs || negb br
      then match fin_all p 0 qs with
           | Ok fqs => {| stored := Some fqs; ret := Ok (if out then fqs else []) |}
           | SigmaErr e => {| stored := None; ret := SigmaErr e |}
           | Crash c => {| stored := None; ret := Crash c |}
           end
      else {| stored := Some qs; ret := if out then fin_all p 0 qs else Ok [] |}
  | SigmaErr e => {| stored := None; ret := SigmaErr e |}
  | Crash c => {| stored := None; ret := Crash c |}
  end.

Record state := { results : list (option (list query));   (* _conversion_result of the rules seen so far *)
                  errors : list (nat * N);                 (* backend.errors: (position of the rule, class) *)
                  emitted : list query }.
Definition init : state := {| results := []; errors := []; emitted := [] |}.

(* get_conversion_result of the rule at position j *)
Definition lookup (res : list (option (list query))) (j : nat) : option (list query) :=
  match nth_error res j with Some (Some q) => Some q | _ => None end.

Definition conv_raw (res : list (option (list query))) (r : rule) : outcome (list query) :=
  match r with
  | Det d => conv1 d
  | Cor c refs _ =>
      obind (cpre c) (fun _ =>
        match all_some (map (lookup res) refs) with
        | Some qss => cpost c qss
        | None => SigmaErr E_Conversion         (* "Conversion result not available" *)
        end)
  end.

(* one rule: try ... except SigmaError: (collect ? errors.append : raise); other exceptions propagate *)
Definition step (collect : bool) (C : list rule) (i : nat) (r : rule) (st : state) : state * outcome unit :=
  let rr := finish (payload_of r) (out_enabled C i) (has_backref C i) (conv_raw (results st) r) in
  match ret rr with
  | Ok qs => ({| results := results st ++ [stored rr]; errors := errors st; emitted := emitted st ++ qs |}, Ok tt)
  | SigmaErr e =>
      if collect
      then ({| results := results st ++ [stored rr]; errors := errors st ++ [(i, e)]; emitted := emitted st |}, Ok tt)
      else (st, SigmaErr e)
  | Crash c => (st, Crash c)
  end.

Fixpoint run (collect : bool) (C : list rule) (i : nat) (rs : list rule) (st : state) : state * outcome unit :=
  match rs with
  | [] => (st, Ok tt)
  | r :: rest =>
      match step collect C i r st with
      | (st', Ok _) => run collect C (S i) rest st'
      | x => x
      end
  end.

(* Backend.convert: the state that is left behind (backend.errors, stored results) and the returned value *)
Definition convert (collect : bool) (C : list rule) : state * outcome output :=
  let '(st, o) := run collect C 0 C init in
  (st, obind o (fun _ => finout (emitted st))).

End Collection.

Arguments Det {drule crule} d.
Arguments Cor {drule crule} c refs generate.
Arguments PD {drule crule} d.
Arguments PC {drule crule} c.
Arguments stored {query} r.
Arguments ret {query} r.
Arguments results {query} s.
Arguments errors {query} s.
Arguments emitted {query} s.
