(* Model of the placeholder machinery of pySigma (property C17). Definitions only.
   sigma/types.py: SigmaString.insert_placeholders, _merge_strs/__add__, contains_placeholder,
     replace_placeholders, SigmaRegularExpression.{insert,replace}_placeholders, compile, escape (guard)
   sigma/modifiers.py: expand, contains, startswith, endswith, re, all
   sigma/processing/transformations/placeholder.py: include/exclude dispatch, value-list, wildcard,
     query-expression transformations; transformations/base.py ValueTransformation.apply_detection_item
   sigma/conversion/base.py: rendering of one detection item by a TextQueryBackend with the fixed
     configuration of impl/c17.py (C17Backend). *)
From Coq Require Import NArith List Bool.
From PS Require Import Base.Chars Base.Outcome Model.SString Model.PyRegex.
Import ListNotations.
Open Scope N_scope.

(* ---------------------------------------------------------------------------------------- *)
(* insert_placeholders: re.finditer("(?<!\\)%(?P<name>[^%]+)%", part), pieces in between pass
   through .replace("\\%", "%") and are dropped when empty *)

(* str.replace("\\%", "%") *)
Fixpoint unpct (s : str) : str :=
  match s with
  | [] => []
  | c :: s' =>
    if N.eqb c c_bs then
      match s' with
      | d :: r => if N.eqb d c_pct then c_pct :: unpct r else c :: unpct s'
      | [] => [c]
      end
    else c :: unpct s'
  end.

Definition txt (acc : str) : sstring :=
  match unpct acc with [] => [] | t => [PStr t] end.

(* one pass over the characters of a part.
   prev_bs: the previous character is a backslash (the look-behind);
   acc: raw text since the end of the last match;
   nm = Some n: an opening '%' has been seen and n are the name characters read so far *)
Fixpoint ph_go (s : str) (prev_bs : bool) (acc : str) (nm : option str) : sstring :=
  match s with
  | [] => match nm with
          | None => txt acc
          | Some n => txt (acc ++ c_pct :: n)          (* never closed: plain text *)
          end
  | c :: s' =>
    match nm with
    | None =>
      if N.eqb c c_pct && negb prev_bs then ph_go s' false acc (Some [])
      else ph_go s' (N.eqb c c_bs) (acc ++ [c]) None
    | Some n =>
      if N.eqb c c_pct then
        match n with
        | [] => ph_go s' false (acc ++ [c_pct]) (Some [])   (* "%%": the first one is text, retry at the second *)
        | _ => txt acc ++ PPh n :: ph_go s' false [] None
        end
      else ph_go s' false acc (Some (n ++ [c]))
    end
  end.

Definition insert_placeholders (v : sstring) : sstring :=
  flat_map (fun p => match p with PStr s => ph_go s false [] None | _ => [p] end) v.

(* ---------------------------------------------------------------------------------------- *)
(* _merge_strs and __add__ / __radd__ *)
Fixpoint merge (v : sstring) : sstring :=
  match v with
  | [] => []
  | PStr a :: v' => match merge v' with
                    | PStr b :: r => PStr (a ++ b) :: r
                    | r => PStr a :: r
                    end
  | p :: v' => p :: merge v'
  end.
Definition sadd (a b : sstring) : sstring := merge (a ++ b).

(* placeholder names of a value, in order *)
Definition placeholders (v : sstring) : list str :=
  flat_map (fun p => match p with PPh n => [n] | _ => [] end) v.

(* replace_placeholders l.473: first placeholder at index i; prefix + replacement + result_suffix for
   every replacement (outer loop) and every result of the recursive call on the suffix (inner loop).
   The callback is evaluated first; the suffix only if there is at least one replacement. *)
Definition cross (pre : sstring) (reps sufs : list sstring) : list sstring :=
  flat_map (fun r => map (fun sf => sadd (sadd pre r) sf) sufs) reps.

Fixpoint rp (cb : str -> outcome (list sstring)) (pre v : sstring) : outcome (list sstring) :=
  match v with
  | [] => Ok [pre]                                   (* no placeholder: [self] *)
  | PPh n :: suf =>
      obind (cb n) (fun reps =>
        match reps with
        | [] => Ok []
        | _ => obind (rp cb [] suf) (fun sufs => Ok (cross pre reps sufs))
        end)
  | p :: v' => rp cb (pre ++ [p]) v'
  end.
Definition replace_placeholders (cb : str -> outcome (list sstring)) (v : sstring) : outcome (list sstring) :=
  rp cb [] v.

(* ---------------------------------------------------------------------------------------- *)
(* modifiers on strings *)
Definition starts_multi (v : sstring) : bool := match v with PMulti :: _ => true | _ => false end.
Definition ends_multi (v : sstring) : bool := match rev v with PMulti :: _ => true | _ => false end.
Definition add_front (v : sstring) : sstring := if starts_multi v then v else merge (PMulti :: v).
Definition add_back (v : sstring) : sstring := if ends_multi v then v else merge (v ++ [PMulti]).

Inductive vmod := MExpand | MContains | MStartswith | MEndswith.
Definition apply_mod (m : vmod) (v : sstring) : sstring :=
  match m with
  | MExpand => insert_placeholders v
  | MContains => add_back (add_front v)
  | MStartswith => add_back v
  | MEndswith => add_front v
  end.

(* ---------------------------------------------------------------------------------------- *)
(* SigmaRegularExpression.compile on the current parts *)
Definition compile_ok (v : sstring) : bool := rxok (to_plain false v).

(* ---------------------------------------------------------------------------------------- *)
(* values of a detection item *)
Inductive value :=
| VS (v : sstring)              (* SigmaString *)
| VR (v : sstring)              (* SigmaRegularExpression: parts of .regexp *)
| VQ (expr id : str).           (* SigmaQueryExpression *)

(* pipeline variables: vars[name] is a scalar or a list; every element is a str/int/float/bool
   (given by its Python str() text) or something else *)
Inductive vval := VText (t : str) | VBad.
Inductive vtab := TScalar (x : vval) | TList (l : list vval).
Definition vars := list (str * vtab).

Fixpoint assoc {A} (k : str) (l : list (str * A)) : option A :=
  match l with
  | [] => None
  | (k', a) :: l' => if str_eqb k k' then Some a else assoc k l'
  end.
Definition mem_str (n : str) (l : list str) : bool := existsb (str_eqb n) l.

(* ValueListPlaceholderTransformation.placeholder_replacements *)
Definition vl_lookup (vs : vars) (n : str) : outcome (list sstring) :=
  match assoc n vs with
  | None => SigmaErr E_Value
  | Some tab =>
    let l := match tab with TScalar x => [x] | TList l => l end in
    match l with
    | [] => SigmaErr E_Value                      (* set() != {True} *)
    | _ => if forallb (fun x => match x with VText _ => true | VBad => false end) l
           then Ok (flat_map (fun x => match x with VText t => [parse true t] | VBad => [] end) l)
           else SigmaErr E_Value
    end
  end.

Inductive tkind := KValueList | KWildcard | KQuery (expr : str) (mapping : list (str * str)).
Record titem := { t_kind : tkind; t_inc : option (list str); t_exc : option (list str) }.

(* PlaceholderIncludeExcludeMixin.is_handled_placeholder *)
Definition handled (t : titem) (n : str) : bool :=
  match t_inc t, t_exc t with
  | None, None => true
  | i, e => match i with Some l => mem_str n l | None => false end
            || match e with Some l => negb (mem_str n l) | None => false end
  end.
(* SigmaString.contains_placeholder(include, exclude) *)
Definition contains_ph (inc exc : option (list str)) (v : sstring) : bool :=
  existsb (fun n => match inc with None => true | Some l => mem_str n l end
                    && match exc with None => true | Some l => negb (mem_str n l) end)
          (placeholders v).
(* check_exclusivity *)
Definition item_ok (t : titem) : bool :=
  match t_inc t, t_exc t with Some _, Some _ => false | _, _ => true end.

(* placeholder_replacements_base for the two BasePlaceholderTransformation subclasses;
   rx: the value is a regular expression (SigmaRegularExpression.replace_placeholders wraps the
   callback: a wildcard replacement becomes ".*") *)
Definition base_cb (vs : vars) (t : titem) (rx : bool) (n : str) : outcome (list sstring) :=
  if handled t n then
    match t_kind t with
    | KValueList => vl_lookup vs n
    | _ => Ok [if rx then [PStr [c_dot]; PMulti] else [PMulti]]
    end
  else Ok [[PPh n]].

(* apply_value of one transformation on one value: the list of values that replaces it *)
Definition apply_value (vs : vars) (t : titem) (x : value) : outcome (list value) :=
  match t_kind t with
  | KQuery expr mapping =>
    match x with
    | VS v =>
      match placeholders v with
      | [] => Ok [x]
      | _ => match v with
             | [PPh n] => if handled t n
                          then Ok [VQ expr (match assoc n mapping with
                                            | Some (c :: m) => c :: m
                                            | _ => n end)]
                          else Ok [x]
             | _ => SigmaErr E_Value
             end
      end
    | _ => Ok [x]
    end
  | _ =>
    match x with
    | VS v => if contains_ph (t_inc t) (t_exc t) v
              then obind (replace_placeholders (base_cb vs t false) v) (fun l => Ok (map VS l))
              else Ok [x]
    | VR v => if contains_ph (t_inc t) (t_exc t) v
              then obind (replace_placeholders (base_cb vs t true) v)
                     (fun l => if forallb compile_ok l then Ok (map VR l) else SigmaErr E_Regex)
              else Ok [x]
    | VQ _ _ => Ok [x]
    end
  end.

(* ValueTransformation.apply_detection_item: values left to right, first exception wins *)
Fixpoint apply_item (vs : vars) (t : titem) (l : list value) : outcome (list value) :=
  match l with
  | [] => Ok []
  | x :: l' => obind (apply_value vs t x) (fun a => obind (apply_item vs t l') (fun b => Ok (a ++ b)))
  end.
Fixpoint apply_pipeline (vs : vars) (ts : list titem) (l : list value) : outcome (list value) :=
  match ts with
  | [] => Ok l
  | t :: ts' => obind (apply_item vs t l) (apply_pipeline vs ts')
  end.

(* ---------------------------------------------------------------------------------------- *)
(* from the rule to the initial values: SigmaDetectionItem.from_mapping + apply_modifiers *)
Definition init_value (re : bool) (mods : list vmod) (s : str) : outcome value :=
  if re then
    let v := parse false s in
    if compile_ok v then
      (* only expand is generated after re; it recompiles *)
      let v' := fold_left (fun a m => match m with MExpand => insert_placeholders a | _ => a end) mods v in
      if compile_ok v' then Ok (VR v') else SigmaErr E_Regex
    else SigmaErr E_Regex
  else Ok (VS (fold_left (fun a m => apply_mod m a) mods (parse true s))).

Fixpoint init_values (re : bool) (mods : list vmod) (l : list str) : outcome (list value) :=
  match l with
  | [] => Ok []
  | s :: l' => obind (init_value re mods s) (fun a => obind (init_values re mods l') (fun b => Ok (a :: b)))
  end.

(* ---------------------------------------------------------------------------------------- *)
(* rendering by the backend of impl/c17.py: string quote = double quote, escape = backslash, wildcards * ?, add_escaped = colon backslash,
   filter '&', no in-lists, no startswith/endswith/contains operators, re_escape ['/'] + escape char *)
Definition K17 : ecfg :=
  {| e_esc := Some c_bs; e_multi := Some [c_star]; e_single := Some [c_qm];
     e_add := [c_dq; c_colon; c_bs]; e_filter := [38] |}.

(* SigmaRegularExpression.escape(["/"], "\\", True): the guard, then every '/' and '\' gets a '\' *)
Definition rx_escape (s : str) : str :=
  flat_map (fun c => if N.eqb c c_slash || N.eqb c c_bs then [c_bs; c] else [c]) s.
Definition render_re (v : sstring) : outcome str :=
  match placeholders v with
  | [] => Ok (rx_escape (to_plain false v))
  | _ => SigmaErr E_Placeholder
  end.

(* str.format(field=..., id=...) for templates that use only the replacement fields {field} and {id} *)
Definition t_field : str := [123; 102; 105; 101; 108; 100; 125].   (* {field} *)
Definition t_id : str := [123; 105; 100; 125].                      (* {id} *)
Fixpoint has_sub (p s : str) : bool :=
  match s with
  | [] => prefixb p []
  | _ :: s' => prefixb p s || has_sub p s'
  end.
Fixpoint format_go (fuel : nat) (fld id s : str) : str :=
  match fuel with
  | O => []
  | S f =>
    match s with
    | [] => []
    | c :: s' =>
      if prefixb t_field s then fld ++ format_go f fld id (skipn 7 s)
      else if prefixb t_id s then id ++ format_go f fld id (skipn 4 s)
      else c :: format_go f fld id s'
    end
  end.
Definition format (fld id s : str) : str := format_go (S (length s)) fld id s.

Definition fname : str := [102].            (* f *)
Definition kwname : str := [c_us].          (* _ *)
Definition none_txt : str := [78; 111; 110; 101].   (* None *)

Definition render_value (field : bool) (x : value) : outcome str :=
  let lhs := if field then fname else kwname in
  match x with
  | VS v => obind (convert K17 v) (fun q => Ok (lhs ++ [c_eq; c_dq] ++ q ++ [c_dq]))
  | VR v => obind (render_re v) (fun q => Ok (lhs ++ [c_eq; c_slash] ++ q ++ [c_slash]))
  | VQ expr id =>
      if field then Ok (format fname id expr)
      else if has_sub t_field expr then SigmaErr E_Value
      else Ok (format none_txt id expr)
  end.

Definition tok_or : str := [32; 111; 114; 32].
Definition tok_and : str := [32; 97; 110; 100; 32].
Fixpoint join (sep : str) (l : list str) : str :=
  match l with
  | [] => []
  | [a] => a
  | a :: l' => a ++ sep ++ join sep l'
  end.
Fixpoint render_all (field : bool) (l : list value) : outcome (list str) :=
  match l with
  | [] => Ok []
  | x :: l' => obind (render_value field x) (fun a => obind (render_all field l') (fun b => Ok (a :: b)))
  end.
Definition render_item (field all : bool) (l : list value) : outcome str :=
  obind (render_all field l) (fun atoms => Ok (join (if all then tok_and else tok_or) atoms)).

(* the same backend with in-expressions enabled (C17InBackend: convert_or_as_in, convert_and_as_in,
   in_expressions_allow_wildcards; templates of TextQueryTestBackend). Backend.decide_convert_condition_as_in_expression:
   an OR / AND of field = value conditions over one field whose values are all plain strings becomes
   f in ("a", "b") / f contains-all ("a", "b"); anything else is converted as before. *)
Definition is_vs (x : value) : bool := match x with VS _ => true | _ => false end.
Definition tok_in : str := [32; 105; 110; 32; 40].                                         (* " in (" *)
Definition tok_call : str := [32; 99; 111; 110; 116; 97; 105; 110; 115; 45; 97; 108; 108; 32; 40].   (* " contains-all (" *)
Definition tok_comma : str := [44; 32].
Fixpoint render_lits (l : list value) : outcome (list str) :=
  match l with
  | [] => Ok []
  | x :: l' => obind (match x with VS v => convert K17 v | _ => Crash 1 end) (fun q =>
               obind (render_lits l') (fun b => Ok (([c_dq] ++ q ++ [c_dq]) :: b)))
  end.
Definition render_item_in (field all : bool) (l : list value) : outcome str :=
  if field && forallb is_vs l && Nat.leb 2 (length l) then
    obind (render_lits l) (fun lits =>
      Ok (fname ++ (if all then tok_call else tok_in) ++ join tok_comma lits ++ [c_rpar]))
  else render_item field all l.

(* ---------------------------------------------------------------------------------------- *)
(* the whole run of one case *)
Record case := {
  c_field : bool; c_re : bool; c_all : bool; c_mods : list vmod;
  c_values : list str; c_items : list titem; c_vars : vars
}.
Definition E_Config : N := E_Other.

(* values of the detection item after the pipeline *)
Definition run_pipeline (c : case) : outcome (list value) :=
  obind (init_values (c_re c) (c_mods c) (c_values c)) (fun vals =>
    if forallb item_ok (c_items c) then apply_pipeline (c_vars c) (c_items c) vals
    else SigmaErr E_Config).
Definition run (c : case) : outcome str :=
  obind (run_pipeline c) (render_item (c_field c) (c_all c)).
Definition run_in (c : case) : outcome str :=
  obind (run_pipeline c) (render_item_in (c_field c) (c_all c)).
