(* Model of sigma/modifiers.py (modifier table, SigmaModifier.apply / type_check, every modify()),
   sigma/rule/detection.py (SigmaDetectionItem.from_mapping, apply_modifiers) and the parts of
   sigma/types.py they use (sigma_type, SigmaNumber, SigmaString.startswith/endswith/__add__/
   _merge_strs/insert_placeholders/replace_with_placeholder/replace_placeholders,
   SigmaRegularExpression.compile).  Definitions only; mirrors the code of the working tree
   (with the three `fix:` commits of branch wC03).

   Oracles (explicit parameters, see record [oracles]):
     word    - the class \w of Python's re for str patterns
     re_ok   - "re.compile(text) succeeds"
     cidr_ok - "ipaddress.ip_network(text) succeeds" *)
From Coq Require Import NArith ZArith List Bool.
From PS Require Import Base.Chars Base.Outcome Model.SString Model.ModBytes.
Import ListNotations.
Open Scope N_scope.

Record oracles := { word : char -> bool; re_ok : str -> bool; cidr_ok : str -> bool }.

(* ---------- Sigma value types, generic in the representation S of SigmaString ---------- *)
Inductive tspart := TMinute | THour | TDay | TWeek | TMonth | TYear.
Inductive cmpop := OLt | OLte | OGt | OGte.
Inductive reflag := FI | FM | FS.
(* SigmaNumber.number: int, or float given as its exact ratio *)
Inductive num := NInt (z : Z) | NFloat (n : Z) (d : positive).
(* SigmaNumber / SigmaTimestampPart (a subclass of SigmaNumber) *)
Inductive numv := NPlain (n : num) | NTs (p : tspart) (z : Z).

Inductive atomv (S : Type) :=
| AStr (cased : bool) (s : S)          (* SigmaString / SigmaCasedString *)
| ANum (n : numv)
| ABool (b : bool)
| ANull
| ARe (s : S) (fi fm fs : bool)        (* SigmaRegularExpression: regexp, flags *)
| ACidr (c : str)
| ACmp (op : cmpop) (n : numv)
| AFieldRef (f : str) (sw ew : bool)
| AExists (b : bool)
| AOther.                              (* anything else (never produced by the model) *)
Arguments AStr {S}. Arguments ANum {S}. Arguments ABool {S}. Arguments ANull {S}.
Arguments ARe {S}. Arguments ACidr {S}. Arguments ACmp {S}. Arguments AFieldRef {S}.
Arguments AExists {S}. Arguments AOther {S}.

(* a value, or a (possibly nested) SigmaExpansion *)
Inductive gval (S : Type) := VAtom (a : atomv S) | VExp (l : list (gval S)).
Arguments VAtom {S}. Arguments VExp {S}.

Definition mval := gval sstring.

(* ---------- modifier table (sigma/modifiers.py modifier_mapping) ---------- *)
Inductive modifier :=
| MAll | MNeq | MBase64 | MBase64Offset | MCased | MCidr | MContains | MTs (p : tspart)
| MFlag (f : reflag) | MEndswith | MExists | MExpand | MFieldref | MCmp (o : cmpop) | MRe
| MUtf16 | MUtf16be | MStartswith | MWide | MWindash.

Definition modifier_mapping : list (str * modifier) := [
  ([97;108;108], MAll);  (* all *)
  ([110;101;113], MNeq);  (* neq *)
  ([98;97;115;101;54;52], MBase64);  (* base64 *)
  ([98;97;115;101;54;52;111;102;102;115;101;116], MBase64Offset);  (* base64offset *)
  ([99;97;115;101;100], MCased);  (* cased *)
  ([99;105;100;114], MCidr);  (* cidr *)
  ([99;111;110;116;97;105;110;115], MContains);  (* contains *)
  ([100;97;121], MTs TDay);  (* day *)
  ([100;111;116;97;108;108], MFlag FS);  (* dotall *)
  ([101;110;100;115;119;105;116;104], MEndswith);  (* endswith *)
  ([101;120;105;115;116;115], MExists);  (* exists *)
  ([101;120;112;97;110;100], MExpand);  (* expand *)
  ([102;105;101;108;100;114;101;102], MFieldref);  (* fieldref *)
  ([103;116], MCmp OGt);  (* gt *)
  ([103;116;101], MCmp OGte);  (* gte *)
  ([104;111;117;114], MTs THour);  (* hour *)
  ([105], MFlag FI);  (* i *)
  ([105;103;110;111;114;101;99;97;115;101], MFlag FI);  (* ignorecase *)
  ([108;116], MCmp OLt);  (* lt *)
  ([108;116;101], MCmp OLte);  (* lte *)
  ([109], MFlag FM);  (* m *)
  ([109;105;110;117;116;101], MTs TMinute);  (* minute *)
  ([109;111;110;116;104], MTs TMonth);  (* month *)
  ([109;117;108;116;105;108;105;110;101], MFlag FM);  (* multiline *)
  ([114;101], MRe);  (* re *)
  ([117;116;102;49;54], MUtf16);  (* utf16 *)
  ([117;116;102;49;54;98;101], MUtf16be);  (* utf16be *)
  ([115], MFlag FS);  (* s *)
  ([115;116;97;114;116;115;119;105;116;104], MStartswith);  (* startswith *)
  ([119;101;101;107], MTs TWeek);  (* week *)
  ([119;105;100;101], MWide);  (* wide *)
  ([119;105;110;100;97;115;104], MWindash);  (* windash *)
  ([121;101;97;114], MTs TYear)  (* year *)
].

Fixpoint lookup_modifier (tbl : list (str * modifier)) (id : str) : option modifier :=
  match tbl with
  | [] => None
  | (n, m) :: t => if str_eqb n id then Some m else lookup_modifier t id
  end.

(* [modifier_mapping[mod_id] for mod_id in modifier_ids], KeyError -> SigmaModifierError *)
Fixpoint lookup_all (ids : list str) : outcome (list modifier) :=
  match ids with
  | [] => Ok []
  | id :: r =>
    match lookup_modifier modifier_mapping id with
    | None => SigmaErr E_Modifier
    | Some m => obind (lookup_all r) (fun ms => Ok (m :: ms))
    end
  end.

(* key.split("|") *)
Fixpoint split_on (sep : char) (s : str) (acc : str) : list str :=
  match s with
  | [] => [acc]
  | c :: s' => if N.eqb c sep then acc :: split_on sep s' [] else split_on sep s' (acc ++ [c])
  end.

(* ---------- plain (YAML/JSON) input values and sigma_type ---------- *)
Inductive yv :=
| YStr (s : str) | YInt (z : Z) | YFloat (n : Z) (d : positive)   (* finite float = n/d exactly *)
| YNonFinite                                                      (* nan, inf, -inf *)
| YBool (b : bool) | YNull
| YOther.                                                         (* list, dict, ... *)
Inductive yin := YOne (v : yv) | YMany (l : list yv).

(* float(int): round to nearest, ties to even, 53 significant bits *)
Definition round_f64 (z : Z) : Z :=
  let a := Z.abs z in
  let bits := (Z.log2 a + 1)%Z in
  if (bits <=? 53)%Z then z else
  let e := (bits - 53)%Z in
  let q := Z.shiftr a e in
  let r := (a - Z.shiftl q e)%Z in
  let half := Z.shiftl 1 (e - 1) in
  let q' := if (r >? half)%Z || ((r =? half)%Z && Z.odd q) then (q + 1)%Z else q in
  (Z.sgn z * Z.shiftl q' e)%Z.

(* SigmaNumber.__post_init__ *)
Definition sigma_number (v : yv) : outcome num :=
  match v with
  | YInt z =>
      let f := round_f64 z in
      if (Z.shiftl 1 1024 <=? Z.abs f)%Z then SigmaErr E_Value     (* OverflowError -> SigmaValueError *)
      else if (f =? z)%Z then Ok (NInt z) else Ok (NFloat f 1)
  | YFloat n d => if Pos.eqb d 1 then Ok (NInt n) else Ok (NFloat n d)
  | _ => SigmaErr E_Value
  end.

(* SigmaString.from_str *)
Definition from_str (s : str) : sstring := [PStr s].

(* the list comprehension of from_mapping: sigma_type(v), or from_str(v) for strings under 're' *)
Definition sigma_value (has_re : bool) (v : yv) : outcome mval :=
  match v with
  | YStr s => Ok (VAtom (AStr false (if has_re then from_str s else parse true s)))
  | YBool b => Ok (VAtom (ABool b))
  | YNull => Ok (VAtom ANull)
  | YInt _ | YFloat _ _ | YNonFinite => obind (sigma_number v) (fun n => Ok (VAtom (ANum (NPlain n))))
  | YOther => SigmaErr E_Type
  end.

(* ---------- SigmaString operations ---------- *)
Definition is_multi (p : part) : bool := match p with PMulti => true | _ => false end.
Definition is_ph (p : part) : bool := match p with PPh _ => true | _ => false end.

(* startswith / endswith (SpecialChars.WILDCARD_MULTI) *)
Definition starts_multi (v : sstring) : bool := match v with p :: _ => is_multi p | [] => false end.
Fixpoint ends_multi (v : sstring) : bool :=
  match v with
  | [] => false
  | [p] => is_multi p
  | _ :: v' => ends_multi v'
  end.

(* _merge_strs *)
Fixpoint merge_strs (v : sstring) : sstring :=
  match v with
  | [] => []
  | PStr a :: v' =>
      match merge_strs v' with
      | PStr b :: r => PStr (a ++ b) :: r
      | r => PStr a :: r
      end
  | p :: v' => p :: merge_strs v'
  end.
(* __add__ / __radd__ *)
Definition sadd (a b : sstring) : sstring := merge_strs (a ++ b).

Definition add_multi_front (v : sstring) : sstring := if starts_multi v then v else sadd [PMulti] v.
Definition add_multi_back (v : sstring) : sstring := if ends_multi v then v else sadd v [PMulti].

(* regexp_str[:2] != ".*" and regexp_str[:1] != "^"   /   [-2:] != ".*" and [-1:] != "$" *)
Definition dotstar : str := [c_dot; c_star].
Definition re_open_front (rs : str) : bool :=
  negb (str_eqb (firstn 2 rs) dotstar) && negb (str_eqb (firstn 1 rs) [94]).
Definition re_open_back (rs : str) : bool :=
  negb (str_eqb (skipn (length rs - 2) rs) dotstar) && negb (str_eqb (skipn (length rs - 1) rs) [36]).
Definition re_dotstar : sstring := [PStr [c_dot]; PMulti].     (* SigmaString(".") + WILDCARD_MULTI *)

(* insert_placeholders: finditer("(?<!\\\\)%(?P<name>[^%]+)%") on every string part *)
Fixpoint unescape_pct (s : str) : str :=                        (* s.replace("\\%", "%") *)
  match s with
  | c :: ((d :: s'') as s') =>
      if N.eqb c c_bs && N.eqb d c_pct then c_pct :: unescape_pct s'' else c :: unescape_pct s'
  | _ => s
  end.
Definition flush_u (acc : str) : sstring :=
  match unescape_pct acc with [] => [] | t => [PStr t] end.
(* text up to the next '%', and what follows that '%' *)
Fixpoint find_pct (s : str) (acc : str) : option (str * str) :=
  match s with
  | [] => None
  | c :: s' => if N.eqb c c_pct then Some (acc, s') else find_pct s' (acc ++ [c])
  end.
Fixpoint ip_scan (fuel : nat) (prev_bs : bool) (s : str) (acc : str) : sstring :=
  match fuel with
  | O => flush_u (acc ++ s)
  | S f =>
    match s with
    | [] => flush_u acc
    | c :: s' =>
      if N.eqb c c_pct && negb prev_bs then
        match find_pct s' [] with
        | Some (x :: name, rest) => flush_u acc ++ PPh (x :: name) :: ip_scan f false rest []
        | _ => ip_scan f false s' (acc ++ [c])
        end
      else ip_scan f (N.eqb c c_bs) s' (acc ++ [c])
    end
  end.
Definition ip_part (p : part) : sstring :=
  match p with
  | PStr s => ip_scan (S (length s)) false s []
  | _ => [p]
  end.
Definition insert_placeholders (v : sstring) : sstring := flat_map ip_part v.

(* windash: replace_with_placeholder(re.compile("\\B[-/]\\b"), "_windash") *)
Definition windash_name : str := [95;119;105;110;100;97;115;104].
Definition is_dash (c : char) : bool := N.eqb c c_dash || N.eqb c c_slash.
Definition dashes : str := [c_dash; c_slash; 8211; 8212; 8213].
Fixpoint wd_scan (w : char -> bool) (prev_word : bool) (e : str) (acc : str) : sstring :=
  match e with
  | [] => flush [] acc
  | c :: e' =>
      if is_dash c && negb prev_word && (match e' with d :: _ => w d | [] => false end)
      then flush [] acc ++ PPh windash_name :: wd_scan w false e' []
      else wd_scan w (w c) e' (acc ++ [c])
  end.
Definition rwp_part (w : char -> bool) (p : part) : sstring :=
  match p with
  | PStr [] => [PStr []]                  (* no match: the original string is appended *)
  | PStr e => wd_scan w false e []
  | _ => [p]
  end.
Definition replace_with_placeholder (w : char -> bool) (v : sstring) : sstring := flat_map (rwp_part w) v.

(* replace_placeholders with the windash callback, before merging *)
Fixpoint rp (v : sstring) : list sstring :=
  match v with
  | [] => [[]]
  | PPh n :: v' =>
      if str_eqb n windash_name
      then flat_map (fun d => map (cons (PStr [d])) (rp v')) dashes
      else map (cons (PPh n)) (rp v')
  | p :: v' => map (cons p) (rp v')
  end.
Definition replace_placeholders (v : sstring) : list sstring :=
  if existsb is_ph v then map merge_strs (rp v) else [v].
Definition windash (w : char -> bool) (v : sstring) : list sstring :=
  replace_placeholders (replace_with_placeholder w v).

(* wide / utf16be / utf16: item.encode(...).decode("utf-8") on every string part *)
Fixpoint recode (enc : str -> list byte) (v : sstring) : option sstring :=
  match v with
  | [] => Some []
  | PStr s :: v' =>
      match utf8_decode (enc s) with
      | None => None
      | Some t => option_map (cons (PStr t)) (recode enc v')
      end
  | p :: v' => option_map (cons p) (recode enc v')
  end.

(* bytes(val) = val.to_plain(regex=True).encode(): the characters of the string itself
   (after the repair of D8; before it the escaped plain form was encoded) *)
Definition sbytes (v : sstring) : list byte := utf8 (to_plain true v).

(* base64offset *)
Definition b64_offset (v : sstring) (i : nat) : sstring :=
  let start := match i with 0 => 0 | 1 => 2 | _ => 3 end%nat in
  (* the cut-off depends on the number of encoded bytes (after the repair of D7) *)
  let stop := match Nat.modulo (length (sbytes v) + i) 3 with 0 => None | 1 => Some 3 | _ => Some 2 end%nat in
  parse true (py_slice (b64 (repeat c_space i ++ sbytes v)) start stop).

(* ---------- type_check: accepted classes read off the modify() annotations ---------- *)
Definition type_check {S} (m : modifier) (a : atomv S) : bool :=
  match m with
  | MAll | MNeq => true
  | MContains | MStartswith | MEndswith =>
      match a with AStr _ _ | ARe _ _ _ _ | AFieldRef _ _ _ => true | _ => false end
  | MBase64 | MBase64Offset | MWide | MUtf16 | MUtf16be | MWindash | MRe | MCased | MCidr | MFieldref =>
      match a with AStr _ _ => true | _ => false end
  | MFlag _ => match a with ARe _ _ _ _ => true | _ => false end
  | MCmp _ | MTs _ => match a with ANum _ => true | _ => false end
  | MExists => match a with ABool _ => true | _ => false end
  | MExpand => match a with AStr _ _ | ARe _ _ _ _ => true | _ => false end
  end.

(* int(val.number) *)
Definition num_trunc (n : numv) : Z :=
  match n with
  | NPlain (NInt z) => z
  | NPlain (NFloat n d) => Z.quot n (Zpos d)
  | NTs _ z => z
  end.

(* SigmaRegularExpression.compile() *)
Definition compile (O : oracles) (v : sstring) (fi fm fs : bool) : outcome mval :=
  if re_ok O (to_plain false v) then Ok (VAtom (ARe v fi fm fs)) else SigmaErr E_Regex.

Definition ok_atom (a : atomv sstring) : outcome mval := Ok (VAtom a).

(* modify() of every value modifier; [applied] = len(self.applied_modifiers) *)
Definition modify (O : oracles) (field : option str) (applied : nat) (m : modifier)
                  (a : atomv sstring) : outcome mval :=
  match m, a with
  | MContains, AStr c v => ok_atom (AStr c (add_multi_back (add_multi_front v)))
  | MContains, ARe v fi fm fs =>
      let rs := to_plain false v in
      let v1 := if re_open_front rs then sadd re_dotstar v else v in
      let v2 := if re_open_back rs then sadd v1 re_dotstar else v1 in
      compile O v2 fi fm fs
  | MContains, AFieldRef f _ _ => ok_atom (AFieldRef f true true)
  | MStartswith, AStr c v => ok_atom (AStr c (add_multi_back v))
  | MStartswith, ARe v fi fm fs =>
      let rs := to_plain false v in
      compile O (if re_open_back rs then sadd v re_dotstar else v) fi fm fs
  | MStartswith, AFieldRef f _ ew => ok_atom (AFieldRef f true ew)
  | MEndswith, AStr c v => ok_atom (AStr c (add_multi_front v))
  | MEndswith, ARe v fi fm fs =>
      let rs := to_plain false v in
      compile O (if re_open_front rs then sadd re_dotstar v else v) fi fm fs
  | MEndswith, AFieldRef f sw _ => ok_atom (AFieldRef f sw true)
  | MBase64, AStr _ v =>
      if contains_special v then SigmaErr E_Value
      else ok_atom (AStr false (parse true (b64 (sbytes v))))
  | MBase64Offset, AStr _ v =>
      if contains_special v then SigmaErr E_Value
      else Ok (VExp (map (fun i => VAtom (AStr false (b64_offset v i))) [0; 1; 2]%nat))
  | MWide, AStr _ v =>
      match recode utf16le v with Some r => ok_atom (AStr false r) | None => SigmaErr E_Value end
  | MUtf16be, AStr _ v =>
      match recode utf16be v with Some r => ok_atom (AStr false r) | None => SigmaErr E_Value end
  | MUtf16, AStr _ v =>
      match recode utf16le v with Some r => ok_atom (AStr false (PStr [65279] :: r)) | None => SigmaErr E_Value end
  | MWindash, AStr c v => Ok (VExp (map (fun x => VAtom (AStr c x)) (windash (word O) v)))
  | MRe, AStr _ v =>
      if (0 <? applied)%nat then SigmaErr E_Value
      else (* SigmaRegularExpression(val.original); with no modifier applied yet the value is
              from_str(original), whose regex-plain form is the original text *)
           compile O (parse false (to_plain true v)) false false false
  | MFlag FI, ARe v _ fm fs => ok_atom (ARe v true fm fs)
  | MFlag FM, ARe v fi _ fs => ok_atom (ARe v fi true fs)
  | MFlag FS, ARe v fi fm _ => ok_atom (ARe v fi fm true)
  | MCased, AStr _ v => ok_atom (AStr true v)
  | MCidr, AStr _ v =>
      if (0 <? applied)%nat then SigmaErr E_Value
      else if cidr_ok O (to_plain false v) then ok_atom (ACidr (to_plain false v)) else SigmaErr E_Type
  | MCmp o, ANum n => ok_atom (ACmp o n)
  | MFieldref, AStr _ v =>
      if contains_special v then SigmaErr E_Value else ok_atom (AFieldRef (to_plain false v) false false)
  | MExists, ABool b =>
      match field with
      | None => SigmaErr E_Value
      | Some _ => if (0 <? applied)%nat then SigmaErr E_Value else ok_atom (AExists b)
      end
  | MExpand, AStr c v => ok_atom (AStr c (insert_placeholders v))
  | MExpand, ARe v fi fm fs => compile O (insert_placeholders v) fi fm fs
  | MTs p, ANum n => ok_atom (ANum (NTs p (num_trunc n)))
  | MAll, _ | MNeq, _ => ok_atom a      (* list modifiers: modify returns its argument *)
  | _, _ => Crash 1     (* unreachable after type_check *)
  end.

(* SigmaModifier.apply: expansion fan-out, type check, list wrapping *)
Fixpoint apply_val (O : oracles) (field : option str) (applied : nat) (m : modifier)
                   (v : mval) {struct v} : outcome (list mval) :=
  match v with
  | VExp l =>
      obind ((fix go (l : list mval) : outcome (list mval) :=
                match l with
                | [] => Ok []
                | x :: r => obind (apply_val O field applied m x)
                                  (fun a => obind (go r) (fun b => Ok (a ++ b)))
                end) l)
            (fun r => Ok [VExp r])
  | VAtom a =>
      if type_check m a then obind (modify O field applied m a) (fun r => Ok [r])
      else SigmaErr E_Type
  end.

Fixpoint flat_mapM {A B} (f : A -> outcome (list B)) (l : list A) : outcome (list B) :=
  match l with
  | [] => Ok []
  | x :: r => obind (f x) (fun a => obind (flat_mapM f r) (fun b => Ok (a ++ b)))
  end.

(* state of the detection item *)
Record item_state := { values : list mval; link_and : bool; negated : bool }.

(* one iteration of apply_modifiers *)
Definition step (O : oracles) (field : option str) (applied : nat) (m : modifier)
                (st : item_state) : outcome item_state :=
  match m with
  | MAll => Ok {| values := values st; link_and := true; negated := negated st |}
  | MNeq => Ok {| values := values st; link_and := link_and st; negated := true |}
  | _ => obind (flat_mapM (apply_val O field applied m) (values st))
               (fun vs => Ok {| values := vs; link_and := link_and st; negated := negated st |})
  end.

Fixpoint run_chain (O : oracles) (field : option str) (applied : nat) (ms : list modifier)
                   (st : item_state) : outcome item_state :=
  match ms with
  | [] => Ok st
  | m :: ms' => obind (step O field applied m st) (fun st' => run_chain O field (S applied) ms' st')
  end.

Fixpoint mapM {A B} (f : A -> outcome B) (l : list A) : outcome (list B) :=
  match l with
  | [] => Ok []
  | x :: r => obind (f x) (fun a => obind (mapM f r) (fun b => Ok (a :: b)))
  end.

Definition is_re (m : modifier) : bool := match m with MRe => true | _ => false end.

(* field, *modifier_ids = key.split("|") *)
Definition split_key (key : option str) : option str * list str :=
  match key with
  | None => (None, [])
  | Some k =>
      match split_on c_pipe k [] with
      | [] => (None, [])
      | f :: ids => ((match f with [] => None | _ => Some f end), ids)
      end
  end.

(* SigmaDetectionItem.from_mapping(key, val) *)
Definition from_mapping (O : oracles) (key : option str) (val : yin) : outcome item_state :=
  let '(field, ids) := split_key key in
  obind (lookup_all ids) (fun ms =>
  obind (mapM (sigma_value (existsb is_re ms)) (match val with YOne v => [v] | YMany l => l end))
        (fun vals =>
  run_chain O field 0 ms {| values := vals; link_and := false; negated := false |})).
