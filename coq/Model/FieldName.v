(* Model of TextQueryBackend.escape_and_quote_field (sigma/conversion/base.py l.1728-1778).
   The two user-supplied regular expressions are oracles: the match positions of
   field_escape_pattern and the outcome of the field_quote_pattern decision are inputs. *)
From Coq Require Import NArith List Bool Arith.
From PS Require Import Base.Chars.
Import ListNotations.
Local Open Scope nat_scope.

Record fcfg := {
  f_quote : option char;         (* field_quote (one character) *)
  f_escape : option str;         (* field_escape *)
  f_escape_quote : bool          (* field_escape_quote *)
}.

(* positions that get the escape string prepended: pattern matches plus (optionally) quote characters *)
Definition esc_pos (K : fcfg) (pat : nat -> bool) (i : nat) (c : char) : bool :=
  pat i || (f_escape_quote K && match f_quote K with Some q => N.eqb c q | None => false end).

Fixpoint escape_from (K : fcfg) (e : str) (pat : nat -> bool) (i : nat) (f : str) : str :=
  match f with
  | [] => []
  | c :: f' => (if esc_pos K pat i c then e else []) ++ c :: escape_from K e pat (S i) f'
  end.

Definition escape_and_quote_field (K : fcfg) (pat : nat -> bool) (quote_decision : bool) (f : str) : str :=
  let escaped := match f_escape K with Some e => escape_from K e pat 0 f | None => f end in
  match f_quote K with
  | Some q => if quote_decision then q :: escaped ++ [q] else escaped
  | None => escaped
  end.

(* Reader of a rendered field name: optional quotes; inside, the escape character makes the next
   character literal; an unescaped quote character must be the closing one. *)
Fixpoint fbody (fuel : nat) (e : option char) (q : option char) (s : str) : option str :=
  match fuel with
  | O => None
  | S n =>
    match s with
    | [] => match q with None => Some [] | Some _ => None end
    | c :: s' =>
      if match e with Some x => N.eqb x c | None => false end then
        match s' with d :: s'' => option_map (cons d) (fbody n e q s'') | [] => None end
      else if match q with Some x => N.eqb x c | None => false end then
        match s' with [] => Some [] | _ => None end
      else option_map (cons c) (fbody n e q s')
    end
  end.
Definition fread (e : option char) (q : option char) (quoted : bool) (s : str) : option str :=
  if quoted then
    match q, s with
    | Some x, c :: body => if N.eqb x c then fbody (S (length body)) e q body else None
    | _, _ => None
    end
  else fbody (S (length s)) e None s.
