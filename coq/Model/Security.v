(* C16 - model of how capability bits (allow_external_sources, allow_template_vars, vars_allowed_paths)
   flow from the caller of ProcessingPipeline.from_dict / from_yaml / ProcessingPipelineResolver into the
   instantiated items, and of the gates that consult them.  Definitions only.

   Mirrors (pySigma working tree):
     sigma/processing/pipeline.py   ProcessingPipeline.from_dict, from_yaml, ProcessingItem.from_dict,
                                    QueryPostprocessingItem.from_dict, _instantiate_transformation
     sigma/processing/transformations/meta.py      NestedProcessingTransformation.__post_init__
     sigma/processing/postprocessing.py            NestedQueryPostprocessingTransformation
     sigma/processing/finalization.py              Finalizer.from_dict, NestedFinalizer.from_dict
     sigma/processing/templates.py                 TemplateBase.__post_init__, _vars_execution_allowed,
                                                   _load_vars_from_file
     sigma/processing/transformations/external.py  _external_sources_allowed, _get_values
     sigma/processing/resolver.py                  resolve_pipeline (file branch)
   The environment (two variables, os.path.realpath, which files/commands work) is a parameter. *)
From Coq Require Import String Ascii.
From Coq Require Import NArith ZArith List Bool.
From PS Require Import Base.Chars Base.Outcome.
Import ListNotations.
Open Scope N_scope.

(* ---------- YAML / Python values ---------- *)
Inductive yv :=
| YNull | YBool (b : bool) | YInt (z : Z) | YStr (s : str)
| YList (l : list yv) | YMap (m : list (str * yv)).

Definition lit (x : string) : str := map N_of_ascii (list_ascii_of_string x).

Definition k_type := Eval vm_compute in lit "type".
Definition k_id := Eval vm_compute in lit "id".
Definition k_items := Eval vm_compute in lit "items".
Definition k_tv := Eval vm_compute in lit "allow_template_vars".
Definition k_ap := Eval vm_compute in lit "vars_allowed_paths".
Definition k_ext := Eval vm_compute in lit "allow_external_sources".
Definition k_vars := Eval vm_compute in lit "vars".
Definition k_transformations := Eval vm_compute in lit "transformations".
Definition k_postprocessing := Eval vm_compute in lit "postprocessing".
Definition k_finalizers := Eval vm_compute in lit "finalizers".
Definition k_priority := Eval vm_compute in lit "priority".
Definition k_name := Eval vm_compute in lit "name".
Definition k_allowed_backends := Eval vm_compute in lit "allowed_backends".
Definition k_template := Eval vm_compute in lit "template".
Definition k_path := Eval vm_compute in lit "path".
Definition k_autoescape := Eval vm_compute in lit "autoescape".
Definition k_include := Eval vm_compute in lit "include".
Definition k_exclude := Eval vm_compute in lit "exclude".
Definition k_format := Eval vm_compute in lit "format".
Definition k_filter := Eval vm_compute in lit "filter".
Definition k_csv_column := Eval vm_compute in lit "csv_column".
Definition k_csv_has_header := Eval vm_compute in lit "csv_has_header".
Definition k_jq_expression := Eval vm_compute in lit "jq_expression".
Definition k_url := Eval vm_compute in lit "url".
Definition k_method := Eval vm_compute in lit "method".
Definition k_timeout := Eval vm_compute in lit "timeout".
Definition k_headers := Eval vm_compute in lit "headers".
Definition k_params := Eval vm_compute in lit "params".
Definition k_form_data := Eval vm_compute in lit "form_data".
Definition k_json_body := Eval vm_compute in lit "json_body".
Definition k_max_body_size := Eval vm_compute in lit "max_body_size".
Definition k_cmd := Eval vm_compute in lit "cmd".
Definition k_max_stdout := Eval vm_compute in lit "max_stdout".
Definition k_key := Eval vm_compute in lit "key".
Definition k_val := Eval vm_compute in lit "val".
Definition k_prefix := Eval vm_compute in lit "prefix".
Definition k_suffix := Eval vm_compute in lit "suffix".
Definition k_separator := Eval vm_compute in lit "separator".
Definition k_indent := Eval vm_compute in lit "indent".
Definition k_rule_conditions := Eval vm_compute in lit "rule_conditions".
Definition k_category := Eval vm_compute in lit "category".

Definition t_file := Eval vm_compute in lit "file_placeholders".
Definition t_http := Eval vm_compute in lit "http_placeholders".
Definition t_cmd := Eval vm_compute in lit "command_placeholders".
Definition t_wild := Eval vm_compute in lit "wildcard_placeholders".
Definition t_set_state := Eval vm_compute in lit "set_state".
Definition t_nest := Eval vm_compute in lit "nest".
Definition t_template := Eval vm_compute in lit "template".
Definition t_embed := Eval vm_compute in lit "embed".
Definition t_simple_template := Eval vm_compute in lit "simple_template".
Definition t_nested := Eval vm_compute in lit "nested".
Definition t_concat := Eval vm_compute in lit "concat".
Definition t_json := Eval vm_compute in lit "json".
Definition t_yaml := Eval vm_compute in lit "yaml".
Definition t_logsource := Eval vm_compute in lit "logsource".
Definition s_one := Eval vm_compute in lit "1".
Definition s_true := Eval vm_compute in lit "true".
Definition s_test := Eval vm_compute in lit "test".
Definition s_plaintext := Eval vm_compute in lit "plaintext".

(* ---------- error classes (class only is compared with the implementation) ---------- *)
Definition E_Security : N := 7.   (* SigmaSecurityError *)
Definition E_Config : N := 8.     (* SigmaConfigurationError *)
Definition C_Attr : N := 1.       (* AttributeError *)
Definition C_Key : N := 2.        (* KeyError *)
Definition C_ValueErr : N := 3.   (* ValueError (vars file cannot be loaded) *)
Definition C_Type : N := 4.       (* TypeError *)
Definition C_NotFound : N := 5.   (* jinja2.TemplateNotFound *)
Definition C_Sandbox : N := 6.    (* jinja2.exceptions.SecurityError: the sandbox refused an expression *)
Definition C_Unmodelled : N := 98. (* ill-typed parameter value outside the modelled domain *)

(* ---------- dict helpers ---------- *)
Definition mem_str (k : str) (l : list str) : bool := existsb (str_eqb k) l.

Fixpoint lookup (k : str) (m : list (str * yv)) : option yv :=
  match m with
  | [] => None
  | (k', v) :: r => if str_eqb k k' then Some v else lookup k r
  end.

(* {k: v for k, v in d.items() if k not in ks}  /  d.pop(k, None) for k in ks *)
Definition remove_keys (ks : list str) (m : list (str * yv)) : list (str * yv) :=
  filter (fun kv => negb (mem_str (fst kv) ks)) m.

(* cls(PARAMS): TypeError for an unexpected keyword or a missing required one *)
Definition check_params (accepted required : list str) (ps : list (str * yv)) : bool :=
  forallb (fun kv => mem_str (fst kv) accepted) ps &&
  forallb (fun r => match lookup r ps with Some _ => true | None => false end) required.

(* Python iteration over a value (for x in v) *)
Definition iter_yv (v : yv) : outcome (list yv) :=
  match v with
  | YList l => Ok l
  | YStr s => Ok (map (fun c => YStr [c]) s)
  | YMap m => Ok (map (fun kv => YStr (fst kv)) m)
  | YNull | YBool _ | YInt _ => Crash C_Type
  end.

Definition truthy (v : yv) : bool :=
  match v with
  | YNull => false | YBool b => b | YInt z => negb (Z.eqb z 0)
  | YStr s => match s with [] => false | _ => true end
  | YList l => match l with [] => false | _ => true end
  | YMap m => match m with [] => false | _ => true end
  end.

(* ---------- capabilities, effects, environment ---------- *)
Record args := { a_ext : bool; a_tv : bool; a_ap : option (list str) }.
Definition default_args := {| a_ext := false; a_tv := false; a_ap := None |}.

Inductive source := SFile (p : str) | SHttp (u : str) | SCmd (shell : bool) (words : list str).

Inductive effect :=
| ERead (p : str)                        (* open() of a placeholder source file *)
| ERun (shell : bool) (words : list str) (* subprocess *)
| ENet (u : str)                         (* HTTP request *)
| EExec (p : list str).                  (* a Python vars file is executed; p = its real location *)

Definition effect_of (s : source) : effect :=
  match s with SFile p => ERead p | SHttp u => ENet u | SCmd sh w => ERun sh w end.

Record env := {
  e_ext : option str;             (* PYSIGMA_ALLOW_EXTERNAL_SOURCES *)
  e_tv : option str;              (* PYSIGMA_ALLOW_VARS_EXECUTION *)
  real : str -> list str;         (* os.path.realpath, as the list of components below the root *)
  loadable : str -> bool;         (* the file exists and is a Python module defining `vars` *)
  fetch_ok : source -> bool;      (* the file is readable / the command exits with 0 / the request succeeds *)
  tpl_file : str -> str -> option str  (* FileSystemLoader(path).get_template(name): the template text, if the file exists *)
}.

Definition lower_ascii (c : N) : N := if (65 <=? c) && (c <=? 90) then c + 32 else c.

(* os.environ.get(NAME, "").lower() in ("1", "true") *)
Definition env_on (v : option str) : bool :=
  match v with
  | None => false
  | Some s => let l := map lower_ascii s in str_eqb l s_one || str_eqb l s_true
  end.

(* ---------- paths ---------- *)
Definition c_sl : N := 47.
Definition rend (cs : list str) : str := concat (map (fun c => c_sl :: c) cs).
Definition render (cs : list str) : str := match cs with [] => [c_sl] | _ => rend cs end.
Definition realpath (E : env) (s : str) : str := render (real E s).

(* any(vars_path.startswith(os.path.realpath(base) + os.sep) or vars_path == os.path.realpath(base) ...) *)
Definition path_allowed (E : env) (bases : list str) (rp : str) : bool :=
  existsb (fun b => let rb := realpath E b in prefixb (rb ++ [c_sl]) rp || str_eqb rp rb) bases.

(* ---------- instantiated objects ---------- *)
Record phsel := { inc : option (list str); exc : option (list str) }.

Inductive node :=
| NExt (s : source) (sel : phsel) (flag : bool)                    (* File/HTTP/CommandPlaceholderTransformation *)
| NTpl (vars : option str) (tv : bool) (ap : option (list str))    (* QueryTemplateTransformation / TemplateFinalizer *)
| NWild (sel : phsel)                                              (* WildcardPlaceholderTransformation *)
| NPlain                                                           (* anything without capabilities *)
| NGuard (applies : bool) (n : node)                               (* processing item with rule conditions *)
| NNest (l : list node).                                           (* nested pipeline / nested finalizer *)

Record tree := { t_items : list node; t_post : list node; t_fin : list node }.

(* ---------- results with an effect trace ---------- *)
Definition res (A : Type) := (outcome A * list effect)%type.
Definition rret {A} (a : A) : res A := (Ok a, []).
Definition rerr {A} (c : N) : res A := (SigmaErr c, []).
Definition rcrash {A} (c : N) : res A := (Crash c, []).
Definition rbind {A B} (x : res A) (f : A -> res B) : res B :=
  match x with
  | (Ok a, t) => let '(o, t') := f a in (o, t ++ t')
  | (SigmaErr c, t) => (SigmaErr c, t)
  | (Crash c, t) => (Crash c, t)
  end.
Definition rlift {A} (o : outcome A) : res A := (o, []).
Section Maps.
  Context {A B : Type}.
  Section R.
    Variable f : A -> res B.
    Fixpoint rmap (l : list A) : res (list B) :=
      match l with
      | [] => rret []
      | x :: r => rbind (f x) (fun y => rbind (rmap r) (fun ys => rret (y :: ys)))
      end.
  End R.
  Section O.
    Variable f : A -> outcome B.
    Fixpoint omap (l : list A) : outcome (list B) :=
      match l with
      | [] => Ok []
      | x :: r => obind (f x) (fun y => obind (omap r) (fun ys => Ok (y :: ys)))
      end.
  End O.
End Maps.

(* d[key] where the value is expected to be a list: `onlist` for a YAML list, `other` for any other value,
   `none` when the key is absent (first binding of the key, as in a dict) *)
Section FindKey.
  Context {A : Type}.
  Variable key : str.
  Variable onlist : list yv -> A.
  Variable other : yv -> A.
  Variable none : A.
  Fixpoint find_key (m : list (str * yv)) : A :=
    match m with
    | [] => none
    | (k, v) :: r =>
      if str_eqb key k then match v with YList l => onlist l | _ => other v end
      else find_key r
    end.
End FindKey.

(* try: ... except (SigmaConfigurationError, TypeError) as e: raise SigmaConfigurationError(...) *)
Definition catch_o {A} (o : outcome A) : outcome A :=
  match o with Crash c => if N.eqb c C_Type then SigmaErr E_Config else Crash c | _ => o end.
Definition catch_r {A} (x : res A) : res A := (catch_o (fst x), snd x).

(* ---------- gates ---------- *)
(* TemplateBase.__post_init__ (the vars part) with _vars_execution_allowed and _load_vars_from_file *)
Definition tpl_init (E : env) (tv : bool) (ap : option (list str)) (vars : option str) : res unit :=
  match vars with
  | None => rret tt
  | Some p =>
    if negb (tv || env_on (e_tv E)) then rerr E_Security
    else
      let rp := realpath E p in
      if match ap with Some bases => negb (path_allowed E bases rp) | None => false end
      then rerr E_Security
      else if loadable E p then (Ok tt, [EExec (real E p)]) else rcrash C_ValueErr
  end.

(* ExternalSourceBaseTransformation._external_sources_allowed *)
Definition ext_allowed (E : env) (flag : bool) : bool := flag || env_on (e_ext E).

(* ---------- constructors of the modelled classes ---------- *)
Definition ext_common : list str :=
  [k_include; k_exclude; k_format; k_filter; k_csv_column; k_csv_has_header; k_jq_expression; k_ext].
Definition file_accepted := k_path :: ext_common.
Definition http_accepted :=
  [k_url; k_method; k_timeout; k_headers; k_params; k_form_data; k_json_body; k_max_body_size] ++ ext_common.
Definition cmd_accepted := [k_cmd; k_timeout; k_max_stdout] ++ ext_common.
Definition tpl_accepted := [k_template; k_path; k_autoescape; k_vars; k_tv; k_ap].

Definition strs_of (l : list yv) : list str :=
  flat_map (fun v => match v with YStr s => [s] | _ => [] end) l.
Definition sel_field (k : str) (ps : list (str * yv)) : option (list str) :=
  match lookup k ps with Some (YList l) => Some (strs_of l) | _ => None end.
Definition get_sel (ps : list (str * yv)) : phsel := {| inc := sel_field k_include ps; exc := sel_field k_exclude ps |}.

Definition is_none (k : str) (ps : list (str * yv)) : bool :=
  match lookup k ps with None | Some YNull => true | _ => false end.

(* ExternalSourceBaseTransformation.__post_init__ + check_exclusivity: every failure is a configuration error *)
Definition ext_postinit_ok (ps : list (str * yv)) : bool :=
  match lookup k_format ps with
  | None => true
  | Some (YStr f) => mem_str f [s_plaintext; lit "csv"; lit "json"; lit "yaml"]
  | Some _ => false
  end &&
  match lookup k_filter ps with None | Some YNull | Some (YStr _) => true | Some _ => false end &&
  negb (negb (is_none k_include ps) && negb (is_none k_exclude ps)).

Definition src_of (kind : N) (ps : list (str * yv)) : option source :=
  if N.eqb kind 0 then match lookup k_path ps with Some (YStr p) => Some (SFile p) | _ => None end
  else if N.eqb kind 1 then match lookup k_url ps with Some (YStr u) => Some (SHttp u) | _ => None end
  else match lookup k_cmd ps with
       | Some (YStr c) => Some (SCmd true [c])
       | Some (YList l) => Some (SCmd false (strs_of l))
       | _ => None
       end.

Definition src_key (kind : N) : str := if N.eqb kind 0 then k_path else if N.eqb kind 1 then k_url else k_cmd.
Definition ext_accepted (kind : N) := if N.eqb kind 0 then file_accepted else if N.eqb kind 1 then http_accepted else cmd_accepted.

(* transformation_class(PARAMS) for the three external source classes; `flag` is the value that
   _instantiate_transformation injects (params["allow_external_sources"] = allow_external_sources) *)
Definition ext_ctor (kind : N) (ps : list (str * yv)) (flag : bool) : outcome node :=
  if negb (check_params (ext_accepted kind) [] ps) then Crash C_Type
  else if negb (match lookup (src_key kind) ps with Some v => truthy v | None => false end) then SigmaErr E_Config
  else if negb (ext_postinit_ok ps) then SigmaErr E_Config
  else match src_of kind ps with
       | Some s => Ok (NExt s (get_sel ps) flag)
       | None => Crash C_Unmodelled
       end.

(* the Jinja2 template of a template item: inline text (path is None: SandboxedEnvironment.from_string) or the file
   `template` below `path` (SandboxedEnvironment(loader=FileSystemLoader(path)).get_template) *)
Definition tpl_source (E : env) (ps : list (str * yv)) : outcome str :=
  match lookup k_template ps with
  | Some (YStr t) =>
    match lookup k_path ps with
    | None | Some YNull => Ok t
    | Some (YStr p) => match tpl_file E p t with Some text => Ok text | None => Crash C_NotFound end
    | Some _ => Crash C_Unmodelled
    end
  | _ => Crash C_Unmodelled
  end.

(* QueryTemplateTransformation / TemplateFinalizer (PARAMS) with the injected caller values *)
Definition tpl_ctor (E : env) (tv : bool) (ap : option (list str)) (ps : list (str * yv)) : res node :=
  if negb (check_params tpl_accepted [k_template] ps) then rcrash C_Type
  else rbind (rlift (tpl_source E ps)) (fun _ =>
       match lookup k_vars ps with
       | None | Some YNull => rret (NTpl None tv ap)
       | Some (YStr p) => rbind (tpl_init E tv ap (Some p)) (fun _ => rret (NTpl (Some p) tv ap))
       | Some _ => rcrash C_Unmodelled
       end).

Definition plain_ctor (accepted required : list str) (ps : list (str * yv)) : outcome node :=
  if check_params accepted required ps then Ok NPlain else Crash C_Type.

(* keys that _instantiate_transformation does not pass to the constructor *)
Definition excl_keys : list str :=
  [k_rule_conditions; lit "rule_cond_expr"; lit "rule_cond_op"; lit "rule_cond_not";
   lit "detection_item_conditions"; lit "detection_item_cond_expr"; lit "detection_item_cond_op";
   lit "detection_item_cond_not"; lit "field_name_conditions"; lit "field_name_cond_expr";
   lit "field_name_cond_op"; lit "field_name_cond_not"; k_type; k_id; k_tv; k_ap; k_ext].

(* rule conditions: modelled for the one shape the generator uses,
   rule_conditions: [{type: logsource, category: c}]  (the rule converted has category "test") *)
Definition item_applies (m : list (str * yv)) : bool :=
  match lookup k_rule_conditions m with
  | Some (YList [YMap c]) =>
    match lookup k_type c, lookup k_category c with
    | Some (YStr t), Some (YStr cat) => if str_eqb t t_logsource then str_eqb cat s_test else true
    | _, _ => true
    end
  | _ => true
  end.
Definition guard (m : list (str * yv)) (n : node) : node :=
  match lookup k_rule_conditions m with None => n | Some _ => NGuard (item_applies m) n end.

Definition wild_ctor (ps : list (str * yv)) : outcome node :=
  if negb (check_params [k_include; k_exclude] [] ps) then Crash C_Type
  else if negb (is_none k_include ps) && negb (is_none k_exclude ps) then SigmaErr E_Config
  else Ok (NWild (get_sel ps)).

(* ProcessingItem.from_dict(d, allow_external_sources=ext) -> _instantiate_transformation(d, transformations, ...) *)
Fixpoint inst_item (ext : bool) (d : yv) {struct d} : outcome node :=
  match d with
  | YMap m =>
    match lookup k_type m with
    | None => SigmaErr E_Config
    | Some (YStr ty) =>
      let ps := remove_keys excl_keys m in
      obind
        (if str_eqb ty t_file then catch_o (ext_ctor 0 ps ext)
         else if str_eqb ty t_http then catch_o (ext_ctor 1 ps ext)
         else if str_eqb ty t_cmd then catch_o (ext_ctor 2 ps ext)
         else if str_eqb ty t_wild then catch_o (wild_ctor ps)
         else if str_eqb ty t_set_state then catch_o (plain_ctor [k_key; k_val] [k_key; k_val] ps)
         else if str_eqb ty t_nest then
           catch_o
             (if negb (check_params [k_items] [k_items] ps) then Crash C_Type
              else
                (* NestedProcessingTransformation.__post_init__: ProcessingItem.from_dict(i) for every element,
                   with the default allow_external_sources=False whatever the caller passed *)
                find_key k_items
                  (fun l => obind (omap (inst_item false) l) (fun ch => Ok (NNest ch)))
                  (fun v => obind (iter_yv v) (fun l =>
                            obind (omap (fun _ : yv => @Crash node C_Attr) l) (fun ch => Ok (NNest ch))))
                  (Crash C_Type) m)
         else SigmaErr E_Config)
        (fun n => Ok (guard m n))
    | Some (YList _) | Some (YMap _) => Crash C_Type      (* unhashable dict key *)
    | Some _ => SigmaErr E_Config
    end
  | _ => Crash C_Attr        (* d.get on something that is not a dict *)
  end.

(* QueryPostprocessingItem.from_dict(d, allow_template_vars, vars_allowed_paths) *)
Definition inst_post (E : env) (tv : bool) (ap : option (list str)) (d : yv) : res node :=
  match d with
  | YMap m =>
    match lookup k_type m with
    | None => rerr E_Config
    | Some (YStr ty) =>
      let ps := remove_keys excl_keys m in
      if str_eqb ty t_template then catch_r (tpl_ctor E tv ap ps)
      else if str_eqb ty t_embed then rlift (catch_o (plain_ctor [k_prefix; k_suffix] [] ps))
      else if str_eqb ty t_simple_template then rlift (catch_o (plain_ctor [k_template] [k_template] ps))
      else if str_eqb ty t_nest then
        (* NestedQueryPostprocessingTransformation(items=<yaml value>): ProcessingPipeline.__post_init__ rejects
           every non-empty value (its elements are not QueryPostprocessingItem objects) *)
        rlift (catch_o
          (if negb (check_params [k_items] [k_items] ps) then Crash C_Type
           else match lookup k_items ps with
                | Some (YList []) | Some (YStr []) | Some (YMap []) => Ok (NNest [])
                | _ => Crash C_Type
                end))
      else rerr E_Config
    | Some (YList _) | Some (YMap _) => rcrash C_Type
    | Some _ => rerr E_Config
    end
  | _ => rcrash C_Attr
  end.

(* the finalizer loop of ProcessingPipeline.from_dict (top = true) and NestedFinalizer.from_dict (top = false) *)
Fixpoint inst_fin (E : env) (tv : bool) (ap : option (list str)) (top : bool) (d : yv) {struct d} : res node :=
  match d with
  | YMap m =>
    let m1 := remove_keys (if top then [k_tv; k_ap; k_ext] else [k_tv; k_ap]) m in
    match lookup k_type m1 with
    | None => rerr E_Config
    | Some tyv =>
      let ps := remove_keys [k_type] m1 in
      let unknown : res node := if top then rerr E_Config else rcrash C_Key in
      match tyv with
      | YStr ty =>
        if str_eqb ty t_template then catch_r (tpl_ctor E tv ap ps)
        else if str_eqb ty t_nested then
          find_key k_finalizers
            (fun l => rbind (rmap (inst_fin E tv ap false) l) (fun ch => rret (NNest ch)))
            (fun v => rbind (rlift (iter_yv v)) (fun l =>
                      rbind (rmap (fun _ : yv => @rcrash node C_Attr) l) (fun ch => rret (NNest ch))))
            (rerr E_Config) m
        else if str_eqb ty t_concat then rlift (catch_o (plain_ctor [k_separator; k_prefix; k_suffix] [] ps))
        else if str_eqb ty t_json then rlift (catch_o (plain_ctor [k_indent] [] ps))
        else if str_eqb ty t_yaml then rlift (catch_o (plain_ctor [k_indent] [] ps))
        else unknown
      | YList _ | YMap _ => rcrash C_Type
      | _ => unknown
      end
    end
  | YList _ => rcrash C_Type       (* list.pop(k, None) *)
  | _ => rcrash C_Attr
  end.

Definition top_keys : list str :=
  [k_vars; k_transformations; k_postprocessing; k_finalizers; k_priority; k_name; k_allowed_backends].

Definition get_list (k : str) (m : list (str * yv)) : outcome (list yv) :=
  match lookup k m with None => Ok [] | Some v => iter_yv v end.

(* ProcessingPipeline.from_dict *)
Definition load_dict (E : env) (d : yv) (a : args) : res tree :=
  match d with
  | YMap m =>
    if negb (forallb (fun kv => mem_str (fst kv) top_keys) m) then rerr E_Config
    else
      rbind (rlift (get_list k_transformations m)) (fun its =>
      rbind (rlift (omap (inst_item (a_ext a)) its)) (fun items =>
      rbind (rlift (get_list k_postprocessing m)) (fun pds =>
      rbind (rmap (inst_post E (a_tv a) (a_ap a)) pds) (fun post =>
      rbind (rlift (get_list k_finalizers m)) (fun fds =>
      rbind (rmap (inst_fin E (a_tv a) (a_ap a) true) fds) (fun fin =>
      rret {| t_items := items; t_post := post; t_fin := fin |}))))))
  | _ => rcrash C_Attr
  end.


(* ProcessingPipeline.from_yaml(text, ..., source_path=src): the document is the parsed text *)
Definition yaml_paths (E : env) (ap : option (list str)) (src : option str) : option (list str) :=
  match ap, src with
  | None, Some sp => Some [render (removelast (real E sp))]   (* os.path.dirname(os.path.realpath(source_path)) *)
  | _, _ => ap
  end.
Definition load_yaml (E : env) (d : yv) (a : args) (src : option str) : res tree :=
  load_dict E d {| a_ext := a_ext a; a_tv := a_tv a; a_ap := yaml_paths E (a_ap a) src |}.
(* ProcessingPipelineResolver.resolve_pipeline(spec) for a file: from_yaml(f.read(), source_path=spec).
   ProcessingPipelineResolver.resolve reaches the same call for every file spec and for every *.yml file found
   below a directory spec (resolve_spec -> resolve_path -> resolve_pipeline), with spec = the path found; the route
   only determines which string plays the role of source_path, hence which base directory is in force. *)
(* resolve_pipeline wraps the whole `with open(spec) ...: return from_yaml(...)` in `except OSError`: an OSError raised
   while loading (jinja2.TemplateNotFound is one) comes out as SigmaPipelineNotFoundError *)
Definition E_PipelineNotFound : N := 9.
Definition oserror_to_notfound {A} (x : res A) : res A :=
  (match fst x with Crash c => if N.eqb c C_NotFound then SigmaErr E_PipelineNotFound else Crash c | o => o end, snd x).
Definition load_resolver (E : env) (d : yv) (spec : str) : res tree :=
  oserror_to_notfound (load_yaml E d default_args (Some spec)).

(* ---------- use: applying the pipeline to one rule whose values carry the placeholders `rem` ---------- *)
Definition handled (sel : phsel) (n : str) : bool :=
  match inc sel with None => true | Some i => mem_str n i end &&
  match exc sel with None => true | Some e => negb (mem_str n e) end.

Definition unhandled (sel : phsel) (rem : list str) : list str := filter (fun n => negb (handled sel n)) rem.

Fixpoint run_node (E : env) (n : node) (rem : list str) : res (list str) :=
  match n with
  | NExt s sel flag =>
    if existsb (handled sel) rem then
      (* _get_values on the first handled placeholder; later ones are served from the cache *)
      if negb (ext_allowed E flag) then rerr E_Security
      else if fetch_ok E s then (Ok (unhandled sel rem), [effect_of s])
      else (SigmaErr E_Value, [effect_of s])
    else rret rem
  | NWild sel => rret (unhandled sel rem)
  | NTpl _ _ _ | NPlain => rret rem
  | NGuard b n' => if b then run_node E n' rem else rret rem
  | NNest l =>
    (fix go (l : list node) (rem : list str) : res (list str) :=
       match l with
       | [] => rret rem
       | x :: r => rbind (run_node E x rem) (fun rem' => go r rem')
       end) l rem
  end.

Fixpoint run_nodes (E : env) (l : list node) (rem : list str) : res (list str) :=
  match l with
  | [] => rret rem
  | x :: r => rbind (run_node E x rem) (fun rem' => run_nodes E r rem')
  end.

(* Backend.convert on one rule: pipeline.apply, then the query is rendered (an unhandled placeholder is a
   SigmaPlaceholderError); post-processing and finalizers run without further effects (vars were loaded at
   construction time) *)
Definition convert (E : env) (t : tree) (phs : list str) : res unit :=
  rbind (run_nodes E (t_items t) phs) (fun rem =>
  match rem with [] => rret tt | _ => rerr E_Placeholder end).

(* ---------- rendering: every template is evaluated inside Jinja2's sandbox ---------- *)
(* the sandbox answers every attribute whose name starts with an underscore with an "unsafe" undefined value:
   printing it gives the empty string, but using it further - attribute, call, subscript - raises jinja2's
   SecurityError.  The model reads that off the template text: "._name" directly followed by one of . ( [ *)
Definition is_ident (c : N) : bool :=
  ((48 <=? c) && (c <=? 57)) || ((65 <=? c) && (c <=? 90)) || ((97 <=? c) && (c <=? 122)) || (c =? 95).
Fixpoint skip_ident (s : str) : str :=
  match s with c :: r => if is_ident c then skip_ident r else s | [] => [] end.
Fixpoint unsafe_text (s : str) : bool :=
  match s with
  | [] => false
  | c :: r =>
    ((c =? 46) &&
     match r with
     | 95 :: _ => match skip_ident r with x :: _ => (x =? 46) || (x =? 40) || (x =? 91) | [] => false end
     | _ => false
     end) || unsafe_text r
  end.

(* the environment of pipeline templates (PipelineTemplateEnvironment, repair of D36) also refuses to CALL into the processing
   code through the objects of the template context: the loaders take the security opt-ins as plain arguments, a template that
   could call them would grant itself what the caller did not grant.  Read off the template text: a call of a from_yaml /
   from_dict attribute *)
Fixpoint prefix_of (p s : str) : bool :=
  match p, s with
  | [], _ => true
  | a :: p', b :: s' => (a =? b) && prefix_of p' s'
  | _ :: _, [] => false
  end.
Definition call_from_yaml := Eval vm_compute in lit ".from_yaml(".
Definition call_from_dict := Eval vm_compute in lit ".from_dict(".
Fixpoint calls_loader (s : str) : bool :=
  match s with
  | [] => false
  | _ :: r => prefix_of call_from_yaml s || prefix_of call_from_dict s || calls_loader r
  end.

Definition tpl_unsafe (E : env) (m : list (str * yv)) : bool :=
  match tpl_source E m with Ok t => unsafe_text t || calls_loader t | _ => false end.
Definition is_type (ty : str) (m : list (str * yv)) : bool :=
  match lookup k_type m with Some (YStr t) => str_eqb t ty | _ => false end.

(* a successfully loaded post-processing item that renders an unsafe template (nested post-processing pipelines are
   always empty, see inst_post) *)
Definition post_unsafe (E : env) (d : yv) : bool :=
  match d with YMap m => is_type t_template m && tpl_unsafe E m | _ => false end.
(* a finalizer, or a finalizer nested below it, that renders an unsafe template *)
Fixpoint fin_unsafe (E : env) (d : yv) {struct d} : bool :=
  match d with
  | YMap m =>
    (is_type t_template m && tpl_unsafe E m) ||
    (is_type t_nested m && find_key k_finalizers (fun l => existsb (fin_unsafe E) l) (fun _ => false) false m)
  | _ => false
  end.
Definition doc_unsafe (E : env) (d : yv) : bool :=
  match d with
  | YMap m =>
    match lookup k_postprocessing m with Some (YList l) => existsb (post_unsafe E) l | _ => false end ||
    match lookup k_finalizers m with Some (YList l) => existsb (fin_unsafe E) l | _ => false end
  | _ => false
  end.

(* Backend.convert including QueryTemplateTransformation.apply / TemplateFinalizer.apply: rendering happens inside
   the sandbox, so it has no effect; a template that reaches for an underscore attribute ends the conversion
   with jinja2's SecurityError instead of being evaluated *)
Definition convert_full (E : env) (d : yv) (t : tree) (phs : list str) : res unit :=
  rbind (convert E t phs) (fun _ => if doc_unsafe E d then rcrash C_Sandbox else rret tt).
