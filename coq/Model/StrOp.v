(* Model of the string-operator selection of TextQueryBackend.convert_condition_field_eq_val_str
   (sigma/conversion/base.py l.1847-1905; the case-sensitive variant l.1907-1964 has the same shape):
   which expression template is used and which slice of the value it receives. *)
From Coq Require Import ZArith NArith List Bool.
From PS Require Import Base.Chars Base.Outcome Model.SString Model.Slice.
Import ListNotations.

Record opcfg := {
  has_sw : bool; has_ew : bool; has_ct : bool; has_wm : bool;     (* templates defined *)
  sw_special : bool; ew_special : bool; ct_special : bool         (* *_expression_allow_special *)
}.
Inductive sop := OpStartswith | OpEndswith | OpContains | OpWildMatch | OpEq.

(* SigmaString.startswith / endswith (SpecialChars.WILDCARD_MULTI) l.424-446 *)
Definition starts_multi (v : sstring) : bool := match v with PMulti :: _ => true | _ => false end.
Definition ends_multi (v : sstring) : bool := match rev v with PMulti :: _ => true | _ => false end.

Definition no_special_in (o : outcome sstring) : bool :=
  match o with Ok x => negb (contains_special x) | _ => false end.

Definition str_op (K : opcfg) (v : sstring) : sop * outcome sstring :=
  let a := getitem v None (Some (-1)%Z) in
  let b := getitem v (Some 1%Z) None in
  let c := getitem v (Some 1%Z) (Some (-1)%Z) in
  if has_sw K && ends_multi v && (sw_special K || no_special_in a) then (OpStartswith, a)
  else if has_ew K && starts_multi v && (ew_special K || no_special_in b) then (OpEndswith, b)
  else if has_ct K && starts_multi v && ends_multi v && (ct_special K || no_special_in c) then (OpContains, c)
  else if has_wm K && contains_special v then (OpWildMatch, Ok v)
  else (OpEq, Ok v).
