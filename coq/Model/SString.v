(* Model of sigma/types.py SigmaString: parser, plain form, target rendering. Definitions only. *)
From Coq Require Import NArith List Bool.
From PS Require Import Base.Chars Base.Outcome.
Import ListNotations.
Open Scope N_scope.

Inductive part := PStr (s : str) | PMulti | PSingle | PPh (name : str).
Definition sstring := list part.

Definition is_special (c : char) : bool := N.eqb c c_star || N.eqb c c_qm.
Definition special_of (c : char) : part := if N.eqb c c_star then PMulti else PSingle.

(* "if acc: r.append(''.join(acc))" *)
Definition flush (r : sstring) (acc : str) : sstring :=
  match acc with [] => r | _ => r ++ [PStr acc] end.

(* SigmaString.__init__ l.127-176: the loop with r, acc, escaped *)
Fixpoint parse_go (esc : bool) (s : str) (r : sstring) (acc : str) (escaped : bool) : sstring :=
  match s with
  | [] => flush r (if escaped then acc ++ [c_bs] else acc)
  | c :: s' =>
    if escaped then
      if is_special c || N.eqb c c_bs
      then parse_go esc s' r (acc ++ [c]) false
      else parse_go esc s' r (acc ++ [c_bs; c]) false
    else if N.eqb c c_bs && esc then parse_go esc s' r acc true
    else if is_special c then parse_go esc s' (flush r acc ++ [special_of c]) [] false
    else parse_go esc s' r (acc ++ [c]) false
  end.
Definition parse (esc : bool) (s : str) : sstring := parse_go esc s [] [] false.

(* s.replace("*", "\\*").replace("?", "\\?") *)
Definition plain_escape (s : str) : str :=
  flat_map (fun c => if is_special c then [c_bs; c] else [c]) s.

(* SigmaString.to_plain l.383 *)
Definition part_plain (regex : bool) (p : part) : str :=
  match p with
  | PStr s => if regex then s else plain_escape s
  | PMulti => [c_star]
  | PSingle => [c_qm]
  | PPh n => c_pct :: n ++ [c_pct]
  end.
Definition to_plain (regex : bool) (v : sstring) : str := flat_map (part_plain regex) v.

(* __len__ *)
Definition part_len (p : part) : nat := match p with PStr s => length s | _ => 1%nat end.
Definition slen (v : sstring) : nat := fold_right (fun p n => (part_len p + n)%nat) 0%nat v.

Definition contains_special (v : sstring) : bool :=
  existsb (fun p => match p with PMulti | PSingle => true | _ => false end) v.
Definition contains_placeholder (v : sstring) : bool :=
  existsb (fun p => match p with PPh _ => true | _ => false end) v.

(* target escaping configuration = the arguments of SigmaString.convert *)
Record ecfg := {
  e_esc : option char;        (* escape_char *)
  e_multi : option str;       (* wildcard_multi *)
  e_single : option str;      (* wildcard_single *)
  e_add : str;                (* add_escaped *)
  e_filter : str              (* filter_chars *)
}.

Definition escaped_chars (K : ecfg) : str :=
  match e_multi K with Some w => w | None => [] end ++
  match e_single K with Some w => w | None => [] end ++ e_add K.

Definition conv_char (K : ecfg) (c : char) : str :=
  if mem c (e_filter K) then []
  else if mem c (escaped_chars K) then
    match e_esc K with Some e => [e; c] | None => [c] end
  else [c].

(* SigmaString.convert l.553-621 (the two fast paths return what the general path returns) *)
Fixpoint convert (K : ecfg) (v : sstring) : outcome str :=
  match v with
  | [] => Ok []
  | p :: v' =>
    match p with
    | PStr s => obind (convert K v') (fun r => Ok (flat_map (conv_char K) s ++ r))
    | PMulti => match e_multi K with
                | Some w => obind (convert K v') (fun r => Ok (w ++ r))
                | None => SigmaErr E_Value end
    | PSingle => match e_single K with
                 | Some w => obind (convert K v') (fun r => Ok (w ++ r))
                 | None => SigmaErr E_Value end
    | PPh _ => SigmaErr E_Placeholder
    end
  end.

(* SigmaString.to_regex l.623: ".*+?^$[](){}\\|" + custom *)
Definition regex_meta : str := [46; 42; 43; 63; 94; 36; 91; 93; 40; 41; 123; 125; 92; 124].
Definition regex_cfg (custom : str) : ecfg :=
  {| e_esc := Some c_bs; e_multi := Some [c_dot; c_star]; e_single := Some [c_dot];
     e_add := regex_meta ++ custom; e_filter := [] |}.
Definition to_regex (custom : str) (v : sstring) : outcome str := convert (regex_cfg custom) v.

(* TextQueryBackend.convert_value_str l.1800-1812 for a backend that always quotes:
   str_quote is added to the escaped characters, the result is wrapped in quotes *)
Definition with_quote (K : ecfg) (q : char) : ecfg :=
  {| e_esc := e_esc K; e_multi := e_multi K; e_single := e_single K;
     e_add := q :: e_add K; e_filter := e_filter K |}.
Definition convert_quoted (K : ecfg) (q : char) (v : sstring) : outcome str :=
  obind (convert (with_quote K q) v) (fun body => Ok (q :: body ++ [q])).
