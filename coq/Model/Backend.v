(* Model of the structural part of TextQueryBackend conversion (sigma/conversion/base.py):
   convert_condition dispatch, in-expression decision, compare_precedence / grouping, AND/OR/NOT
   joiners, expansion values, non-native CIDR expansion, exists->NOT rewrite and the
   "NOT as not-equals" mode.  Leaves are abstract: a plain leaf renders to one atom text supplied
   from outside (its rendering is the subject of C05/C03).  Definitions only. *)
From Coq Require Import List Arith Bool NArith.
From PS Require Import Base.Chars.
Import ListNotations.
Open Scope nat_scope.

Inductive op := ONot | OAnd | OOr.
Inductive bop := BAnd | BOr.
Definition of_bop (b : bop) : op := match b with BAnd => OAnd | BOr => OOr end.
Definition op_eqb (a b : op) : bool :=
  match a, b with ONot, ONot | OAnd, OAnd | OOr, OOr => true | _, _ => false end.

(* value kinds that matter for the in-expression decision *)
Inductive vkind := KStr (special : bool) | KCased (special : bool) | KNum | KTsPart | KOther.

(* condition tree after postprocess(); atoms are numbered *)
Inductive cond :=
| CAtom (k : vkind) (field : option nat) (negatable : bool) (a : nat)
      (* field = value (or value only when field = None); negatable: its template has a negated twin *)
| CExp (args : list cond)
      (* leaf whose value is a SigmaExpansion: one fresh leaf per expanded value (l.514-527) *)
| COrFresh (field : nat) (ps : list (nat * (bool * bool)))
      (* CIDR value on a backend without cidr_expression: fresh string leaves
         (atom, (has wildcard, template has a negated twin)) l.2099-2108 *)
| CNotExists (a : nat)
      (* exists: false without explicit not-exists template: NOT(exists) built on the fly l.496-506 *)
| CNot (c : cond)
| CBin (o : bop) (args : list cond).

Inductive tok :=
| TAtom (a : nat) (neg : bool)          (* atom text; neg: rendered with the negated template *)
| TIn (disj : bool) (field : nat) (l : list nat)   (* field in (v1, ...) / field contains-all (v1, ...) *)
| TOp (o : op) | TL | TR.

Record cfg := {
  lvl : op -> nat;                (* position in the precedence tuple + 1 (1 binds tightest) *)
  parenthesize : bool;
  or_in : bool;                   (* convert_or_as_in *)
  and_in : bool;                  (* convert_and_as_in *)
  in_wild : bool;                 (* in_expressions_allow_wildcards *)
  not_eq : bool                   (* convert_not_as_not_eq *)
}.

Definition group (ts : list tok) : list tok := TL :: ts ++ [TR].
Fixpoint join (sep : tok) (l : list (list tok)) : list tok :=
  match l with [] => [] | [x] => x | x :: r => x ++ sep :: join sep r end.

(* class of a node as seen by compare_precedence (l.1515-1577): index in the precedence tuple,
   0 for "not in the tuple" (idx -1) *)
Definition top (K : cfg) (c : cond) : nat :=
  match c with
  | CAtom _ _ _ _ | COrFresh _ _ | CNotExists _ => 0
  | CExp _ => lvl K OOr
  | CNot _ => lvl K ONot
  | CBin o _ => lvl K (of_bop o)
  end.
Definition is_leaf (c : cond) : bool :=
  match c with CNot _ | CBin _ _ => false | _ => true end.
Definition cmp (K : cfg) (outer : op) (inner : cond) : bool :=
  if parenthesize K && negb (is_leaf inner) then false
  else top K inner <=? lvl K outer.

(* decide_convert_condition_as_in_expression l.344-393 (after the repair of D3: cased strings and
   timestamp parts are not eligible) *)
Definition in_field (c : cond) : option nat :=
  match c with
  | CAtom (KStr _) (Some f) _ _ | CAtom KNum (Some f) _ _ => Some f
  | _ => None
  end.
Definition has_special (c : cond) : bool :=
  match c with CAtom (KStr s) _ _ _ => s | _ => false end.
Definition atom_of (c : cond) : nat := match c with CAtom _ _ _ a => a | _ => 0 end.
Definition decide_in (K : cfg) (o : bop) (args : list cond) : option nat :=
  if negb (match o with BOr => or_in K | BAnd => and_in K end) then None else
  match args with
  | [] => None
  | c :: _ =>
    match in_field c with
    | None => None
    | Some f =>
      if forallb (fun x => match in_field x with Some g => Nat.eqb f g | None => false end) args
         && (in_wild K || negb (existsb has_special args))
      then Some f else None
    end
  end.

Fixpoint conv (K : cfg) (un : bool) (c : cond) {struct c} : list tok :=
  match c with
  | CAtom _ _ negatable a => [TAtom a (not_eq K && un && negatable)]
  | CExp args =>
      (* convert_condition_or over fresh leaves; they have no parent, but the class templates stay
         swapped while the enclosing leaf is converted, so they inherit its negation *)
      join (TOp OOr) (map (fun a => if cmp K OOr a then conv K un a else group (conv K un a)) args)
  | COrFresh f ps =>
      (* convert_condition(ConditionOR(fresh string leaves)); grouped when it stays an OR of
         several patterns (repair of D2) *)
      if or_in K && (in_wild K || negb (existsb (fun p => fst (snd p)) ps))
      then [TIn true f (map fst ps)]
      else match ps with
           | [p] => [TAtom (fst p) (not_eq K && un && snd (snd p))]
           | _ => group (join (TOp OOr) (map (fun p => [TAtom (fst p) (not_eq K && un && snd (snd p))]) ps))
           end
  | CNotExists a =>
      if not_eq K then [TAtom a false] else [TOp ONot; TAtom a false]
  | CNot a =>
      let body :=
        match a with
        | CNot _ | CBin _ _ | CExp _ => group (conv K true a)   (* CExp: repair of D1 *)
        | _ => conv K true a
        end in
      if not_eq K then body else TOp ONot :: body
  | CBin o args =>
      match decide_in K o args with
      | Some f => [TIn (match o with BOr => true | BAnd => false end) f (map atom_of args)]
      | None =>
        join (TOp (of_bop o))
             (map (fun a => if cmp K (of_bop o) a then conv K un a else group (conv K un a)) args)
      end
  end.

(* rendering of tokens to text (joiners l.1598-1604, group_expression, not_token + separator) *)
Record syntax := {
  s_sep : str; s_and : str; s_or : str; s_not : str; s_lpar : str; s_rpar : str;
  s_in_pre : str; s_in_mid_or : str; s_in_mid_and : str; s_in_open : str; s_list_sep : str; s_in_close : str
}.
Fixpoint join_str (sep : str) (l : list str) : str :=
  match l with [] => [] | [x] => x | x :: r => x ++ sep ++ join_str sep r end.
Definition binop_text (S : syntax) (t : str) : str :=
  if str_eqb (s_sep S) t then t else s_sep S ++ t ++ s_sep S.
Section Show.
  Variable S : syntax.
  Variable atom_text : nat -> bool -> str.     (* text of atom a, normal / negated template *)
  Variable field_text : nat -> str.            (* escape_and_quote_field *)
  Variable value_text : nat -> str.            (* convert_value_str / str(number) of atom a *)
  Definition show_tok (t : tok) : str :=
    match t with
    | TAtom a n => atom_text a n
    | TIn d f l => s_in_pre S ++ field_text f ++ (if d then s_in_mid_or S else s_in_mid_and S) ++ s_in_open S
                   ++ join_str (s_list_sep S) (map value_text l) ++ s_in_close S
    | TOp OAnd => binop_text S (s_and S)
    | TOp OOr => binop_text S (s_or S)
    | TOp ONot => s_not S ++ s_sep S
    | TL => s_lpar S
    | TR => s_rpar S
    end.
  Definition show (ts : list tok) : str := flat_map show_tok ts.
End Show.
