(* Byte-level helpers used by the encoding modifiers of sigma/modifiers.py (base64, base64offset,
   wide, utf16, utf16be).  Definitions only.  Property C03 needs them to keep the model total over
   the whole modifier table; their correctness w.r.t. RFC 4648 / Unicode is property C04's subject.
   Strings are lists of Unicode scalar values (lone surrogates are outside the model). *)
From Coq Require Import NArith List Bool.
From PS Require Import Base.Chars.
Import ListNotations.
Open Scope N_scope.

Definition byte := N.

(* str.encode() : UTF-8 *)
Definition utf8_char (c : char) : list byte :=
  if c <? 128 then [c]
  else if c <? 2048 then [192 + c / 64; 128 + c mod 64]
  else if c <? 65536 then [224 + c / 4096; 128 + (c / 64) mod 64; 128 + c mod 64]
  else [240 + c / 262144; 128 + (c / 4096) mod 64; 128 + (c / 64) mod 64; 128 + c mod 64].
Definition utf8 (s : str) : list byte := flat_map utf8_char s.

(* base64.b64encode(...).decode() *)
Definition b64_char (n : N) : char :=
  if n <? 26 then 65 + n
  else if n <? 52 then 97 + (n - 26)
  else if n <? 62 then 48 + (n - 52)
  else if n =? 62 then 43 else 47.
Fixpoint b64 (l : list byte) : str :=
  match l with
  | [] => []
  | [a] => [b64_char (a / 4); b64_char ((a mod 4) * 16); 61; 61]
  | [a; b] => [b64_char (a / 4); b64_char ((a mod 4) * 16 + b / 16); b64_char ((b mod 16) * 4); 61]
  | a :: b :: c :: r =>
      b64_char (a / 4) :: b64_char ((a mod 4) * 16 + b / 16)
      :: b64_char ((b mod 16) * 4 + c / 64) :: b64_char (c mod 64) :: b64 r
  end.

(* str.encode("utf-16le") / ("utf-16be") *)
Definition utf16_units (c : char) : list N :=
  if c <? 65536 then [c]
  else let d := c - 65536 in [55296 + d / 1024; 56320 + d mod 1024].
Definition unit_le (u : N) : list byte := [u mod 256; u / 256].
Definition unit_be (u : N) : list byte := [u / 256; u mod 256].
Definition utf16le (s : str) : list byte := flat_map (fun c => flat_map unit_le (utf16_units c)) s.
Definition utf16be (s : str) : list byte := flat_map (fun c => flat_map unit_be (utf16_units c)) s.

(* bytes.decode("utf-8"), strict: None where CPython raises UnicodeDecodeError *)
Definition cont (b : byte) : bool := (128 <=? b) && (b <? 192).
Fixpoint utf8_dec (fuel : nat) (l : list byte) : option str :=
  match fuel with
  | O => None
  | S f =>
    match l with
    | [] => Some []
    | b0 :: r0 =>
      if b0 <? 128 then option_map (cons b0) (utf8_dec f r0)
      else if (194 <=? b0) && (b0 <? 224) then
        match r0 with
        | b1 :: r1 =>
            if cont b1 then option_map (cons ((b0 - 192) * 64 + (b1 - 128))) (utf8_dec f r1) else None
        | _ => None
        end
      else if (224 <=? b0) && (b0 <? 240) then
        match r0 with
        | b1 :: b2 :: r2 =>
            if cont b1 && cont b2 && (if b0 =? 224 then 160 <=? b1 else true)
               && (if b0 =? 237 then b1 <? 160 else true)
            then option_map (cons ((b0 - 224) * 4096 + (b1 - 128) * 64 + (b2 - 128))) (utf8_dec f r2)
            else None
        | _ => None
        end
      else if (240 <=? b0) && (b0 <? 245) then
        match r0 with
        | b1 :: b2 :: b3 :: r3 =>
            if cont b1 && cont b2 && cont b3 && (if b0 =? 240 then 144 <=? b1 else true)
               && (if b0 =? 244 then b1 <? 144 else true)
            then option_map (cons ((b0 - 240) * 262144 + (b1 - 128) * 4096 + (b2 - 128) * 64 + (b3 - 128)))
                            (utf8_dec f r3)
            else None
        | _ => None
        end
      else None
    end
  end.
Definition utf8_decode (l : list byte) : option str := utf8_dec (S (length l)) l.

(* Python slice s[a:] / s[a:-k] on a string *)
Definition py_slice (s : str) (a : nat) (k : option nat) : str :=
  match k with
  | None => skipn a s
  | Some k => skipn a (firstn (length s - k) s)
  end.
