(* C19 - model of the tag validators of sigma/validators/core/tags.py that need no external data:
   TagFormatValidator, TLPv1TagValidator, TLPv2TagValidator, TLPTagValidator (all three share
   TLPTagValidatorBase.validate_tag), DuplicateTagValidator, NamespaceTagValidator, run by one
   SigmaValidator over one rule.

   Validators are observers: the model of validator.validate(rule) returns the issues AND the tags
   of the rule as the validator leaves them; the next validator of the set sees the tags the
   previous one left.  In the code that exists the tags are left as they were. *)
From Coq Require Import NArith List Bool Arith.
From PS Require Import Base.Chars.
Import ListNotations.
Open Scope N_scope.

(* SigmaRuleTag(namespace, name); from_str splits at the first dot; str(tag) = namespace.name *)
Record tag := { t_ns : str; t_name : str }.

Definition tag_eqb (a b : tag) : bool := str_eqb (t_ns a) (t_ns b) && str_eqb (t_name a) (t_name b).

Inductive tvkind := TFormat | TTlp1 | TTlp2 | TTlp | TDup | TNamespace.

Definition tvkind_eqb (a b : tvkind) : bool :=
  match a, b with
  | TFormat, TFormat | TTlp1, TTlp1 | TTlp2, TTlp2 | TTlp, TTlp | TDup, TDup | TNamespace, TNamespace => true
  | _, _ => false
  end.

Inductive tissue :=
| TIFormat (t : tag)        (* InvalidTagFormatIssue *)
| TITlp (t : tag)           (* InvalidTLPTagIssue (the three TLP validators return the same class) *)
| TIDup (t : tag)           (* DuplicateTagIssue *)
| TINamespace (t : tag).    (* InvalidNamespaceTagIssue *)

(* ---- re.compile(r"^[a-z0-9\-\_]+\.[a-z0-9\-\_\.]+$").match(str(tag)) ---- *)
Definition lower_digit (c : char) : bool := ((97 <=? c) && (c <=? 122)) || ((48 <=? c) && (c <=? 57)).
Definition fmt_c1 (c : char) : bool := lower_digit c || (c =? c_dash) || (c =? c_us).
Definition fmt_c2 (c : char) : bool := fmt_c1 c || (c =? c_dot).
Definition nonempty {A} (l : list A) : bool := match l with [] => false | _ => true end.
(* '$' also matches just before one line break that ends the string *)
Fixpoint strip_final_nl (s : str) : str :=
  match s with
  | [] => []
  | [c] => if c =? 10 then [] else [c]
  | c :: r => c :: strip_final_nl r
  end.
(* the namespace never contains a dot, so the first class consumes exactly the namespace *)
Definition fmt_ok (t : tag) : bool :=
  nonempty (t_ns t) && forallb fmt_c1 (t_ns t) &&
  (let b := strip_final_nl (t_name t) in nonempty b && forallb fmt_c2 b).

Definition s_tlp : str := [116; 108; 112].
Definition s_white : str := [119;104;105;116;101].
Definition s_green : str := [103;114;101;101;110].
Definition s_amber : str := [97;109;98;101;114].
Definition s_red : str := [114;101;100].
Definition s_clear : str := [99;108;101;97;114].
Definition s_amber_strict : str := [97;109;98;101;114;45;115;116;114;105;99;116].
Definition tlp1_allowed : list str := [s_white; s_green; s_amber; s_red].
Definition tlp2_allowed : list str := [s_clear; s_green; s_amber; s_amber_strict; s_red].
Definition in_strs (n : str) (l : list str) : bool := existsb (str_eqb n) l.

(* allowed_tags of the TLP validator classes (None: not a TLP validator) *)
Definition tlp_allowed (v : tvkind) : option (list str) :=
  match v with
  | TTlp1 => Some tlp1_allowed
  | TTlp2 => Some tlp2_allowed
  | TTlp => Some (tlp1_allowed ++ tlp2_allowed)
  | _ => None
  end.

Definition ns_allowed : list str :=
  [[97;116;116;97;99;107]; [99;97;114]; [99;118;101]; [100;51;102;101;110;100];
   [100;101;116;101;99;116;105;111;110]; [115;116;112]; s_tlp].   (* attack car cve d3fend detection stp tlp *)

Definition count_tag (t : tag) (l : list tag) : nat := length (filter (tag_eqb t) l).

(* Counter(rule.tags).items(): distinct tags in order of first occurrence *)
Fixpoint distinct (l : list tag) (seen : list tag) : list tag :=
  match l with
  | [] => []
  | t :: r => if existsb (tag_eqb t) seen then distinct r seen else t :: distinct r (t :: seen)
  end.

(* the issues validator.validate(rule) returns *)
Definition tv_check (v : tvkind) (tags : list tag) : list tissue :=
  match v with
  | TFormat => flat_map (fun t => if fmt_ok t then [] else [TIFormat t]) tags
  | TTlp1 | TTlp2 | TTlp =>
      match tlp_allowed v with
      | Some allowed => flat_map (fun t => if str_eqb (t_ns t) s_tlp && negb (in_strs (t_name t) allowed)
                                           then [TITlp t] else []) tags
      | None => []
      end
  | TDup => flat_map (fun t => if (1 <? count_tag t tags)%nat then [TIDup t] else []) (distinct tags [])
  | TNamespace => flat_map (fun t => if in_strs (t_ns t) ns_allowed then [] else [TINamespace t]) tags
  end.

(* validator.validate(rule): issues, and the rule's tags afterwards (the validators only read them) *)
Definition tv_validate (v : tvkind) (tags : list tag) : list tissue * list tag := (tv_check v tags, tags).

(* SigmaValidator([...]).validate_rules([rule]): the validators run one after the other on the same rule *)
Fixpoint validate_tags (vs : list tvkind) (tags : list tag) : list tissue * list tag :=
  match vs with
  | [] => ([], tags)
  | v :: r =>
      let x := tv_validate v tags in
      let y := validate_tags r (snd x) in
      (fst x ++ fst y, snd y)
  end.
