(* Model of SigmaRegularExpression.escape (sigma/types.py l.785-821): the positions of the
   alternation  re.escape(e1)|...|re.escape(escape_char)  (leftmost-first, non-overlapping) get the
   escape string prepended; an optional (?ims) flag prefix is put in front. *)
From Coq Require Import NArith List Bool.
From PS Require Import Base.Chars.
Import ListNotations.
Local Open Scope nat_scope.

(* first alternative (in list order) that is a prefix of s *)
Fixpoint first_alt (alts : list str) (s : str) : option str :=
  match alts with
  | [] => None
  | a :: r => if prefixb a s then Some a else first_alt r s
  end.

Fixpoint rx_scan (fuel : nat) (alts : list str) (ec : str) (s : str) : str :=
  match fuel with
  | O => s
  | S f =>
    match s with
    | [] => []
    | c :: s' =>
      match first_alt alts s with
      | Some (x :: a) => ec ++ (x :: a) ++ rx_scan f alts ec (skipn (length (x :: a)) s)
      | Some [] => ec ++ c :: rx_scan f alts ec s'   (* empty alternative: matches before every character *)
      | None => c :: rx_scan f alts ec s'
      end
    end
  end.

Definition rx_alts (escaped : list str) (ec : str) (escape_escape_char : bool) : list str :=
  escaped ++ (if escape_escape_char then [ec] else []).

(* flags: i, m, s rendered sorted inside (?...) *)
Definition rx_prefix (flag_prefix : bool) (flags : str) : str :=
  if flag_prefix then match flags with [] => [] | _ => [40%N; 63%N] ++ flags ++ [41%N] end else [].

Definition rx_escape (escaped : list str) (ec : str) (eec flag_prefix : bool) (flags : str) (s : str) : str :=
  let alts := rx_alts escaped ec eec in
  rx_prefix flag_prefix flags ++
  (match alts with [] => s | _ => if forallb (fun a => match a with [] => true | _ => false end) alts then s
                                  else rx_scan (S (length s)) alts ec s end).

(* reader of the escaped text: the escape string followed by one of the alternatives stands for
   that alternative; everything else stands for itself *)
Fixpoint rx_unscan (fuel : nat) (alts : list str) (ec : str) (s : str) : str :=
  match fuel with
  | O => s
  | S f =>
    match s with
    | [] => []
    | c :: s' =>
      if prefixb ec s then
        match first_alt alts (skipn (length ec) s) with
        | Some (x :: a) => (x :: a) ++ rx_unscan f alts ec (skipn (length ec + length (x :: a)) s)
        | _ => c :: rx_unscan f alts ec s'
        end
      else c :: rx_unscan f alts ec s'
    end
  end.
Definition rx_unescape (escaped : list str) (ec : str) (eec : bool) (s : str) : str :=
  rx_unscan (S (length s)) (rx_alts escaped ec eec) ec s.
