(* Model of sigma/types.py SigmaCIDRExpression (validation through ipaddress.ip_network, expand)
   and of the native-CIDR template fields used by
   sigma/conversion/base.py convert_condition_field_eq_val_cidr.  Definitions only.

   Addresses are N; a network is (address, prefix length[, scope id]).  Text is list N.
   The parts of CPython's ipaddress module the anchored code relies on (string -> network,
   canonical text of an address (RFC 5952 for IPv6), subnets, broadcast address, netmask) are
   modelled here; that statement about ipaddress is validated by the correspondence only. *)
From Coq Require Import NArith List Bool.
From PS Require Import Base.Chars Base.Outcome.
Import ListNotations.
Open Scope N_scope.

(* ---------------------------------------------------------------- text helpers *)
Definition c_pcnt : char := 37.
Fixpoint join (sep : str) (l : list str) : str :=
  match l with
  | [] => []
  | [x] => x
  | x :: r => x ++ sep ++ join sep r
  end.

(* Python str.split(c) *)
Fixpoint split_on (c : char) (s : str) : list str :=
  match s with
  | [] => [[]]
  | x :: t =>
    match split_on c t with
    | h :: r => if N.eqb x c then [] :: h :: r else (x :: h) :: r
    | [] => [[]]
    end
  end.

Definition digit (n : N) : char := 48 + n.
(* str(n) for 0 <= n < 1000 (octets and prefix lengths) *)
Definition dec3 (n : N) : str :=
  if n <? 10 then [digit n]
  else if n <? 100 then [digit (n / 10); digit (n mod 10)]
  else [digit (n / 100); digit ((n / 10) mod 10); digit (n mod 10)].

Definition hexdigit (n : N) : char := if n <? 10 then 48 + n else 87 + n.
(* '%x' % g for 0 <= g < 65536 *)
Definition hex4 (g : N) : str :=
  if g <? 16 then [hexdigit g]
  else if g <? 256 then [hexdigit (g / 16); hexdigit (g mod 16)]
  else if g <? 4096 then [hexdigit (g / 256); hexdigit ((g / 16) mod 16); hexdigit (g mod 16)]
  else [hexdigit (g / 4096); hexdigit ((g / 256) mod 16); hexdigit ((g / 16) mod 16); hexdigit (g mod 16)].

Definition nseq (n : N) : list N := map N.of_nat (seq 0 (N.to_nat n)).

(* ---------------------------------------------------------------- IPv4 text *)
Definition octs4 (a : N) : list N :=
  [(a / 16777216) mod 256; (a / 65536) mod 256; (a / 256) mod 256; a mod 256].
Definition show4 (a : N) : str := join [c_dot] (map dec3 (octs4 a)).

(* ---------------------------------------------------------------- IPv6 text (RFC 5952 as ipaddress prints it) *)
(* group k = (a >> 16*(7-k)) & 0xffff *)
Definition groups6 (a : N) : list N :=
  map (fun k => N.land (N.shiftr a (16 * (7 - k))) 65535) [0; 1; 2; 3; 4; 5; 6; 7].

Fixpoint zrun (l : list N) : nat :=
  match l with
  | x :: t => if N.eqb x 0 then S (zrun t) else O
  | [] => O
  end.
(* (start, length) of the leftmost longest run of zero groups *)
Fixpoint best_run (l : list N) : nat * nat :=
  match l with
  | [] => (O, O)
  | x :: t => let '(s, n) := best_run t in
              let z := zrun l in
              if Nat.ltb z n then (S s, n) else (O, z)
  end.
Definition show6g (l : list N) : str :=
  let '(s, n) := best_run l in
  if Nat.ltb 1 n
  then join [c_colon] (map hex4 (firstn s l)) ++ [c_colon; c_colon] ++ join [c_colon] (map hex4 (skipn (s + n) l))
  else join [c_colon] (map hex4 l).
Definition show6 (a : N) : str := show6g (groups6 a).

(* ---------------------------------------------------------------- networks *)
Inductive net :=
| Net4 (a len : N)
| Net6 (a len : N) (scope : option str).

(* ---------------------------------------------------------------- parsing (ipaddress.ip_network, strict) *)
Definition is_digit (c : char) : bool := (48 <=? c) && (c <=? 57).
Definition dec_val (s : str) : N := fold_left (fun acc c => acc * 10 + (c - 48)) s 0.
Definition all_digits (s : str) : bool := match s with [] => false | _ => forallb is_digit s end.

(* IPv4Address._parse_octet *)
Definition parse_octet (s : str) : option N :=
  if negb (all_digits s) then None
  else if Nat.ltb 3 (length s) then None
  else match s with
       | 48 :: _ :: _ => None                      (* leading zero *)
       | _ => let v := dec_val s in if 255 <? v then None else Some v
       end.

Fixpoint opt_all {A} (l : list (option A)) : option (list A) :=
  match l with
  | [] => Some []
  | Some x :: r => match opt_all r with Some r' => Some (x :: r') | None => None end
  | None :: _ => None
  end.

Definition be_val (base : N) (l : list N) : N := fold_left (fun acc x => acc * base + x) l 0.

(* IPv4Address._ip_int_from_string *)
Definition ip4_of_string (s : str) : option N :=
  match s with
  | [] => None
  | _ => let parts := split_on c_dot s in
         if negb (Nat.eqb (length parts) 4) then None
         else match opt_all (map parse_octet parts) with
              | Some os => Some (be_val 256 os)
              | None => None
              end
  end.

(* _prefix_from_prefix_string *)
Definition prefix_of_digits (maxlen : N) (s : str) : option N :=
  if all_digits s then let v := dec_val s in if maxlen <? v then None else Some v else None.

Definition netmask_int (bits len : N) : N := 2 ^ bits - 2 ^ (bits - len).
(* _prefix_from_ip_int: the integer is a netmask 1*0* *)
Definition prefix_of_mask_int (bits m : N) : option N :=
  find (fun l => N.eqb m (netmask_int bits l)) (nseq (bits + 1)).
(* _prefix_from_ip_string (IPv4 only): netmask first, then host mask *)
Definition prefix_of_ip_string (s : str) : option N :=
  match ip4_of_string s with
  | None => None
  | Some m => match prefix_of_mask_int 32 m with
              | Some l => Some l
              | None => prefix_of_mask_int 32 (4294967295 - m)
              end
  end.

Definition host_bits_clear (bits a len : N) : bool := N.eqb (a mod 2 ^ (bits - len)) 0.

Definition parse_net4 (s : str) : option (option net) :=
  (* outer None: not an IPv4 network text (IPv6 is tried next);
     Some None: ValueError 'has host bits set' (propagates immediately) *)
  match split_on c_slash s with
  | [addr] =>
      match ip4_of_string addr with
      | Some a => Some (Some (Net4 a 32))
      | None => None
      end
  | [addr; mask] =>
      match ip4_of_string addr with
      | None => None
      | Some a =>
        let len := match prefix_of_digits 32 mask with
                   | Some l => Some l
                   | None => prefix_of_ip_string mask
                   end in
        match len with
        | None => None
        | Some l => if host_bits_clear 32 a l then Some (Some (Net4 a l)) else Some None
        end
      end
  | _ => None
  end.

Definition is_hex (c : char) : bool :=
  is_digit c || ((97 <=? c) && (c <=? 102)) || ((65 <=? c) && (c <=? 70)).
Definition hex_val1 (c : char) : N :=
  if is_digit c then c - 48 else if 97 <=? c then c - 87 else c - 55.
(* _parse_hextet *)
Definition parse_hextet (s : str) : option N :=
  match s with
  | [] => None
  | _ => if forallb is_hex s && Nat.leb (length s) 4
         then Some (fold_left (fun acc c => acc * 16 + hex_val1 c) s 0) else None
  end.

Definition is_empty (s : str) : bool := match s with [] => true | _ => false end.
Fixpoint lastdef (l : list str) : str :=
  match l with [] => [] | [x] => x | _ :: r => lastdef r end.
(* indices 1 .. len-2 holding an empty part *)
Definition inner_empty_indices (parts : list str) : list nat :=
  filter (fun i => is_empty (nth i parts [c_colon])) (seq 1 (length parts - 2)).

(* IPv6Address._ip_int_from_string *)
Definition ip6_of_string (s : str) : option N :=
  match s with
  | [] => None
  | _ =>
    let parts0 := split_on c_colon s in
    if Nat.ltb (length parts0) 3 then None else
    let parts1 :=
      if mem c_dot (lastdef parts0)
      then match ip4_of_string (lastdef parts0) with
           | Some v => Some (removelast parts0 ++ [hex4 (v / 65536); hex4 (v mod 65536)])
           | None => None
           end
      else Some parts0 in
    match parts1 with
    | None => None
    | Some parts =>
      if Nat.ltb 9 (length parts) then None else
      let n := length parts in
      let first_empty := is_empty (hd [] parts) in
      let last_empty := is_empty (lastdef parts) in
      match inner_empty_indices parts with
      | _ :: _ :: _ => None
      | [k] =>
          let hi := if first_empty then (k - 1)%nat else k in
          let lo := if last_empty then (n - k - 2)%nat else (n - k - 1)%nat in
          if first_empty && negb (Nat.eqb hi 0) then None
          else if last_empty && negb (Nat.eqb lo 0) then None
          else if Nat.ltb 7 (hi + lo) then None
          else
            match opt_all (map parse_hextet (firstn hi parts)),
                  opt_all (map parse_hextet (skipn (n - lo) parts)) with
            | Some h, Some l =>
                Some (be_val 65536 h * 2 ^ (16 * N.of_nat (8 - hi)) + be_val 65536 l)
            | _, _ => None
            end
      | [] =>
          if negb (Nat.eqb n 8) then None
          else match opt_all (map parse_hextet parts) with
               | Some h => Some (be_val 65536 h)
               | None => None
               end
      end
    end
  end.

(* str.partition('%') + the scope-id check of IPv6Address *)
Fixpoint cut_at (c : char) (s : str) : str * option str :=
  match s with
  | [] => ([], None)
  | x :: t => if N.eqb x c then ([], Some t)
              else let '(a, b) := cut_at c t in (x :: a, b)
  end.

Definition parse_net6 (s : str) : option (option net) :=
  let go (addr : str) (len : option N) :=
    let '(a_str, sc) := cut_at c_pcnt addr in
    let scope_ok := match sc with
                    | None => true
                    | Some z => negb (is_empty z) && negb (mem c_pcnt z)
                    end in
    if negb scope_ok then None else
    match ip6_of_string a_str, len with
    | Some a, Some l => if host_bits_clear 128 a l then Some (Some (Net6 a l sc)) else Some None
    | _, _ => None
    end in
  match split_on c_slash s with
  | [addr] => go addr (Some 128)
  | [addr; mask] => go addr (prefix_of_digits 128 mask)
  | _ => None
  end.

(* ip_network(s): None = ValueError, which SigmaCIDRExpression.__post_init__ turns into SigmaTypeError *)
Definition parse_cidr (s : str) : option net :=
  match parse_net4 s with
  | Some r => r
  | None => match parse_net6 s with
            | Some r => r
            | None => None
            end
  end.

(* ---------------------------------------------------------------- SigmaCIDRExpression.expand *)
Definition pat4 (wg : N) (sub : N) : str :=
  if wg =? 0 then [c_star]
  else if wg <? 4 then join [c_dot] (map dec3 (firstn (N.to_nat wg) (octs4 sub))) ++ [c_dot; c_star]
  else show4 sub.

Definition subnets (bits a len diff : N) : list N :=
  map (fun i => a + i * 2 ^ (bits - (len + diff))) (nseq (2 ^ diff)).

Definition expand4 (a len : N) : list str :=
  let diff := (8 - len mod 8) mod 8 in
  map (pat4 ((len + diff) / 8)) (subnets 32 a len diff).

(* the loop `for i in range(min(len(first), len(last))): if first[i] != last[i]: break`
   (before the repair of D29 the range was len(first) and a longer first text - a scoped /128 -
   raised IndexError) *)
Inductive scan := DiffAt (i : nat) | NoDiff.
Fixpoint first_diff (first last : str) (i : nat) : scan :=
  match first with
  | [] => NoDiff
  | x :: f' => match last with
               | [] => NoDiff
               | y :: l' => if N.eqb x y then first_diff f' l' (S i) else DiffAt i
               end
  end.

Definition pat6 (newlen : N) (scope : option str) (sub : N) : outcome str :=
  let addr_text := show6 sub ++ match scope with Some z => c_pcnt :: z | None => [] end in
  let last := show6 (sub + 2 ^ (128 - newlen) - 1) in
  match first_diff addr_text last 0 with
  | DiffAt i => Ok (firstn i (addr_text ++ [c_slash] ++ dec3 newlen) ++ [c_star])
  | NoDiff => Ok addr_text
  end.

Fixpoint oall {A} (l : list (outcome A)) : outcome (list A) :=
  match l with
  | [] => Ok []
  | x :: r => obind x (fun a => obind (oall r) (fun r' => Ok (a :: r')))
  end.

Definition expand6 (a len : N) (scope : option str) : outcome (list str) :=
  let diff := (4 - len mod 4) mod 4 in
  (* subnets() keeps the scope id only when it yields the network itself (/128) *)
  let sc := if len =? 128 then scope else None in
  oall (map (pat6 (len + diff) sc) (subnets 128 a len diff)).

Definition expand (n : net) : outcome (list str) :=
  match n with
  | Net4 a len => Ok (expand4 a len)
  | Net6 a len sc => expand6 a len sc
  end.

(* SigmaCIDRExpression(s).expand() *)
Definition cidr_expand (s : str) : outcome (list str) :=
  match parse_cidr s with
  | None => SigmaErr E_Type
  | Some n => expand n
  end.

(* ---------------------------------------------------------------- native template fields *)
Definition addr_text (n : net) : str :=
  match n with
  | Net4 a _ => show4 a
  | Net6 a _ sc => show6 a ++ match sc with Some z => c_pcnt :: z | None => [] end
  end.
Definition net_len (n : net) : N := match n with Net4 _ l => l | Net6 _ l _ => l end.
Definition netmask_text (n : net) : str :=
  match n with
  | Net4 _ l => show4 (netmask_int 32 l)
  | Net6 _ l _ => show6 (netmask_int 128 l)
  end.
(* (value, network, prefixlen, netmask) as str.format renders them *)
Definition native_fields (n : net) : list str :=
  [addr_text n ++ [c_slash] ++ dec3 (net_len n); addr_text n; dec3 (net_len n); netmask_text n].

(* ---------------------------------------------------------------- the expansion rendered by a text backend *)
(* sigma/conversion/base.py convert_condition_field_eq_val_cidr, branch without cidr_expression, for a
   backend with  eq "f=\"v\"",  or token " or ",  group "(...)",  value list  f in ("a", "b").
   decide_convert_condition_as_in_expression: the OR of the patterns becomes a value list iff
   convert_or_as_in is set and (in_expressions_allow_wildcards or no pattern contains a wildcard);
   otherwise the patterns stay an OR, grouped when there is more than one. *)
Definition has_special (p : str) : bool := existsb (fun c => (c =? c_star) || (c =? c_qm)) p.
Definition as_in_list (or_as_in allow_wild : bool) (pats : list str) : bool :=
  or_as_in && (allow_wild || negb (existsb has_special pats)).
Definition quoted (p : str) : str := [c_dq] ++ p ++ [c_dq].
Definition render_expanded (or_as_in allow_wild : bool) (pats : list str) : str :=
  if as_in_list or_as_in allow_wild pats
  then [102; c_space; 105; 110; c_space; c_lpar] ++ join [44; c_space] (map quoted pats) ++ [c_rpar]
  else let q := join [c_space; 111; 114; c_space] (map (fun p => [102; c_eq] ++ quoted p) pats) in
       match pats with
       | _ :: _ :: _ => [c_lpar] ++ q ++ [c_rpar]
       | _ => q
       end.
