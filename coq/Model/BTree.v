(* Bracket trees: the text format of the verification backend's correlation templates.
   Every template element is  <tag|content>  with U+27E8 / U+27E9 as brackets; content is a
   sequence of text runs and nested elements.  shown/showc print a tree, readc reads a text back
   (fuelled recursive descent; Proofs/BTreeP.v shows the fuel of the entry point suffices and that
   reading is the exact inverse of printing on well-formed trees).  Definitions only. *)
From Coq Require Import List NArith Bool Arith.
From PS Require Import Base.Chars.
Import ListNotations.
Open Scope N_scope.

Definition c_lb : char := 10216.   (* U+27E8 *)
Definition c_rb : char := 10217.   (* U+27E9 *)
Definition c_bar : char := 124.    (* | *)

Inductive node :=
| T (s : str)                       (* text run *)
| E (tag : str) (kids : list node). (* element *)

Fixpoint shown (n : node) : str :=
  match n with
  | T s => s
  | E tag kids => c_lb :: tag ++ c_bar :: flat_map shown kids ++ [c_rb]
  end.
Definition showc (l : list node) : str := flat_map shown l.

Definition is_bracket (c : char) : bool := N.eqb c c_lb || N.eqb c c_rb.

(* maximal run of non-bracket characters *)
Fixpoint span_text (s : str) : str * str :=
  match s with
  | [] => ([], [])
  | c :: r => if is_bracket c then ([], s) else let (a, b) := span_text r in (c :: a, b)
  end.
(* tag: characters up to the first bar; None if a bracket or the end comes first *)
Fixpoint span_tag (s : str) : option (str * str) :=
  match s with
  | [] => None
  | c :: r => if N.eqb c c_bar then Some ([], r)
              else if is_bracket c then None
              else match span_tag r with Some (a, b) => Some (c :: a, b) | None => None end
  end.

Fixpoint pnodes (f : nat) (s : str) {struct f} : option (list node * str) :=
  match f with
  | O => None
  | S f' =>
    match s with
    | [] => Some ([], [])
    | c :: r =>
      if N.eqb c c_rb then Some ([], s)
      else if N.eqb c c_lb then
        match span_tag r with
        | None => None
        | Some (tag, r1) =>
          match pnodes f' r1 with
          | Some (kids, c2 :: r2) =>
            if N.eqb c2 c_rb then
              match pnodes f' r2 with
              | Some (more, rest) => Some (E tag kids :: more, rest)
              | None => None
              end
            else None
          | _ => None
          end
        end
      else
        let (txt, r1) := span_text s in
        match pnodes f' r1 with
        | Some (more, rest) => Some (T txt :: more, rest)
        | None => None
        end
    end
  end.

Definition readc (s : str) : option (list node) :=
  match pnodes (S (length s)) s with
  | Some (l, []) => Some l
  | _ => None
  end.

(* well-formed trees: text runs are non-empty, bracket-free and never adjacent; tags contain
   neither brackets nor the bar *)
Definition clean (s : str) : bool := negb (existsb is_bracket s).
Definition clean_tag (s : str) : bool := negb (existsb (fun c => is_bracket c || N.eqb c c_bar) s).
Definition is_text (n : node) : bool := match n with T _ => true | _ => false end.

Fixpoint wfn (n : node) : bool :=
  match n with
  | T s => negb (match s with [] => true | _ => false end) && clean s
  | E tag kids =>
      clean_tag tag &&
      (fix go (l : list node) : bool :=
         match l with
         | [] => true
         | x :: r => wfn x && negb (is_text x && match r with y :: _ => is_text y | [] => false end) && go r
         end) kids
  end.
Fixpoint wfl (l : list node) : bool :=
  match l with
  | [] => true
  | x :: r => wfn x && negb (is_text x && match r with y :: _ => is_text y | [] => false end) && wfl r
  end.

(* text run or nothing *)
Definition txt (s : str) : list node := match s with [] => [] | _ => [T s] end.

(* merge adjacent text runs and drop empty ones (used where a template concatenates texts) *)
Fixpoint merge (l : list node) : list node :=
  match l with
  | [] => []
  | T s :: r =>
      match merge r with
      | T s' :: r' => T (s ++ s') :: r'
      | m => match s with [] => m | _ => T s :: m end
      end
  | x :: r => x :: merge r
  end.

Fixpoint node_eqb (a b : node) {struct a} : bool :=
  match a, b with
  | T x, T y => str_eqb x y
  | E t k, E t' k' =>
      str_eqb t t' &&
      (fix go (l l' : list node) : bool :=
         match l, l' with
         | [], [] => true
         | x :: r, y :: r' => node_eqb x y && go r r'
         | _, _ => false
         end) k k'
  | _, _ => false
  end.
Definition nodes_eqb := list_eqb node_eqb.
