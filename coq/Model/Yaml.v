(* YAML / Python values as the loaders of sigma/rule, sigma/correlations.py, sigma/filters.py and
   sigma/collection.py see them, with the partial Python operations the anchored code performs on
   possibly ill-typed data.  Definitions only. *)
From Coq Require Import NArith ZArith List Bool.
From PS Require Import Base.Chars Base.Outcome.
Import ListNotations.
Open Scope N_scope.

(* float classes: 0 finite non-zero, 1 nan, 2 +-inf, 3 zero *)
Inductive yv :=
| YNull | YBool (b : bool) | YInt (z : Z) | YFloat (k : N) | YStr (s : str) | YDate
| YList (l : list yv) | YMap (m : list (yv * yv)).   (* ordered, keys unique (a Python dict) *)

(* tags of non-Sigma Python exception classes *)
Definition X_Attr : N := 1.      (* AttributeError *)
Definition X_Type : N := 2.      (* TypeError *)
Definition X_Key : N := 3.       (* KeyError *)
Definition X_Value : N := 4.     (* ValueError *)
Definition X_Index : N := 5.     (* IndexError *)
Definition X_Unbound : N := 6.   (* UnboundLocalError *)
Definition X_Overflow : N := 7.  (* OverflowError *)
Definition X_Unmodelled : N := 98. (* outside the modelled fragment (never compared as agreement) *)

Definition is_str (v : yv) : bool := match v with YStr _ => true | _ => false end.
Definition is_list (v : yv) : bool := match v with YList _ => true | _ => false end.
Definition is_map (v : yv) : bool := match v with YMap _ => true | _ => false end.
Definition is_null (v : yv) : bool := match v with YNull => true | _ => false end.
Definition is_bool (v : yv) : bool := match v with YBool _ => true | _ => false end.

(* bool(v) *)
Definition truthy (v : yv) : bool :=
  match v with
  | YNull => false | YBool b => b | YInt z => negb (Z.eqb z 0) | YFloat k => negb (N.eqb k 3)
  | YStr s => match s with [] => false | _ => true end | YDate => true
  | YList l => match l with [] => false | _ => true end
  | YMap m => match m with [] => false | _ => true end
  end.

Definition key_is (k : yv) (s : str) : bool := match k with YStr t => str_eqb t s | _ => false end.
Fixpoint assoc (m : list (yv * yv)) (s : str) : option yv :=
  match m with
  | [] => None
  | (k, v) :: r => if key_is k s then Some v else assoc r s
  end.

(* d.get(k)  (k a str literal): AttributeError unless d is a dict *)
Definition dget (d : yv) (k : str) : outcome yv :=
  match d with
  | YMap m => Ok (match assoc m k with Some v => v | None => YNull end)
  | _ => Crash X_Attr
  end.
(* d.get(k, default) with a non-None default: a missing key is distinguished from a null value *)
Definition dget_opt (d : yv) (k : str) : outcome (option yv) :=
  match d with YMap m => Ok (assoc m k) | _ => Crash X_Attr end.
(* d[k]  (k a str literal): KeyError on a dict without k, TypeError on everything else *)
Definition ditem (d : yv) (k : str) : outcome yv :=
  match d with
  | YMap m => match assoc m k with Some v => Ok v | None => Crash X_Key end
  | _ => Crash X_Type
  end.
(* d.items(): AttributeError unless d is a dict *)
Definition ditems (d : yv) : outcome (list (yv * yv)) :=
  match d with YMap m => Ok m | _ => Crash X_Attr end.

(* try: o  except <class tag>: h *)
Definition catch {A} (o : outcome A) (tag : N) (h : outcome A) : outcome A :=
  match o with Crash c => if N.eqb c tag then h else o | _ => o end.

Notation "x <- a ;; b" := (obind a (fun x => b)) (at level 61, a at next level, right associativity).

(* sequential map with the first failure propagating (a list comprehension) *)
Fixpoint map_out {A B} (f : A -> outcome B) (l : list A) : outcome (list B) :=
  match l with
  | [] => Ok []
  | x :: r => y <- f x ;; ys <- map_out f r ;; Ok (y :: ys)
  end.
Fixpoint iter_out {A} (f : A -> outcome unit) (l : list A) : outcome unit :=
  match l with
  | [] => Ok tt
  | x :: r => _ <- f x ;; iter_out f r
  end.

Definition is_ascii (s : str) : bool := forallb (fun c => N.ltb c 128) s.

(* str.upper() restricted to what can produce ASCII letters: a-z and the ten code points whose
   upper-case form contains ASCII letters only (ß ı ſ ﬀ ﬁ ﬂ ﬃ ﬄ ﬅ ﬆ); any other character is kept,
   which is exact whenever the result is compared with an ASCII name *)
Definition upper_img (c : char) : str :=
  if N.leb 97 c && N.leb c 122 then [c - 32]
  else if N.eqb c 223 then [83; 83] else if N.eqb c 305 then [73] else if N.eqb c 383 then [83]
  else if N.eqb c 64256 then [70; 70] else if N.eqb c 64257 then [70; 73]
  else if N.eqb c 64258 then [70; 76] else if N.eqb c 64259 then [70; 70; 73]
  else if N.eqb c 64260 then [70; 70; 76] else if N.eqb c 64261 then [83; 84]
  else if N.eqb c 64262 then [83; 84] else [c].
Definition upper (s : str) : str := flat_map upper_img s.
Definition lower_ascii (s : str) : str :=
  map (fun c => if N.leb 65 c && N.leb c 90 then c + 32 else c) s.

(* s.split(sep) *)
Fixpoint split_go (sep : char) (s : str) (acc : str) : list str :=
  match s with
  | [] => [acc]
  | c :: r => if N.eqb c sep then acc :: split_go sep r [] else split_go sep r (acc ++ [c])
  end.
Definition split (sep : char) (s : str) : list str := split_go sep s [].

Definition in_strs (s : str) (l : list str) : bool := existsb (str_eqb s) l.

(* nested induction principle *)
Section YvInd.
  Variable P : yv -> Prop.
  Hypothesis Hn : P YNull.
  Hypothesis Hb : forall b, P (YBool b).
  Hypothesis Hi : forall z, P (YInt z).
  Hypothesis Hf : forall k, P (YFloat k).
  Hypothesis Hs : forall s, P (YStr s).
  Hypothesis Hd : P YDate.
  Hypothesis Hl : forall l, Forall P l -> P (YList l).
  Hypothesis Hm : forall m, Forall (fun kv => P (fst kv) /\ P (snd kv)) m -> P (YMap m).
  Fixpoint yv_ind' (v : yv) : P v :=
    match v with
    | YNull => Hn | YBool b => Hb b | YInt z => Hi z | YFloat k => Hf k | YStr s => Hs s | YDate => Hd
    | YList l => Hl l ((fix go l : Forall P l :=
        match l with [] => Forall_nil P | x :: r => Forall_cons x (yv_ind' x) (go r) end) l)
    | YMap m => Hm m ((fix go m : Forall (fun kv => P (fst kv) /\ P (snd kv)) m :=
        match m with [] => Forall_nil _
        | (k, x) :: r => Forall_cons (k, x) (conj (yv_ind' k) (yv_ind' x)) (go r) end) m)
    end.
End YvInd.
