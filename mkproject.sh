#!/bin/sh
# regenerate coq/_CoqProject from the files on disk and (re)build everything (.vo, never -vos)
set -e
cd "$(dirname "$0")/coq"
{ echo "-Q . PS"; echo "-arg -w -arg -notation-overridden,-deprecated-hint-without-locality,-deprecated-instance-without-locality"; find Base Model Spec Proofs Run Props -name '*.v' | sort; } > _CoqProject
coq_makefile -f _CoqProject -o Makefile >/dev/null
timeout 3000 make -j16 "$@"
