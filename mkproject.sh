#!/bin/sh
# regenerate coq/_CoqProject from the files on disk and (re)build everything (.vo, never -vos)
set -e
cd "$(dirname "$0")/coq"
exec 9>../.build.lock
flock 9
{ echo "-Q . PS"; echo "-arg -w -arg -notation-overridden,-deprecated-hint-without-locality,-deprecated-instance-without-locality"; find Base Model Spec Proofs Run Props -name '*.v' | sort; } > _CoqProject.new
if ! cmp -s _CoqProject.new _CoqProject 2>/dev/null || [ ! -f Makefile ]; then
  mv _CoqProject.new _CoqProject
  coq_makefile -f _CoqProject -o Makefile >/dev/null
else
  rm -f _CoqProject.new
fi
timeout 3000 make -j16 "$@"
