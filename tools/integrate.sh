#!/bin/bash
# tools/integrate.sh C02 : merge branch wC02 of the verif worktree into /verif main, bring over its
# claims / known-findings files, cherry-pick its "fix:" commits into /repo, rebuild and run the check.
id=$1
W=/tmp/w/$id
cd /verif
# uncommitted-but-ignored per-property files
mkdir -p tools/claims.d known_findings.d
git -C $W/verif status --short | grep -v '^??' || true
echo "--- untracked in worktree:"; git -C $W/verif status --short | grep '^??' || true
git merge --no-edit w$id 2>&1 | tail -3
# evidence files and the manifest are regenerated here, never merged
for f in $(git diff --name-only --diff-filter=U | grep -E '^(evidence/|MANIFEST.json)'); do git checkout --ours -- $f; git add $f; done
[ -f tools/claims.d/$id.json ] || { [ -f $W/verif/tools/claims.d/$id.json ] && cp $W/verif/tools/claims.d/$id.json tools/claims.d/; }
[ -f known_findings.d/$id.json ] || { [ -f $W/verif/known_findings.d/$id.json ] && cp $W/verif/known_findings.d/$id.json known_findings.d/; }
# repo fixes
for c in $(git -C /repo log --reverse --format=%H main..w$id); do
  subj=$(git -C /repo log -1 --format='%s' $c)
  if git -C /repo log --format=%s main | grep -qxF "$subj"; then echo "skip (same subject already on main): $subj"; continue; fi
  if git -C /repo cherry-pick $c >/dev/null 2>&1; then
    echo "cherry-picked: $(git -C /repo log -1 --format='%h %s')"
  else
    if git -C /repo diff --cached --quiet && [ -z "$(git -C /repo diff --name-only --diff-filter=U)" ]; then
      git -C /repo cherry-pick --skip >/dev/null 2>&1; echo "skip (empty, already applied): $subj"
    else
      git -C /repo cherry-pick --abort; echo "CONFLICT (not applied): $c $subj"
    fi
  fi
done
python3 tools/mkmanifest.py
