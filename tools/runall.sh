#!/bin/bash
# tools/runall.sh [tier] [ids...]: run the claimed checks one after the other, print exit code, time and verdict lines
tier=${1:-quick}; shift
cd "$(dirname "$(readlink -f "$0")")/.."
python3 tools/selfcheck.py || exit 3
ids="$@"
[ -z "$ids" ] && ids=$(python3 -c "import json; print(' '.join(c['property_id'] for c in json.load(open('MANIFEST.json'))['checks']))")
for id in $ids; do
  s=$(date +%s)
  out=$(./check $id --tier $tier ${VERIF_SEED:+--seed $VERIF_SEED} 2>&1; echo "__rc=$?")
  rc=$(echo "$out" | grep -o '__rc=[0-9]*' | cut -d= -f2)
  e=$(( $(date +%s) - s ))
  echo "== $id rc=$rc ${e}s  KNOWN=$(echo "$out" | grep -c '^KNOWN-FINDING') VIOL=$(echo "$out" | grep -c '^VIOLATION')"
  echo "$out" | grep -E "^VIOLATION|INTERNAL|Traceback|Error" | cut -c1-200 | head -5
done
