#!/usr/bin/env python3
"""Rewrite the commit field of every status=fixed entry of known_findings.json to the sha the fix has
on /repo main (matched by commit subject), and list fix commits of main that no entry mentions."""
import json, subprocess, os, re
V = os.path.dirname(os.path.dirname(os.path.abspath(__file__)))
def git(*a):
    return subprocess.run(["git", "-C", "/repo", *a], capture_output=True, text=True).stdout
main = [l.split(" ", 1) for l in git("log", "--format=%h %s", "main").splitlines()]
by_subj = {s: h for h, s in main}
kf = json.load(open(os.path.join(V, "known_findings.json")))
used = set()
for e in kf:
    if e.get("status") != "fixed":
        continue
    c = str(e.get("commit", ""))
    subj = None
    if c.startswith("fix:"):
        subj = c
    else:
        m = re.match(r"[0-9a-f]{7,40}", c)
        if m:
            subj = git("log", "-1", "--format=%s", m.group(0)).strip() or None
    if subj and subj in by_subj:
        e["commit"] = by_subj[subj]; e["commit_subject"] = subj; used.add(by_subj[subj])
    else:
        print("UNMATCHED entry:", e.get("property"), c, "|", (e.get("what") or "")[:80])
for e in kf:      # the one-line form of a repaired defect: "fixed: property=<id> <commit> <what failed>"
    if e.get("status") == "fixed":
        e["line"] = "fixed: property=%s %s %s" % (e.get("property"), e.get("commit"), " ".join(str(e.get("what") or "").split()))
json.dump(kf, open(os.path.join(V, "known_findings.json"), "w"), indent=1)
for h, s in main:
    if s.startswith("fix:") and h not in used:
        print("fix commit on main without entry:", h, s[:100])
