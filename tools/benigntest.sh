#!/bin/bash
# tools/benigntest.sh <A|AB> <name>...  - false-alarm test: apply the harmless patches seeded/<name>/benign_<stage>.diff
# (made by independent agents, see tools/benignprompt.template) together to a scratch worktree of /repo main and run
# every claimed quick check against it (VERIF_REPO). Patches that do not apply on top of the others are reported and skipped.
stage=$1; shift
W=${BENIGN_W:-/tmp/benignrepo}
git -C /repo worktree remove --force $W 2>/dev/null; git -C /repo worktree prune
git -C /repo worktree add -q --detach $W main || exit 2
applied=""
for n in "$@"; do
  d=/verif/seeded/$n
  if [ -d /tmp/seed/$n ]; then
    mkdir -p $d
    for f in benign_A.diff benign_AB.diff benign_demo.py benign_meta.json; do cp /tmp/seed/$n/$f $d/ 2>/dev/null; done
  fi
  if git -C $W apply --check $d/benign_$stage.diff 2>/dev/null; then git -C $W apply $d/benign_$stage.diff; applied="$applied $n"; else echo "NOT APPLIED (conflict with the others): $n"; fi
done
echo "applied:$applied"; git -C $W diff --shortstat
(cd $W && /venv/bin/python -m pytest -q -p no:cacheprovider -x -q tests --deselect tests/test_plugins.py --deselect tests/test_validators_tags.py 2>&1 | tail -1)
VERIF_REPO=$W /verif/tools/runall.sh quick
cd /verif && git checkout -- evidence 2>/dev/null
