#!/usr/bin/env python3
"""Regenerates MANIFEST.json from tools/claims.json (one entry per claimed property)."""
import json, os
V = os.path.dirname(os.path.dirname(os.path.abspath(__file__)))
claims = json.load(open(os.path.join(V, "tools", "claims.json")))
cd = os.path.join(V, "tools", "claims.d")
if os.path.isdir(cd):
    for fn in sorted(os.listdir(cd)):
        if fn.endswith(".json"):
            claims.update(json.load(open(os.path.join(cd, fn))))
props = [json.loads(l) for l in open(os.path.join(V, "properties.jsonl"))]
checks, na = [], []
for p in props:
    pid = p["id"]
    c = claims.get(pid)
    if c and c.get("claimed"):
        checks.append({
            "property_id": pid,
            "quick_cmd": f"./check {pid} --tier quick",
            "thorough_cmd": f"./check {pid} --tier thorough",
            "evidence_file": f"/verif/evidence/{pid}.json",
            "replay_cmd_template": f"./check {pid} --replay {{path}}",
            "engine": "coq-model+correspondence",
            "level_claimed": {"category": c.get("category", "proof"), "text": c["text"], "design_ref": c.get("design_ref", "DESIGN.md section 7 " + pid)},
            "level_note": c["note"],
            "technique": c.get("technique", "Coq 8.16 theorems over a hand-written executable Gallina model; model tied to /repo by a correspondence check evaluated inside Coq (vm_compute) on generated cases"),
        })
    else:
        na.append({"property_id": pid, "reason": (c or {}).get("reason", "model and theorems not built yet in this development (work in progress); no check is claimed")})
m = {
    "version": 1,
    "setup_cmd": "./check --setup",
    "hooks": {"guard": "PYSIGMA_VERIF", "enable": "no hooks are needed: checks observe public API, attributes, audit events and seeds only",
              "baseline_off_cmd": "cd /repo && /venv/bin/python -m pytest -ra -q -p no:cacheprovider --timeout=900 --continue-on-collection-errors",
              "source_commits": [], "add_only": True},
    "engines": [{"name": "coq-model+correspondence", "path": "/verif/check",
                 "serves_properties": [c["property_id"] for c in checks],
                 "kind_free_text": "Coq 8.16.1 development (coq/: Model, Spec, Proofs, Props) + Python harness (vlib, props, impl) that runs /repo's working tree and evaluates the model and the specification oracle inside Coq on the same cases"}],
    "checks": checks,
    "not_applicable": na,
    "notes": "See DESIGN.md. known_findings.json lists recorded defects; seeded/ holds validated breaking changes.",
}
json.dump(m, open(os.path.join(V, "MANIFEST.json"), "w"), indent=1)
print("claimed:", [c["property_id"] for c in checks])
