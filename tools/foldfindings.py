#!/usr/bin/env python3
"""Fold known_findings.d/*.json into known_findings.json (entries keyed by id for status=known,
by (property, what) for status=fixed) and remove the per-property files."""
import json, os, glob
V = os.path.dirname(os.path.dirname(os.path.abspath(__file__)))
main = json.load(open(os.path.join(V, "known_findings.json")))
def key(e):
    return ("known", e["id"]) if e.get("status") == "known" else ("fixed", e.get("property"), e.get("what"))
idx = {key(e): i for i, e in enumerate(main)}
for fn in sorted(glob.glob(os.path.join(V, "known_findings.d", "*.json"))):
    pid = os.path.basename(fn)[:-5]
    ents = json.load(open(fn))
    # entries are only added or replaced, never dropped (a finding that stops reproducing is turned
    # into a status=fixed entry by hand)
    for e in ents:
        if key(e) in idx:
            main[idx[key(e)]] = e
        else:
            main.append(e); idx[key(e)] = len(main) - 1
    os.remove(fn)
json.dump(main, open(os.path.join(V, "known_findings.json"), "w"), indent=1)
print(len(main), "entries;", sum(1 for e in main if e.get("status") == "known"), "known")
