#!/usr/bin/env python3
"""tools/seedregress.py [-j N] [name ...]: re-run every recorded seeded change (seeded/<name>/patch.diff) against the
check(s) that are recorded to catch it (seeded/<name>/meta.json) and report which are still caught.
Each seed gets its own scratch worktree of /repo main under /tmp (never /repo itself); the check runs with VERIF_REPO.
Exit 1 when a seed that was caught is no longer caught."""
import json, os, re, subprocess, sys, glob, threading, concurrent.futures as cf

GITLOCK = threading.Lock()     # git worktree add / remove / prune must not run concurrently

ROOT = os.path.dirname(os.path.dirname(os.path.abspath(__file__)))


def expected(meta):
    pid = meta.get("property")
    res = meta.get("result", "")
    others = set(re.findall(r"caught by (C\d\d)", res)) | set(re.findall(r"also caught by (C\d\d)", res))
    own_missed_for_good = re.search(r"MISSED by " + str(pid) + r"(?! at first)\b", res) and not re.search(
        r"(after strengthening|later)[^.;]*caught by " + str(pid), res) and not re.search(r"now (runs|catches)", res)
    if others and own_missed_for_good:
        return sorted(others - {pid}) or [pid]
    return [pid]


def run(name):
    d = os.path.join(ROOT, "seeded", name)
    meta = json.load(open(os.path.join(d, "meta.json")))
    wt = f"/tmp/seedreg.{name}"
    with GITLOCK:
        subprocess.run(["git", "-C", "/repo", "worktree", "remove", "--force", wt], capture_output=True)
        subprocess.run(["git", "-C", "/repo", "worktree", "prune"], capture_output=True)
        subprocess.run(["git", "-C", "/repo", "worktree", "add", "-q", "--detach", wt, "main"], check=True, capture_output=True)
    out = []
    try:
        p = subprocess.run(["git", "-C", wt, "apply", os.path.join(d, "patch.diff")], capture_output=True, text=True)
        if p.returncode != 0:
            return name, [("-", "patch does not apply (code changed since, e.g. by a fix)")]
        for pid in expected(meta):
            env = dict(os.environ, VERIF_REPO=wt, VERIF_NPROC=os.environ.get("SEEDREG_NPROC", "4"))
            r = subprocess.run([os.path.join(ROOT, "check"), pid, "--tier", "quick"], capture_output=True, text=True, env=env, cwd=ROOT)
            v = [l for l in r.stdout.splitlines() if l.startswith("VIOLATION")]
            out.append((pid, "caught" if (r.returncode == 1 and v) else f"MISSED (exit {r.returncode})"))
    finally:
        with GITLOCK:
            subprocess.run(["git", "-C", "/repo", "worktree", "remove", "--force", wt], capture_output=True)
    return name, out


def main():
    args = sys.argv[1:]
    j = 4
    if args[:1] == ["-j"]:
        j = int(args[1]); args = args[2:]
    names = args or sorted(os.path.basename(os.path.dirname(m)) for m in glob.glob(os.path.join(ROOT, "seeded", "*", "meta.json"))
                           if os.path.exists(os.path.join(os.path.dirname(m), "patch.diff")))
    bad = 0
    with cf.ThreadPoolExecutor(j) as ex:
        for name, res in ex.map(run, names):
            for pid, verdict in res:
                print(f"{name:8s} {pid:4s} {verdict}", flush=True)
                if verdict.startswith("MISSED"):
                    bad += 1
    subprocess.run(["git", "-C", "/repo", "worktree", "prune"], capture_output=True)
    print(f"{len(names)} seeds, {bad} no longer caught")
    sys.exit(1 if bad else 0)


if __name__ == "__main__":
    main()
