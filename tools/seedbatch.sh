#!/bin/bash
# tools/seedbatch.sh name:PID ...   -> runs seedtest for each, prints summary
for x in "$@"; do
  n=${x%%:*}; pid=${x##*:}
  echo "##### $n ($pid)"
  /verif/tools/seedtest.sh $n $pid quick notests 2>&1 | tail -4
done
