#!/bin/bash
# tools/seedtest.sh <seedname> <PID> [tier] [notests]: validate a seeded change and run the check against it.
# The patch is applied to a scratch worktree of /repo main (never to /repo itself); the check runs with VERIF_REPO.
set -e
n=$1; pid=$2; tier=${3:-quick}
W=/tmp/seed/$n
R=/tmp/seedrepo.$$
mkdir -p /verif/seeded/$n
if [ -d $W ]; then
  git -C $W diff -- sigma > /verif/seeded/$n/patch.diff
  cp $W/seed_demo.py /verif/seeded/$n/demo.py
  cp $W/seed_meta.json /verif/seeded/$n/agent_meta.json 2>/dev/null || true
fi
git -C /repo worktree add -q --detach $R main
trap 'git -C /repo worktree remove --force $R; git -C /repo worktree prune' EXIT
cd $R
PYTHONPATH=$R /venv/bin/python /verif/seeded/$n/demo.py >/dev/null 2>&1 && echo "demo: passes on unchanged tree" || echo "demo: FAILS on unchanged tree (!)"
git apply /verif/seeded/$n/patch.diff
PYTHONPATH=$R /venv/bin/python /verif/seeded/$n/demo.py >/dev/null 2>&1 && echo "demo: passes WITH change (!)" || echo "demo: fails with change (as intended)"
if [ "$4" != "notests" ]; then
  /venv/bin/python -m pytest -q -p no:cacheprovider -x tests --deselect tests/test_plugins.py --deselect tests/test_validators_tags.py >/dev/null 2>&1 && echo "tests: pass with change" || echo "tests: FAIL with change (!)"
fi
cd /verif
VERIF_REPO=$R ./check $pid --tier $tier 2>&1 | grep -E "VIOLATION|INTERNAL|Error|rc=" | cut -c1-200 | head -5
echo "check exit: ${PIPESTATUS[0]}"
