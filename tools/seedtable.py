#!/usr/bin/env python3
"""Regenerate the seeded-changes table of DESIGN.md section 13.4 from seeded/*/meta.json."""
import json, glob, os, re
V = os.path.dirname(os.path.dirname(os.path.abspath(__file__)))
rows = []
for d in sorted(glob.glob(os.path.join(V, "seeded", "*"))):
    mf = os.path.join(d, "meta.json")
    if not os.path.exists(mf):
        continue
    m = json.load(open(mf))
    wb = (m.get("what_breaks") or "").replace("\n", " ").replace("|", "/")
    wb = (wb[:230] + "...") if len(wb) > 233 else wb
    res = (m.get("result") or "").replace("\n", " ").replace("|", "/")
    rows.append(f"| {os.path.basename(d)} | {m.get('property')} | {wb} | {res} |")
table = ("| seed | property | change | result |\n|------|----------|--------|--------|\n" + "\n".join(rows) + "\n")
p = os.path.join(V, "DESIGN.md")
s = open(p).read()
i = s.index("### 13.4 Seeded changes")
j = s.index("| seed | property |", i)
k = j
lines = s[j:].split("\n")
n = 0
for ln in lines:
    if ln.startswith("|"):
        n += len(ln) + 1
    else:
        break
s = s[:j] + table + s[j + n:]
open(p, "w").write(s)
caught = sum(1 for r in rows if "MISSED" not in r)
print(len(rows), "seeds;", caught, "caught at once;", len(rows) - caught, "missed at first")
