#!/bin/bash
# tools/benignall.sh <A|AB> <tag> <name>... : run tools/benigntest.sh over all the named harmless patches, in as few groups as
# their mutual conflicts allow; logs in /tmp/benign.<tag>.<stage>.<n>.out; prints the groups and every non-zero check.
stage=$1; tag=$2; shift 2
rest="$@"; n=1
while [ -n "$rest" ]; do
  out=/tmp/benign.$tag.$stage.$n.out
  /verif/tools/benigntest.sh $stage $rest > $out 2>&1
  echo "group $n:$(grep '^applied:' $out | cut -d: -f2)"
  grep -E "^== .*rc=[^0]|^VIOLATION|passed|failed" $out | cut -c1-220
  next=$(grep "^NOT APPLIED" $out | sed 's/.*: //' | tr '\n' ' ')
  [ "$next" = "$rest " ] && { echo "cannot apply: $next"; break; }
  rest=$next; n=$((n+1))
done
