#!/usr/bin/env python3
"""Write the prompt for an independent agent that makes HARMLESS changes (false-alarm test):
tools/mkbenignprompt.py <PID> <name> [outdir]. Only the property text and the worktree path are given."""
import json, sys, os
ROOT = os.path.dirname(os.path.dirname(os.path.abspath(__file__)))
pid, name = sys.argv[1], sys.argv[2]
out = sys.argv[3] if len(sys.argv) > 3 else "/tmp/seedprompts"
props = {json.loads(l)["id"]: json.loads(l) for l in open(os.path.join(ROOT, "properties.jsonl")) if l.strip()}
p = props[pid]
files = ", ".join(p.get("anchors", {}).get("files", [])) or "sigma/"
mech = "; ".join(f"{m.get('name')} ({m.get('where')})" for m in p.get("anchors", {}).get("mechanism", []))
q = p.get("quantifier", {})
tpl = open(os.path.join(ROOT, "tools", sys.argv[4] if len(sys.argv) > 4 else "benignprompt.template")).read()
txt = tpl.format(WT=f"/tmp/seed/{name}", NAME=name, TITLE=p["title"], STATEMENT=p["statement"],
                 QUANT=q.get("text", "") if isinstance(q, dict) else q, FILES=files + (" - " + mech if mech else ""), PID=pid)
os.makedirs(out, exist_ok=True)
open(os.path.join(out, name + ".txt"), "w").write(txt)
print(os.path.join(out, name + ".txt"))
