#!/usr/bin/env python3
"""tools/seedrecord.py <name> <PID> "<result>": write seeded/<name>/meta.json from the seeding agent's agent_meta.json
(kept next to it) after tools/seedtest.sh validated the change (demo passes without / fails with the patch, suite green)."""
import json, sys, os
V = os.path.dirname(os.path.dirname(os.path.abspath(__file__)))
n, pid, res = sys.argv[1], sys.argv[2], sys.argv[3]
d = os.path.join(V, "seeded", n)
a = json.load(open(os.path.join(d, "agent_meta.json")))
m = {"property": pid, "what_breaks": a.get("what_breaks", ""), "needs_to_manifest": a.get("needs_to_manifest", ""),
     "files_changed": a.get("files_changed", []),
     "validated": "demo.py exits 0 on the unchanged tree and 1 with patch.diff applied (tools/seedtest.sh, scratch worktree of /repo main); "
                  "the baseline suite without the network test files passes with the change (run by seedtest.sh and by the seeding agent)",
     "ran": f"tools/seedtest.sh {n} {pid}", "result": res}
json.dump(m, open(os.path.join(d, "meta.json"), "w"), indent=1)
os.remove(os.path.join(d, "agent_meta.json"))
print("recorded", n)
