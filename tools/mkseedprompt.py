#!/usr/bin/env python3
"""Write the prompt for an independent seeding agent: tools/mkseedprompt.py <PID> <name> [outdir].
The prompt contains only the text of the property (from properties.jsonl), the path of the scratch
worktree /tmp/seed/<name> and one-line summaries of the changes already tried for that property
(seeded/*/meta.json) so that a new agent looks elsewhere. Nothing else from /verif is given."""
import json, sys, os, glob
ROOT = os.path.dirname(os.path.dirname(os.path.abspath(__file__)))
pid, name = sys.argv[1], sys.argv[2]
out = sys.argv[3] if len(sys.argv) > 3 else "/tmp/seedprompts"
props = {json.loads(l)["id"]: json.loads(l) for l in open(os.path.join(ROOT, "properties.jsonl")) if l.strip()}
p = props[pid]
tried = []
metas = {os.path.dirname(m): m for m in sorted(glob.glob(os.path.join(ROOT, "seeded", "*", "agent_meta.json")))}
metas.update({os.path.dirname(m): m for m in sorted(glob.glob(os.path.join(ROOT, "seeded", "*", "meta.json")))})
for m in sorted(metas.values()):
    d = json.load(open(m))
    if d.get("property") == pid:
        tried.append(" ".join(str(d.get("what_breaks", "")).split())[:260])
wt = f"/tmp/seed/{name}"
files = ", ".join(p.get("anchors", {}).get("files", [])) or "sigma/"
hint = ("Choose the location yourself among the mechanisms listed above - but it must be DIFFERENT from these changes "
        "that were already tried (do not reuse the same site or idea): "
        + " || ".join(f"({i+1}) {t}" for i, t in enumerate(tried))
        + ". Look for a part of the property statement / quantifier text that none of those touches, and break exactly that. "
        "Prefer a change that needs a multi-step sequence of operations, a particular ordering of inputs, two cooperating code "
        "sites that each look fine alone, a boundary value (empty, zero, falsy, duplicate, very long, non-ASCII), or an unusual "
        "combination of configuration options. Do not use `git stash` (it is shared between worktrees): to test the unmodified "
        f"code use `git diff -- sigma > /tmp/seed/{name}.diff; git checkout -- sigma; ...; git apply /tmp/seed/{name}.diff`.")
tpl = open(os.path.join(ROOT, "tools", "seedprompt.template")).read()
q = p.get("quantifier", {})
txt = tpl.format(WT=wt, TITLE=p["title"], STATEMENT=p["statement"], QUANT=q.get("text", "") if isinstance(q, dict) else q,
                 FILES=files, HINT=hint, PID=pid)
os.makedirs(out, exist_ok=True)
open(os.path.join(out, name + ".txt"), "w").write(txt)
print(os.path.join(out, name + ".txt"), len(tried), "previous changes listed")
