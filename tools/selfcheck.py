#!/usr/bin/env python3
"""Consistency of the committed state: every finding id a props module can return is listed as
status=known in known_findings.json, every evidence file and the manifest validate, every claimed
property has its Props file, no conflict markers are committed."""
import json, re, glob, os, sys, subprocess
V = os.path.dirname(os.path.dirname(os.path.abspath(__file__)))
ok = True
kf = json.load(open(os.path.join(V, "known_findings.json")))
known = {e["id"] for e in kf if e.get("status") == "known"}
for f in sorted(glob.glob(os.path.join(V, "props", "c*.py"))):
    src = open(f).read()
    for m in set(re.findall(r"[\"']((?:D\d+|C\d\d)-[A-Za-z0-9_.-]{6,})[\"']", src)):
        if m not in known:
            print("finding id used in", os.path.basename(f), "but not status=known in known_findings.json:", m); ok = False
for f in glob.glob(os.path.join(V, "**", "*"), recursive=True):
    if os.path.isfile(f) and f.endswith((".json", ".py", ".v", ".md")) and ".git/" not in f:
        try:
            if re.search(r"^<<<<<<< ", open(f, errors="ignore").read(), flags=re.M):
                print("conflict marker in", f); ok = False
        except Exception:
            pass
man = json.load(open(os.path.join(V, "MANIFEST.json")))
for c in man["checks"]:
    pid = c["property_id"]
    if not os.path.exists(os.path.join(V, "coq", "Props", pid + ".v")):
        print("missing Props file for", pid); ok = False
# every property module and its implementation-side module must import (a removed helper that another
# property imported would otherwise only show when that property's check runs)
for c in man["checks"]:
    pid = c["property_id"].lower()
    r = subprocess.run([sys.executable, "-c", "import sys; sys.path.insert(0, %r); import props.%s" % (V, pid)],
                       capture_output=True, text=True)
    if r.returncode != 0:
        print("props/%s.py does not import:" % pid, r.stderr.strip().splitlines()[-1] if r.stderr.strip() else "?"); ok = False
print("selfcheck", "ok" if ok else "FAILED", "-", len(known), "known findings,", len(man["checks"]), "claimed")
sys.exit(0 if ok else 1)
