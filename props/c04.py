import base64, itertools, json, random
from vlib.core import Property, Suite, cstr, cbytes, clist, cbool, copt

# ---- payload alphabet (DESIGN section 7 C04) -------------------------------------------------
TOK = ['a', 'Z', '-', '\\*', 'é', '€', '\u0100', '\u2a00']        # exhaustive part: 1, 2 and 3 byte characters, escaped star
HOSTILE = ['*', '?', '\\', '\\\\', '\\?', ' ', '=', '+', '/', '\x00', '\x7f', '\x80', '\u07ff', '\u0800',
           '\ud7ff', '\ue000', '\ufeff', '\ufffe', '\uffff', '\U00010000', '\U0001f600', '\U0010ffff',
           '\U00010080', '\u5c00', '\u3f00', '\ua9c3', '\ud800', '\udfff', '%', 'A', '0', '~', 'ÿ', '\n', '\r', '\t']
HOSTILE_STR = ['\U00010080\u0080', '\U00010080\u0080a', 'a\U00010080\u0080', '\ua9c3', '\ua9c3\ua9c3', '\u2a00\u5c00\u3f00',
               '%x%', '\\', 'a\\', '\\*\\?', '   ', ' a', 'a ', '\ud800', 'a\udc00b', '\ud83d\ude00', '\ude00\ud83d', '*', 'a*', '*a*', '?a',
               'a\\*b', 'C:\\Windows\\*', '/bin/bash', 'http://', 'IEX (New-Object Net.WebClient)', 'ping -n', 'äb', '€', '€€', 'aä', 'äöü',
               '\ufeff', '\ufeffa', '=', '==', 'a=', '\x00', '\x00\x00\x00', 'ÿþ',
               'a\nb', 'line1\r\nline2', 'IEX\n(iwr x)', '\n', 'a\tb']

# surrogates: high (D800..DBFF) and low (DC00..DFFF), with the range DC80..DCFF that the 'surrogateescape'
# error handler would turn into the raw bytes 80..FF; lone, in the wrong order, next to ASCII, next to
# non-ASCII and non-BMP characters. None of these strings has a byte encoding: rejection is the only outcome.
SURR = ['\ud800', '\ud83d', '\udbff', '\udc00', '\udc7f', '\udc80', '\udca4', '\udcc3', '\udce2', '\udcff',
        '\udd00', '\ude00', '\udfff']
SURR_STR = sorted(set(
    [f(c) for c in SURR for f in (lambda c: c, lambda c: 'a' + c, lambda c: c + 'a', lambda c: 'cmd' + c, lambda c: c + c,
                                  lambda c: 'é' + c, lambda c: c + '€', lambda c: '\U0001f600' + c, lambda c: c + '\U00010080\u0080',
                                  lambda c: '\\*' + c, lambda c: c + ' ')]
    + ['\udcc3\udca4', 'x\udcc3\udca4y', '\udce2\udc82\udcac', '\udc80\udcff', '\udcff\udc80', '\udc00\ud800', '\ude00\ud83d',
       '\udc80\ud800', '\udfff\udbff', '\ud800\ud800', '\udbff\udbff', 'a\ud800b\udc80c', '\ud83d \ude00', '\udc80' * 3,
       '\udcf0\udc9f\udc98\udc80', 'cmd\udc80', '\udc80*', '?\udcff']))

ENC = ["wide", "utf16be", "utf16"]
B64 = ["base64", "base64offset"]
CHAINS = [[b] for b in B64] + [[e] for e in ENC] + [[e, b] for e in ENC for b in B64]
CHAINS_C = [c + ["contains"] for c in CHAINS]
ODD_CHAINS = [[], ["contains"], ["base64", "wide"], ["base64offset", "wide"], ["wide", "wide"], ["wide", "utf16be"],
              ["utf16", "wide"], ["contains", "base64"], ["contains", "base64offset"], ["contains", "wide"],
              ["base64", "base64"], ["base64offset", "base64"], ["base64", "base64offset"],
              ["base64offset", "base64offset"], ["base64offset", "wide", "base64"], ["wide", "base64", "wide"]]
MODC = {"base64": "MBase64", "base64offset": "MBase64Offset", "wide": "MWide", "utf16be": "MUtf16be",
        "utf16": "MUtf16", "contains": "MContains"}

SUR_BYTES = [0x00, 0x20, 0x20, 0x41, 0x61, 0x7f, 0x80, 0xc3, 0xe2, 0xff, 0xfe, 0x3d, 0x0a]


def surroundings(rng, mods, bs_hint=b""):
    """all prefix lengths 0..5 x suffix lengths 0..5 with arbitrary bytes (only needed for base64offset)"""
    if "base64offset" not in mods:
        return []
    out = []
    for a in range(6):
        for b in range(6):
            mode = rng.randrange(4)
            def rb():
                if mode == 0: return rng.randrange(256)
                if mode == 1: return rng.choice(SUR_BYTES)
                if mode == 2: return 0x20
                return rng.choice(bs_hint) if bs_hint else rng.randrange(256)
            out.append([[rb() for _ in range(a)], [rb() for _ in range(b)]])
    return out


def mk(rng, mods, payloads):
    # cases travel as JSON: a high surrogate directly followed by a low one would arrive as one character
    payloads = json.loads(json.dumps(payloads))
    hint = b""
    for p in payloads:
        if "s" in p:
            hint += p["s"].encode("utf-8", "surrogatepass")
    return {"mods": list(mods), "payloads": payloads, "sur": surroundings(rng, mods, hint)}


def rand_payload(rng, n):
    pool = TOK * 4 + HOSTILE + SURR
    return "".join(rng.choice(pool) for _ in range(n))


def gen_chain(tier, rng):
    out = []
    quick = tier == "quick"
    # exhaustive short payloads over the token alphabet (all byte lengths mod 3) x the property's chains
    kmax = 2 if quick else 3
    words = ["".join(t) for k in range(kmax + 1) for t in itertools.product(TOK, repeat=k)]
    for w in words:
        for ch in CHAINS:
            out.append(mk(rng, ch, [{"s": w}]))
    # one token more: exhaustive for base64offset (thorough: also wide|base64offset), sampled for the other chains
    wn = ["".join(t) for t in itertools.product(TOK, repeat=kmax + 1)]
    for w in wn:
        out.append(mk(rng, ["base64offset"], [{"s": w}]))
        if not quick:
            out.append(mk(rng, ["wide", "base64offset"], [{"s": w}]))
    for w in rng.sample(wn, 80 if quick else 500):
        for ch in (["wide", "base64offset"], ["utf16be", "base64offset"], ["wide", "base64"], ["base64"],
                   ["utf16be", "base64"], ["wide"], ["utf16be"], ["utf16", "base64offset"]):
            out.append(mk(rng, ch, [{"s": w}]))
    # with contains at the end (observe_at: f|base64offset|contains)
    for w in rng.sample(words, min(len(words), 60 if quick else 300)):
        for ch in CHAINS_C:
            out.append(mk(rng, ch, [{"s": w}]))
    # hostile single characters and strings on every chain, odd chains included
    for w in HOSTILE + HOSTILE_STR + TOK:
        others = CHAINS_C + ODD_CHAINS
        for ch in CHAINS + (rng.sample(others, 8) if quick else others):
            out.append(mk(rng, ch, [{"s": w}]))
    # strings without a byte encoding (surrogates) on base64, base64offset and the other chains
    for w in SURR_STR:
        for ch in [["base64"], ["base64offset"]] + (rng.sample(CHAINS[2:] + CHAINS_C, 3) if quick else CHAINS[2:] + CHAINS_C):
            out.append(mk(rng, ch, [{"s": w}]))
    # the whole range that 'surrogateescape' would map to bytes (quick) / every surrogate code point (thorough)
    for cp in (range(0xDC80, 0xDD00) if quick else range(0xD800, 0xE000)):
        form = rng.choice([lambda c: c, lambda c: 'a' + c, lambda c: c + 'Z', lambda c: 'ab' + c + 'c'])
        for ch in (["base64"], ["base64offset"]):
            out.append(mk(rng, ch, [{"s": form(chr(cp))}]))
        if not quick and 0xDC80 <= cp < 0xDD00:
            for ch in CHAINS[2:]:
                out.append(mk(rng, ch, [{"s": form(chr(cp))}]))
    for ch in CHAINS:
        out.append(mk(rng, ch, [{"s": "ab"}, {"s": "c\udc80"}]))
        out.append(mk(rng, ch, [{"s": "\udcc3\udca4"}, {"s": "ä"}]))
    # values that are not strings, lists of values
    for ch in CHAINS + [[], ["contains"]]:
        for o in (5, 1.5, True, None):
            out.append(mk(rng, ch, [{"o": o}]))
        out.append(mk(rng, ch, [{"s": "ab"}, {"s": "€c"}]))
        out.append(mk(rng, ch, [{"s": "ab"}, {"s": "é*"}]))
        out.append(mk(rng, ch, [{"s": "ab"}, {"o": 7}]))
    # random longer payloads
    for _ in range(400 if quick else 6000):
        n = rng.choice([1, 2, 3, 4, 5, 6, 7, 8, 9, 12, 17, 25, 40])
        ch = rng.choice(CHAINS * 3 + CHAINS_C + ODD_CHAINS[:8])
        out.append(mk(rng, ch, [{"s": rand_payload(rng, n)}]))
    # ascii-only payloads of every length up to 40 (all residues, long texts)
    for n in range(0, 41, 1 if not quick else 3):
        w = "".join(rng.choice("abcXYZ019 -/\\.:=+") for _ in range(n))
        for ch in (["base64"], ["base64offset"], ["wide", "base64offset"], ["utf16be", "base64offset", "contains"]):
            out.append(mk(rng, ch, [{"s": w}]))
    return out


# ---- encoders into Coq terms -------------------------------------------------------------------
def cparts(ps):
    t = []
    for p in ps:
        if p[0] == "s": t.append(f"PStr {cstr(p[1])}")
        elif p[0] == "m": t.append("PMulti")
        elif p[0] == "q": t.append("PSingle")
        elif p[0] == "p": t.append(f"PPh {cstr(p[1])}")
        else: return None
    return clist(t)


def cival(v):
    if v["t"] == "s":
        ps = cparts(v["parts"])
        if ps is None: return None
        return f"IStr {ps} {copt(cbytes(bytes(v['b'])) if v['b'] is not None else None)}"
    if v["t"] == "e":
        xs = [cival(x) for x in v["l"]]
        if any(x is None for x in xs): return None
        return "IExp " + clist("(" + x + ")" for x in xs)
    return "IOther"


def cmods(mods):
    return clist(MODC[m] for m in mods)


def cpayloads(pls):
    return "(" + clist(f"PVStr {cstr(p['s'])}" if "s" in p else "PVOther" for p in pls) + " : list pval)"


def csur(sur):
    return "(" + clist(f"({cbytes(bytes(a))}, {cbytes(bytes(b))})" for a, b in sur) + " : list (list N * list N))"


def coutcome(r):
    if "exc" in r:
        if r.get("sigma"):
            tag = {"SigmaValueError": 1, "SigmaPlaceholderError": 2, "SigmaTypeError": 3}.get(r["exc"], 99)
            return f"(SigmaErr {tag} : outcome (list ival))"
        return "(Crash 1 : outcome (list ival))"
    xs = [cival(v) for v in r["vals"]]
    if any(x is None for x in xs): return None
    return "(Ok " + clist("(" + x + ")" for x in xs) + " : outcome (list ival))"


def chain_to_coq(c, r):
    out = coutcome(r)
    if out is None: return None
    return f"({cmods(c['mods'])}, {cpayloads(c['payloads'])}, {csur(c['sur'])}, {out})"


# ---- chain shapes, known findings, independent Python reference ---------------------------------
def shape(mods):
    ms = list(mods)
    e = ms.pop(0) if ms and ms[0] in ENC else None
    b = ms.pop(0) if ms and ms[0] in B64 else None
    c = False
    if ms == ["contains"]:
        c, ms = True, []
    return None if ms else (e, b, c)


def known_chain(c, r):
    sh = shape(c["mods"])
    if sh and sh[0] == "utf16" and "exc" not in r:
        return "D9-utf16-bom-is-utf8-encoded"
    return None


def read_items(s):
    """the Sigma specification's reading of a value string: list of ('L', ch) / ('W', ch)"""
    items, i = [], 0
    while i < len(s):
        ch = s[i]
        if ch == '\\':
            if i + 1 < len(s) and s[i + 1] in '*?\\':
                items.append(('L', s[i + 1])); i += 2; continue
            items.append(('L', '\\')); i += 1; continue
        items.append(('W', ch) if ch in '*?' else ('L', ch))
        i += 1
    return items


def vtext(v, contains):
    """text of an implementation value made of literal parts only (wildcards added by contains removed)"""
    parts = list(v["parts"])
    if contains:
        if parts and parts[0] == ["m"]: parts = parts[1:]
        if parts and parts[-1] == ["m"]: parts = parts[:-1]
    if any(p[0] != "s" for p in parts): return None
    return "".join(p[1] for p in parts)


def py_oracle_chain(c, r):
    """Independent reference: Python's base64 module and codecs on the source payload. The utf16
    modifier (known finding D9) is left to the Coq oracle."""
    sh = shape(c["mods"])
    if sh is None or sh[0] == "utf16" or sh[1] is None or "exc" in r:
        return None
    e, b, cont = sh
    if len(r["vals"]) != len(c["payloads"]):
        return "number of values differs from number of payloads"
    for p, v in zip(c["payloads"], r["vals"]):
        if "s" not in p: return "non-string accepted"
        items = read_items(p["s"])
        if any(k == 'W' for k, _ in items): return "wildcard payload accepted by a base64 modifier"
        text = "".join(ch for _, ch in items)
        try:
            bs = text.encode({None: "utf-8", "wide": "utf-16-le", "utf16be": "utf-16-be"}[e])
        except UnicodeError:
            return "payload that cannot be encoded was accepted"
        if b == "base64":
            if v["t"] != "s" or vtext(v, cont) != base64.b64encode(bs).decode():
                return f"base64 value differs from base64.b64encode: {base64.b64encode(bs).decode()!r}"
        else:
            if v["t"] != "e": return "base64offset did not return an expansion"
            texts = [vtext(x, cont) if x["t"] == "s" else None for x in v["l"]]
            if any(t is None for t in texts): return "base64offset value is not a literal"
            for pre, suf in c["sur"]:
                enc = base64.b64encode(bytes(pre) + bs + bytes(suf)).decode()
                if not any(t in enc for t in texts):
                    return f"no value occurs in base64(pre+payload+suf) = {enc!r} (prefix length {len(pre)}, suffix length {len(suf)})"
    return None


def mutate_chain(c, rng):
    out = []
    for k, p in enumerate(c["payloads"]):
        if "s" not in p: continue
        s = p["s"]
        def with_s(t):
            ps = list(c["payloads"]); ps[k] = {"s": t}
            return mk(rng, c["mods"], ps)
        for i in range(len(s) + 1):
            for ch in ['a', 'é', '€', '\\*', '\u2a00']:
                out.append(with_s(s[:i] + ch + s[i:]))
        for i in range(len(s)):
            out.append(with_s(s[:i] + s[i + 1:]))
    for ch in CHAINS:
        out.append(mk(rng, ch, c["payloads"]))
    return out


def stratum_chain(c, r):
    return "|".join(c["mods"]) or "(none)"


# ---- suite pure: the modifiers leave their input values alone ---------------------------------------
def bs_adjacent(s):
    """C05 finding D10: the plain form of such a value does not re-parse to the same value"""
    items = read_items(s)
    for a, b in zip(items, items[1:]):
        if a == ('L', '\\') and (b[0] == 'W' or b[1] in '*?\\'):
            return True
    return False


def mk_pure(rng, mods, payloads):
    c = mk(rng, mods, payloads)
    if c["sur"]:   # one surrounding per prefix length 0..5 (every view is judged against all of them)
        c["sur"] = [rng.choice(c["sur"][6 * a:6 * a + 6]) for a in range(6)]
    if any("s" in p and bs_adjacent(p["s"]) for p in c["payloads"]):
        c["skip_roundtrip"] = True
    return c


def gen_pure(tier, rng):
    out = []
    quick = tier == "quick"
    w1 = [""] + TOK
    w2 = ["".join(t) for t in itertools.product(TOK, repeat=2)]
    w3 = ["".join(t) for t in itertools.product(TOK, repeat=3)]
    for w in w1:
        for ch in CHAINS + CHAINS_C:
            out.append(mk_pure(rng, ch, [{"s": w}]))
    for w in (rng.sample(w2, 16) if quick else w2 + rng.sample(w3, 150)):
        for ch in CHAINS:
            out.append(mk_pure(rng, ch, [{"s": w}]))
    for w in HOSTILE + HOSTILE_STR:
        for ch in rng.sample(CHAINS, 2 if quick else 6) + rng.sample(CHAINS_C + ODD_CHAINS, 1 if quick else 4):
            out.append(mk_pure(rng, ch, [{"s": w}]))
    for w in SURR_STR:
        for ch in [["base64"], ["base64offset"]] + rng.sample(CHAINS[2:] + CHAINS_C, 1 if quick else 6):
            out.append(mk_pure(rng, ch, [{"s": w}]))
    for cp in range(0xDC80, 0xDD00, 8 if quick else 1):
        out.append(mk_pure(rng, rng.choice([["base64"], ["base64offset"], ["base64offset", "contains"]]), [{"s": "a" + chr(cp + (rng.randrange(8) if quick else 0))}]))
    for ch in CHAINS + [[], ["contains"]]:
        out.append(mk_pure(rng, ch, [{"o": 5}]))
        out.append(mk_pure(rng, ch, [{"s": "ab"}, {"s": "Zc"}]))
        out.append(mk_pure(rng, ch, [{"s": "ab"}, {"s": "ab"}]))
    for _ in range(40 if quick else 1500):
        n = rng.choice([1, 2, 3, 4, 5, 7, 12, 25])
        out.append(mk_pure(rng, rng.choice(CHAINS * 3 + CHAINS_C), [{"s": rand_payload(rng, n)}]))
    return out


def pure_to_coq(c, r):
    if "exc" in r: return None
    vs = []
    for name, mods, pls, res in r["views"]:
        o = coutcome(res)
        if o is None: return None
        vs.append(f"({cmods(mods)}, {cpayloads(pls)}, {o})")
    return f"({csur(c['sur'])}, {clist(vs)})"


def known_pure(c, r):
    if "exc" in r: return None
    for name, mods, pls, res in r["views"]:   # D9 shows in every view in which the utf16 modifier accepted the value
        k = known_chain({"mods": mods}, res)
        if k: return k
    return None


def py_oracle_pure(c, r):
    if "exc" in r: return "harness failure: " + str(r)
    for name, mods, pls, res in r["views"]:
        msg = py_oracle_chain({"mods": mods, "payloads": pls, "sur": c["sur"]}, res)
        if msg: return f"view {name}: {msg}"
    return None


def mutate_pure(c, rng):
    return [mk_pure(rng, m["mods"], m["payloads"]) for m in mutate_chain(c, rng)]


REQ = ["Base.Chars", "Base.Outcome", "Model.SString", "Spec.Items", "Spec.Utf", "Spec.B64", "Model.Enc", "Run.C04run"]
PROPERTY = Property(
    pid="C04", props_file="Props/C04.v",
    suites=[Suite("chain", gen_chain, "run_chain", REQ, "judge_chain", chain_to_coq, known=known_chain,
                  mutate=mutate_chain, py_oracle=py_oracle_chain, stratum=stratum_chain, shard=150),
            Suite("pure", gen_pure, "run_pure", REQ, "judge_pure", pure_to_coq, known=known_pure,
                  mutate=mutate_pure, py_oracle=py_oracle_pure, stratum=stratum_chain, shard=100)],
    rule="payloads over the tokens {a Z - \\* é € U+0100 U+2A00} exhaustive up to 2 tokens (quick) / 3 tokens (thorough) on the 11 chains "
         "[wide|utf16be|utf16]?[base64|base64offset]?, one token more exhaustively for base64offset (thorough: and wide|base64offset) and sampled for the others, "
         "a sample with |contains, 70 hostile characters/strings (wildcards, "
         "backslashes, surrogates, astral characters whose UTF-16 bytes are valid UTF-8, BOM, padding characters) on the 11 chains plus 8 of (quick) / all (thorough) 27 further chains incl. |contains and odd orders, "
         "158 strings with high / low surrogates (lone, wrong order, next to ASCII, non-ASCII and non-BMP characters; the range U+DC80..U+DCFF of the "
         "surrogateescape handler completely in quick, every surrogate code point in thorough) which must be rejected by every encoding chain, "
         "non-string values, value lists, random payloads up to 40 tokens; for base64offset every case carries 36 surroundings "
         "(prefix length 0..5 x suffix length 0..5, bytes random / boundary / spaces / taken from the payload). "
         "Suite pure: for a subset of these (all single tokens x 22 chains, two/three-token words, the hostile strings, lists, random) the chain is observed eight ways - "
         "from_mapping, original_value afterwards, to_plain() + from_mapping again, two detection items over the same SigmaString objects, those objects afterwards, "
         "the same object twice in one value list, the same modifier object applied twice - and every observation must equal a fresh application (model) and satisfy the specification. "
         "non-trivial = non-empty string payload under a non-empty chain; distinct by (suite, case hash)",
    assumptions=["base64.b64encode, str.encode('utf-8'/'utf-16le'/'utf-16be') and bytes.decode('utf-8') of CPython are modelled by "
                 "Model.Enc.b64 / py_encode / utf8_dec; the statement about them is validated by the correspondence runs only",
                 "chains outside [wide|utf16be|utf16]?[base64|base64offset]?[contains]? are compared with the model only (the property is silent about them)",
                 "purity (a modifier does not change the value object it is applied to) is a property of the Python objects; the model is a pure function, so it is "
                 "established for the real code by the correspondence suite 'pure' only; the to_plain() reload view is skipped for payloads in the class of C05's finding D10"],
)
