"""C11: (rule set, filter set) pairs x draws of the random prefix.

A case is a list of documents (detection rules, correlation rules, filters) plus how random.choices
behaves (a random.seed value, or a forced list of draws). Every detection (of a rule or a filter) is
the single item  d<k>: <k>  with a case-wide unique k, so that a leaf of a postprocessed condition
tree names the detection OBJECT it came from. The implementation side (impl/c11.py) loads the
documents with the real SigmaCollection twice (filters collected only / applied) and returns
detection maps, condition strings and condition trees; the Coq judge (coq/Run/C11run.v) compares
with the model (bit 1) and evaluates the specification on the implementation's output (bit 2)."""
import copy, itertools, json, random, re, uuid
from vlib.core import Property, Suite, cstr, clist, cbool, copt, cnat, cZ

IDS = ["6f3e2987-db24-4c78-a860-b4f4095a7095", "df0841c0-9846-4e9f-ad8a-7df91571771b",
       "0f3e2987-db24-4c78-a860-b4f4095a7000"]
UUIDISH_NAME = "deadbeefdeadbeefdeadbeefdeadbeef"      # a rule NAME that uuid.UUID() accepts
KEYWORDS = {"not", "and", "or", "all", "any", "of", "1"}

RNAMES = ["sel", "selection", "sel_a", "sel_b", "filter", "flt", "flt_a", "x1", "other"]
RNAMES_HOSTILE = ["not-local", "all-hosts", "1-a", "notepad", "android", "or_x", "ofx", "all_x", "them2", "1st", "_priv", "-d", "Not", "4",
                  "_filt_aaaaaaaaaa_flt", "_filt_aaaaaaaaaa", "_f"]
FNAMES = ["flt", "filter", "sel", "selection", "sel_a", "flt_a", "flt_b", "fp"]
FNAMES_HOSTILE = ["not-local", "all-hosts", "1-a", "of-x", "any-thing", "or-else", "notepad", "android", "order", "ofx", "all_x", "them2", "Them", "1st", "4", "_u", "-d", "a-b",
                  "Not", "AND", "all", "any", "of", "1", "them", "Or"]
RPATS = ["them", "*", "sel*", "*_a", "s*l*", "fl*", "*lt*", "x*", "sel_*"]
RPATS_HOSTILE = ["_*", "_f*", "_filt_a*", "_p*", "*_flt", "not*", "or*", "all*", "1*"]
FPATS = ["them", "*", "fl*", "flt_*", "*_a", "sel*", "*lt*", "f*", "s*"]
FPATS_HOSTILE = ["_*", "1*", "*d", "not*", "or*", "and*", "all*", "of*", "any*", "all", "Th*"]


# --------------------------------------------------------------------------------------------------
# condition expressions
def gen_expr(rng, names, pats, depth, pnot=0.25):
    r = rng.random()
    if depth == 0 or r < 0.3:
        if rng.random() < 0.3:
            return ["sel", rng.choice(["1", "any", "all"]), rng.choice(pats)]
        return ["id", rng.choice(names)]
    if r < 0.3 + pnot:
        return ["not", gen_expr(rng, names, pats, depth - 1, pnot)]
    op = "and" if r < 0.8 else "or"
    return [op, [gen_expr(rng, names, pats, depth - 1, pnot) for _ in range(rng.choice([2, 2, 3]))]]


def spell(e, rng=None, top=True):
    """text of an expression; with rng: redundant parentheses and irregular blanks"""
    def sp():
        return " " if rng is None else rng.choice([" ", " ", " ", "  ", "\t"])
    def par(s):
        return "(" + s + ")" if rng is None or rng.random() < 0.8 else "( " + s + " )"
    if e[0] == "id":
        s = e[1]
    elif e[0] == "sel":
        s = e[1] + sp() + "of" + sp() + e[2]
    elif e[0] == "not":
        a = spell(e[1], rng, False)
        s = "not" + sp() + (a if e[1][0] in ("id", "sel") else par(a))
    else:
        s = (sp() + e[0] + sp()).join(
            spell(a, rng, False) if a[0] in ("id", "sel", "not") else par(spell(a, rng, False))
            for a in e[1])
    if rng is not None and rng.random() < 0.1:
        s = par(s)
    return s


# --------------------------------------------------------------------------------------------------
# documents
class Ctr:
    def __init__(self):
        self.k = 0
    def next(self):
        self.k += 1
        return self.k - 1


def det_body(k):
    return {"d%d" % k: k}


def mk_rule(title, ls, dets, conds, rid=None, name=None):
    d = {"title": title, "logsource": ls, "detection": dict(dets)}
    d["detection"]["condition"] = conds if len(conds) > 1 else conds[0]
    if rid:
        d["id"] = rid
    if name:
        d["name"] = name
    return d


def mk_filter(title, ls, dets, cond, rules):
    f = {"title": title, "logsource": ls, "filter": dict(dets)}
    f["filter"]["rules"] = rules
    f["filter"]["condition"] = cond
    return f


def mk_corr(title, refname):
    return {"title": title, "name": title + "_n",
            "correlation": {"type": "event_count", "rules": [refname], "group-by": ["u"], "timespan": "5m",
                            "condition": {"gte": 2}}}


# --------------------------------------------------------------------------------------------------
# documents that yield several rules: collection actions, shared objects
def deep_update(dest, src):
    for k, v in src.items():
        if isinstance(v, dict):
            d = dest.get(k)
            dest[k] = deep_update(d if isinstance(d, dict) else {}, v)
        else:
            dest[k] = v
    return dest


def materialize(docs):
    """{"$same_as": i} stands for the SAME dict object as docs[i]; {"$cond_of": i} as the value of
    detection.condition stands for the SAME list object as docs[i]'s condition (JSON cannot say that)"""
    out = []
    for d in docs:
        if "$same_as" in d:
            out.append(out[d["$same_as"]])
            continue
        d = copy.deepcopy(d)
        det = d.get("detection")
        if isinstance(det, dict) and isinstance(det.get("condition"), dict) and "$cond_of" in det["condition"]:
            det["condition"] = out[det["condition"]["$cond_of"]]["detection"]["condition"]
        out.append(d)
    return out


def effective_docs(docs):
    """the rule / filter documents a collection is made of, after the collection actions
    (global: template merged over every following rule, template wins; reset; repeat: previous rule
    updated with the document) - what 'the source documents' of a rule are, per rule, own copies.
    SPECIFICATION: templates and repeats act on detection-rule documents only. A filter (and a correlation)
    document is taken exactly as written - it keeps the log source and the rule list it declares, wherever it
    stands in the stream - and it does not become the 'previous rule' of a following repeat."""
    out, glob_, prev = [], {}, {}
    for d in materialize(docs):
        d = copy.deepcopy(d)
        a = d.get("action")
        if a is None:
            if "correlation" in d or "filter" in d:
                out.append(d)
            else:
                m = deep_update(d, copy.deepcopy(glob_))
                out.append(copy.deepcopy(m))
                prev = m
        elif a == "global":
            del d["action"]
            glob_ = d
            prev = copy.deepcopy(d)
        elif a == "reset":
            glob_ = {}
        elif a == "repeat":
            prev = deep_update(prev, d)
            out.append(copy.deepcopy(prev))
    return out


LS_ATTRS = [None, "a", "b"]


def all_ls():
    out = []
    for c, p, s in itertools.product(LS_ATTRS, [None, "a", "b"], [None, "a"]):
        if c is None and p is None and s is None:
            continue
        d = {}
        if c: d["category"] = c
        if p: d["product"] = p
        if s: d["service"] = s
        out.append(d)
    return out


def gen_ls_pair(rng):
    r = rng.choice(all_ls())
    x = rng.random()
    if x < 0.45:        # filter's is a sub-specification of the rule's
        keys = [k for k in r if rng.random() < 0.6] or [rng.choice(list(r))]
        f = {k: r[k] for k in keys}
    elif x < 0.6:
        f = dict(r)
    else:
        f = rng.choice(all_ls())
    if rng.random() < 0.1:
        r = dict(r, definition="some text")
    if rng.random() < 0.1:
        f = dict(f, definition=rng.choice(["some text", "other"]))
    return r, f


def gen_refs(rng, rule_docs):
    """filter.rules value; mostly naming an existing rule"""
    x = rng.random()
    ids = [d["id"] for d in rule_docs if "id" in d]
    nms = [d["name"] for d in rule_docs if "name" in d]
    if x < 0.35:
        return rng.choice(["any", "any", "ANY", "Any", []])
    pool = ids + nms + ["no_such_rule", IDS[2], IDS[0].upper(), "{" + IDS[0] + "}", IDS[1].replace("-", ""),
                        "urn:uuid:" + IDS[0], UUIDISH_NAME]
    if x < 0.45:
        return rng.choice(pool)                       # single string reference
    if x < 0.5:
        return [rng.choice([0, -1, 1, 5])]            # YAML number
    return [rng.choice(pool) for _ in range(rng.choice([1, 1, 2, 3]))]


def own_pats(rng, names, pool):
    """patterns that select something among the given names, plus a few from the pool"""
    out = ["them", "*"]
    for n in names:
        k = rng.randint(1, max(1, len(n) - 1))
        out.append(n[:k] + "*")
        out.append("*" + n[-rng.randint(1, 2):])
    out = [p for p in out if re.fullmatch(r"[A-Za-z0-9_*]+", p)]
    return out + rng.sample(pool, 3)


def gen_pair(rng, hostile):
    ctr = Ctr()
    rn_pool = RNAMES + (RNAMES_HOSTILE if hostile else [])
    fn_pool = FNAMES + (FNAMES_HOSTILE if hostile else [])
    rp_pool = RPATS + (RPATS_HOSTILE if hostile and rng.random() < 0.5 else [])
    fp_pool = FPATS + (FPATS_HOSTILE if hostile and rng.random() < 0.5 else [])
    nrules = rng.choice([1, 1, 1, 2, 3])
    nfilters = rng.choice([1, 1, 2, 2, 3]) if rng.random() < 0.9 else 0
    rules, filters, lss = [], [], []
    fnames_all = [rng.sample(fn_pool, rng.randint(1, 3 if nfilters < 3 else 2)) for _ in range(nfilters)]
    flat_fnames = [n for ns in fnames_all for n in ns]
    for i in range(nrules):
        names = rng.sample(rn_pool, rng.choice([1, 2, 2, 3, 3, 4]))
        dets = {n: det_body(ctr.next()) for n in names}
        nconds = 1 if rng.random() < 0.85 else 2
        # the rule's patterns are drawn from its own names AND the filters' names (capture needs the overlap)
        conds = [spell(gen_expr(rng, names, own_pats(rng, names + flat_fnames, rp_pool), rng.choice([0, 1, 1, 2])), rng)
                 for _ in range(nconds)]
        if hostile and rng.random() < 0.04:
            conds[0] = rng.choice([names[0] + ") or (" + names[-1], "(" + names[0], names[0] + " and", "1 of nomatch*",
                                   names[0] + " | count() > 1", names[0] + " and 1 of zz*"])
        rls, fls = gen_ls_pair(rng)
        lss.append(fls)
        rid = IDS[i] if rng.random() < 0.7 else None
        name = rng.choice(["rule_%d" % i, "rule_%d" % i, UUIDISH_NAME]) if rng.random() < 0.6 else None
        rules.append(mk_rule("r%d" % i, rls, dets, conds, rid, name))
    for j in range(nfilters):
        names = fnames_all[j]
        dets = {n: det_body(ctr.next()) for n in names}
        cond = spell(gen_expr(rng, names, own_pats(rng, names, fp_pool), rng.choice([0, 1, 1, 2]), pnot=0.4), rng)
        fls = rng.choice(lss) if rng.random() < 0.8 else rng.choice(all_ls())
        filters.append(mk_filter("f%d" % j, fls, dets, cond, gen_refs(rng, rules)))
    docs = rules + filters
    named = [d for d in rules if "name" in d and d["name"] != UUIDISH_NAME]
    if named and rng.random() < 0.15:
        docs.append(mk_corr("c0", named[0]["name"]))
    if rng.random() < 0.3:
        rng.shuffle(docs)
        # a correlation rule may stand before the rule it refers to; from_dicts resolves after loading
    return docs, ctr.k


# ---- exhaustive small part: overlapping names on both sides ----
X_RCONDS = ["sel", "sel and flt", "1 of them", "all of them", "1 of sel*", "sel or not flt", "1 of *", "not 1 of fl*"]
X_FCONDS = ["not flt", "flt", "not 1 of them", "all of them", "1 of fl*", "not 1 of *lt", "sel and not flt",
            "not (sel or flt)", "1 of sel*"]


def small_pairs():
    out = []
    for rc, fc in itertools.product(X_RCONDS, X_FCONDS):
        r = mk_rule("r0", {"category": "a", "product": "b"}, {"sel": det_body(0), "flt": det_body(1)}, [rc], IDS[0], "rule_0")
        f = mk_filter("f0", {"category": "a"}, {"flt": det_body(2), "sel": det_body(3)}, fc, "any")
        out.append(([r, f], 4))
    return out


def ls_pairs():
    """log sources in all subset relations x every way of naming the rule"""
    out = []
    lss = all_ls()
    for rls in lss:
        for fls in lss:
            r = mk_rule("r0", rls, {"sel": det_body(0)}, ["sel"], IDS[0], "rule_0")
            f = mk_filter("f0", fls, {"flt": det_body(1)}, "not flt", "any")
            out.append(([r, f], 2))
    for refs in ["any", "ANY", [], IDS[0], [IDS[0]], ["rule_0"], "rule_0", [IDS[1]], ["nope"], ["nope", "rule_0"],
                 [IDS[0].upper()], [IDS[0].replace("-", "")], ["{" + IDS[0] + "}"], [0], [-1], [1], [UUIDISH_NAME]]:
        for rid, name in [(IDS[0], "rule_0"), (None, "rule_0"), (IDS[0], None), (None, None), (IDS[1], UUIDISH_NAME)]:
            r = mk_rule("r0", {"category": "a"}, {"sel": det_body(0)}, ["sel"], rid, name)
            f = mk_filter("f0", {"category": "a"}, {"flt": det_body(1)}, "not flt", refs)
            out.append(([r, f], 2))
    return out


def hostile_pairs():
    """one fixed pair per defect class / boundary named in DESIGN section 7 C11"""
    out = []
    def pair(rdets, rcond, fdets, fcond):
        ctr = Ctr()
        r = mk_rule("r0", {"category": "a"}, {n: det_body(ctr.next()) for n in rdets}, [rcond], IDS[0], "rule_0")
        f = mk_filter("f0", {"category": "a"}, {n: det_body(ctr.next()) for n in fdets}, fcond, "any")
        out.append(([r, f], ctr.k))
    pair(["sel"], "sel", ["1st"], "not 1st")                       # D14 (repaired)
    pair(["sel"], "sel", ["_u"], "not _u")
    pair(["sel"], "sel", ["-d"], "not -d")
    pair(["sel"], "sel", ["4"], "not 4")
    pair(["_s"], "1 of _*", ["flt"], "not flt")                     # D15 (same truth table here: (a or b) and not b)
    pair(["_s"], "not 1 of _*", ["flt"], "flt")                     # D15 witness of C11_underscore_capture_refuted
    pair(["_s", "sel"], "sel and not 1 of _*", ["flt"], "flt")
    pair(["sel", "Not"], "sel", ["Not"], "Not")                     # keyword-named filter detection (capture)
    pair(["sel"], "sel", ["all"], "not all")
    pair(["sel"], "sel", ["them", "x"], "not them")
    pair(["sel"], "sel", ["1", "x"], "not 1")
    pair(["sel", "Them"], "sel", ["Them", "x"], "not Them")          # 'them' is matched case-sensitively
    pair(["sel"], "sel", ["ANDY", "nota"], "not ANDY or nota")
    pair(["sel"], "sel", ["_u", "v"], "not 1 of them")              # underscore rule inside the filter
    pair(["sel"], "sel", ["_u", "v"], "all of *")
    pair(["a", "b"], "a) or (b", ["flt"], "not flt")                # unbalanced rule condition
    # keyword directly followed by '-', '*' or a digit, lower and upper case, also colliding with a rule detection
    pair(["sel", "not-local"], "sel and not-local", ["not-local"], "not not-local")
    pair(["sel"], "sel", ["all-hosts"], "not all-hosts")
    pair(["sel", "1-a"], "sel", ["1-a"], "not 1-a")
    pair(["sel", "or-x"], "sel or or-x", ["or-x", "of-y"], "not (or-x or of-y)")
    pair(["sel", "and-z", "any-q"], "sel", ["and-z", "any-q"], "not and-z and not any-q")
    pair(["sel", "or_r", "orx"], "sel", ["or_f", "orx"], "not 1 of or*")
    pair(["notx", "not1"], "notx", ["not1", "nota"], "all of not*")
    pair(["sel", "all_r"], "sel", ["all_f", "any_f"], "not (1 of all* or any of any*)")
    pair(["sel", "of1"], "sel", ["of1", "1x"], "not 1 of of* and not 1 of 1*")
    pair(["sel", "NOT-x"], "sel", ["NOT-x", "And-y"], "not NOT-x and And-y")
    pair(["sel", "Or-1"], "sel", ["Or-1", "ALL-2", "Any3", "OF4"], "not (Or-1 or ALL-2 or Any3 or OF4)")
    pair(["sel", "any1", "12"], "sel", ["any1", "all2", "of3", "12", "not4", "and5", "or6"],
         "not (any1 or all2 or of3 or 12) and not4 and and5 and or6")
    pair(["sel", "Not9"], "sel", ["Not9", "OR8"], "not 1 of Not* and not 1 of OR*")
    pair(["sel"], "sel", ["notepad"], "not notepad")                # operator-word prefixes
    pair(["notepad"], "notepad", ["flt"], "not flt")
    pair(["_filt_aaaaaaaaaa_flt", "sel"], "sel", ["flt"], "not flt")   # prefix in use (forced draw)
    pair(["_filt_aaaaaaaaaa", "sel"], "sel", ["flt"], "not flt")
    pair(["sel"], "1 of them", ["flt"], "not flt")
    pair(["sel", "selection_x"], "1 of selection*", ["selection_f"], "not 1 of selection*")
    # two stacked filters with the same detection names (forced equal draws)
    r = mk_rule("r0", {"category": "a"}, {"sel": det_body(0)}, ["sel"], IDS[0], "rule_0")
    f1 = mk_filter("f0", {"category": "a"}, {"flt": det_body(1)}, "not flt", "any")
    f2 = mk_filter("f1", {"category": "a"}, {"flt": det_body(2)}, "not 1 of fl*", "any")
    out.append(([r, f1, f2], 3))
    f3 = mk_filter("f2", {"category": "a"}, {"flt": det_body(3), "x": det_body(4)}, "not 1 of them", ["rule_0"])
    out.append(([r, f1, f2, f3], 5))
    return out


def shared_pairs(rng=None, n=0):
    """several rules out of one document / one list object, filters that target several of them"""
    out = []
    ls = {"category": "a", "product": "b"}
    flt = lambda j, k, cond, rules="any": mk_filter("f%d" % j, {"category": "a"}, {"flt": det_body(k)}, cond, rules)
    for listy in (True, False):
        cond = (lambda c: [c]) if listy else (lambda c: c)
        # action: global with the condition in the template
        g = {"action": "global", "logsource": ls, "detection": {"sel": det_body(0), "condition": cond("sel")}}
        r1 = {"title": "r0", "id": IDS[0], "name": "rule_0", "detection": {"a": det_body(1)}}
        r2 = {"title": "r1", "id": IDS[1], "name": "rule_1", "detection": {"b": det_body(2)}}
        r3 = {"title": "r2", "detection": {"c": det_body(3)}}
        out.append(([g, r1, r2, flt(0, 4, "not flt")], 5))
        out.append(([g, r1, r2, r3, flt(0, 4, "not flt"), flt(1, 5, "not 1 of fl*", ["rule_0", "rule_1"])], 6))
        g2 = {"action": "global", "logsource": ls, "detection": {"sel": det_body(0), "condition": cond("1 of them")}}
        out.append(([g2, r1, r2, flt(0, 4, "not 1 of them")], 5))
        g3 = {"action": "global", "logsource": ls, "detection": {"sel": det_body(0), "condition": ["sel", "not sel"]}}
        out.append(([g3, r1, r2, flt(0, 4, "not flt")], 5))
        out.append(([g, r1, {"action": "reset"}, mk_rule("r1", ls, {"b": det_body(2)}, ["b"], IDS[1], "rule_1"), flt(0, 4, "not flt")], 5))
        # action: repeat
        full = {"title": "r0", "name": "rule_0", "logsource": ls, "detection": {"sel": det_body(0), "condition": cond("sel")}}
        rep = {"action": "repeat", "title": "r1", "name": "rule_1", "detection": {"x": det_body(1)}}
        rep2 = {"action": "repeat", "title": "r2", "name": "rule_2", "detection": {"y": det_body(2), "condition": cond("sel and y")}}
        out.append(([full, rep, flt(0, 4, "not flt")], 5))
        out.append(([full, rep, rep2, flt(0, 4, "not flt"), flt(1, 5, "flt", ["rule_1", "rule_2"])], 6))
        # one dict object twice; one condition list object in two documents
        one = mk_rule("r0", ls, {"sel": det_body(0)}, ["sel"], IDS[0], "rule_0")
        one["detection"]["condition"] = cond("sel")
        out.append(([one, {"$same_as": 0}, flt(0, 4, "not flt")], 5))
        if listy:
            two = mk_rule("r1", ls, {"sel": det_body(1), "t": det_body(2)}, ["sel"], IDS[1], "rule_1")
            two["detection"]["condition"] = {"$cond_of": 0}
            out.append(([one, two, flt(0, 4, "not flt")], 5))
            out.append(([one, two, flt(0, 4, "not flt"), flt(1, 5, "not 1 of them")], 6))
    # random ones
    for _ in range(n):
        ctr = Ctr()
        common = rng.sample(RNAMES, rng.randint(1, 2))
        cdets = {nm: det_body(ctr.next()) for nm in common}
        nr = rng.choice([2, 2, 3])
        owns = [rng.sample([x for x in RNAMES + RNAMES_HOSTILE[:6] if x not in common], rng.randint(0, 2)) for _ in range(nr)]
        allnames = common + [x for o in owns for x in o]
        conds = [spell(gen_expr(rng, common, own_pats(rng, allnames, RPATS), rng.choice([0, 1, 2])), rng)
                 for _ in range(rng.choice([1, 1, 2]))]
        cval = conds if (len(conds) > 1 or rng.random() < 0.8) else conds[0]
        shape = rng.choice(["global", "global", "repeat", "same", "condlist"])
        docs = []
        if shape == "global":
            docs.append({"action": "global", "logsource": ls, "detection": dict(cdets, condition=cval)})
            for i in range(nr):
                docs.append({"title": "r%d" % i, "name": "rule_%d" % i, "detection": {nm: det_body(ctr.next()) for nm in owns[i]} or dict(cdets)})
        elif shape == "repeat":
            docs.append({"title": "r0", "name": "rule_0", "logsource": ls, "detection": dict(cdets, condition=cval)})
            for i in range(1, nr):
                docs.append({"action": "repeat", "title": "r%d" % i, "name": "rule_%d" % i,
                             "detection": {nm: det_body(ctr.next()) for nm in owns[i]}})
        elif shape == "same":
            docs.append({"title": "r0", "name": "rule_0", "logsource": ls, "detection": dict(cdets, condition=cval)})
            docs += [{"$same_as": 0}] * (nr - 1)
        else:
            docs.append({"title": "r0", "name": "rule_0", "logsource": ls, "detection": dict(cdets, condition=cval if isinstance(cval, list) else [cval])})
            for i in range(1, nr):
                d = dict(cdets)
                d.update({nm: det_body(ctr.next()) for nm in owns[i]})
                docs.append({"title": "r%d" % i, "name": "rule_%d" % i, "logsource": ls, "detection": dict(d, condition={"$cond_of": 0})})
        for j in range(rng.choice([1, 1, 2])):
            fn = rng.sample(FNAMES + FNAMES_HOSTILE[:6], rng.randint(1, 2))
            fd = {nm: det_body(ctr.next()) for nm in fn}
            fc = spell(gen_expr(rng, fn, own_pats(rng, fn, FPATS), rng.choice([0, 1, 1]), pnot=0.5), rng)
            refs = rng.choice(["any", "any", ["rule_0", "rule_1"], ["rule_1"], []])
            docs.append(mk_filter("f%d" % j, rng.choice([{"category": "a"}, ls, {"product": "b"}]), fd, fc, refs))
        out.append((docs, ctr.k))
    return out


def stream_pairs(rng=None, n=0):
    """filter documents INSIDE streams with collection actions: behind templates whose log source / other
    attributes differ from the filter's, between repeat documents, before and after reset, with rules in
    front of and behind the template. A filter document is never merged with a template: it keeps exactly
    the log source and the rule list it declares (effective_docs leaves filter documents untouched)."""
    out = []
    def rule(i, ls, k, extra=None):
        d = mk_rule("r%d" % i, ls, {"sel": det_body(k)}, ["sel"], None, "rule_%d" % i)
        d.update(extra or {})
        return d
    def flt(j, ls, k, rules="any", cond="not flt"):
        return mk_filter("f%d" % j, ls, {"flt": det_body(k)}, cond, rules)
    lin, win, cat = {"category": "a", "product": "l"}, {"product": "w"}, {"category": "a"}
    # the exposing stream: linux rule, template product: w, rule with the category only, filter {category}
    out.append(([rule(0, lin, 0), {"action": "global", "logsource": win}, rule(1, cat, 1), flt(0, cat, 2)], 3))
    out.append(([rule(0, lin, 0), {"action": "global", "logsource": win}, flt(0, cat, 2), rule(1, cat, 1)], 3))
    out.append(([{"action": "global", "logsource": win}, flt(0, cat, 2), rule(0, lin, 0), rule(1, cat, 1)], 3))
    out.append(([rule(0, lin, 0), {"action": "global", "logsource": {"category": "b"}}, rule(1, cat, 1), flt(0, cat, 2, ["rule_0"])], 3))
    out.append(([rule(0, lin, 0), {"action": "global", "logsource": {"service": "s"}, "status": "test", "description": "tpl"},
                 rule(1, cat, 1), flt(0, lin, 2), flt(1, {"service": "s"}, 3, "any", "not 1 of them")], 4))
    # template that carries a detection and a condition
    out.append(([rule(0, lin, 0), {"action": "global", "logsource": win, "detection": {"g": det_body(4), "condition": "1 of them"}},
                 rule(1, cat, 1), flt(0, cat, 2), rule(2, lin, 3)], 5))
    # before and after reset
    out.append(([{"action": "global", "logsource": win}, rule(0, cat, 0), flt(0, cat, 2), {"action": "reset"}, rule(1, lin, 1), flt(1, lin, 3)], 4))
    out.append(([{"action": "global", "logsource": win}, rule(0, cat, 0), {"action": "reset"}, flt(0, cat, 2), rule(1, lin, 1)], 3))
    # between repeat documents
    rep = lambda i, k: {"action": "repeat", "title": "r%d" % i, "name": "rule_%d" % i, "detection": {"rep%d" % i: det_body(k)}}
    out.append(([rule(0, lin, 0), rep(1, 1), flt(0, cat, 3), rep(2, 2), flt(1, lin, 4, ["rule_2", "rule_0"])], 5))
    out.append(([{"action": "global", "logsource": win}, rule(0, cat, 0), flt(0, cat, 3), rep(1, 1), rule(2, lin, 2)], 4))
    for _ in range(n):
        ctr = Ctr()
        docs, nr, nf, have_rule = [], 0, 0, False
        for _ in range(rng.randint(4, 8)):
            x = rng.random()
            if x < 0.4 or not docs:
                ls = rng.choice(all_ls())
                names = rng.sample(RNAMES, rng.randint(1, 2))
                cond = spell(gen_expr(rng, names, own_pats(rng, names, RPATS), rng.choice([0, 1])), rng)
                d = mk_rule("r%d" % nr, ls, {nm: det_body(ctr.next()) for nm in names}, [cond], None, "rule_%d" % nr)
                if rng.random() < 0.3:
                    d["detection"]["condition"] = [cond]
                docs.append(d); nr += 1; have_rule = True
            elif x < 0.55:
                t = {"action": "global", "logsource": rng.choice(all_ls())}
                if rng.random() < 0.3:
                    t["status"] = "test"
                if rng.random() < 0.25:
                    t["detection"] = {"g": det_body(ctr.next()), "condition": rng.choice(["1 of them", "g", ["all of them"]])}
                docs.append(t); have_rule = False
            elif x < 0.62:
                docs.append({"action": "reset"})
            elif x < 0.72 and have_rule:
                docs.append({"action": "repeat", "title": "r%d" % nr, "name": "rule_%d" % nr,
                             "detection": {"rep%d" % nr: det_body(ctr.next())}})
                nr += 1
            elif nf < 3 and ctr.k < 9:
                fn = rng.sample(FNAMES, rng.randint(1, 2))
                fc = spell(gen_expr(rng, fn, own_pats(rng, fn, FPATS), rng.choice([0, 1]), pnot=0.5), rng)
                refs = rng.choice(["any", "any", "any", ["rule_0", "rule_1"], ["rule_%d" % max(0, nr - 1)], []])
                docs.append(mk_filter("f%d" % nf, rng.choice(all_ls()[:12] + [{"category": "a"}, {"product": "a"}]),
                                      {nm: det_body(ctr.next()) for nm in fn}, fc, refs))
                nf += 1
        if nr and nf:
            out.append((docs, ctr.k))
    return out


FORCED = ["aaaaaaaaaa", "aaaaaaaaaa", "aaaaaaaaaa", "bbbbbbbbbb", "bbbbbbbbbb", "cccccccccc"]


def gen_apply(tier, rng):
    pairs = small_pairs() + ls_pairs() + hostile_pairs() + shared_pairs(rng, 30 if tier == "quick" else 250) \
        + stream_pairs(rng, 40 if tier == "quick" else 300)
    n = 100 if tier == "quick" else 800
    for i in range(n):
        pairs.append(gen_pair(rng, hostile=(i % 2 == 1)))
    out = []
    nsmall, nfixed = len(small_pairs()), len(small_pairs()) + len(ls_pairs())
    for i, (docs, nobj) in enumerate(pairs):
        # 20 draws of the prefix per pair + one forced sequence with repeated values (+ collect_filters);
        # quick tier: the full 20 for the defect-class pairs, every 6th exhaustive pair and every 4th random
        # pair, 2 elsewhere (the draw only enters through the prefix string)
        nseeds = 20
        if tier == "quick":
            if i < nsmall:
                nseeds = 20 if i % 6 == 0 else 2
            elif i < nfixed:
                nseeds = 1
            elif i >= nfixed + len(hostile_pairs()):
                nseeds = 20 if i % 4 == 0 else 2
        elif nsmall <= i < nfixed:
            nseeds = 3            # the log-source / reference sweep does not depend on the draw
        runs = [{"seed": rng.randrange(10 ** 6) if s else 0} for s in range(nseeds)]
        runs.append({"seed": 0, "forced": FORCED})
        if i % 7 == 0:
            runs.append({"seed": 1, "collect": True})
        if i % 5 == 0:
            runs.append({"seed": 2, "explicit": True})      # collect_filters=True, then apply_filters(filters)
        out.append({"docs": docs, "nobj": nobj, "runs": runs})
    return out


# --------------------------------------------------------------------------------------------------
# encoding into Coq
def cs(s):
    """ASCII string as a Coq string literal read by Run.C11run.S"""
    if all(32 <= ord(ch) < 127 for ch in s) and '"' not in s:
        return '(S "' + s + '")'
    return cstr(s)


def c_ls(ls):
    g = lambda k: copt(cs(ls[k]) if k in ls else None)
    return f"{{| ls_cat := {g('category')}; ls_prod := {g('product')}; ls_serv := {g('service')}; ls_def := {g('definition')} |}}"


def c_dets(d):
    return clist(f"({cs(n)}, {k})" for n, k in d)


def doc_dets(section):
    return [(n, int(next(iter(v)) [1:])) for n, v in section.items() if n not in ("condition", "rules")]


def c_rule(d):
    if "correlation" in d:
        return ("{| r_kind := KCorrelation; r_id := None; r_name := None; "
                "r_ls := {| ls_cat := None; ls_prod := None; ls_serv := None; ls_def := None |}; r_dets := []; r_conds := [] |}")
    det = d["detection"]
    conds = det["condition"] if isinstance(det["condition"], list) else [det["condition"]]
    rid = copt(str(uuid.UUID(d["id"]).int)) if "id" in d else "None"
    name = copt(cs(d["name"])) if "name" in d else "None"
    return (f"{{| r_kind := KDetection; r_id := {rid}; r_name := {name}; r_ls := {c_ls(d['logsource'])}; "
            f"r_dets := {c_dets(doc_dets(det))}; r_conds := {clist(cs(c) for c in conds)} |}}")


def c_ref(x):
    if isinstance(x, int):
        return f"RInt {cZ(x)}"
    try:
        u = str(uuid.UUID(x).int)
    except ValueError:
        u = None
    return f"RText {cs(x)} {copt(u)}"


def c_filter(d):
    flt = d["filter"]
    rules = flt["rules"]
    if isinstance(rules, str):
        fr = "FAny" if rules.lower() == "any" else f"FRefs [{c_ref(rules)}]"
    else:
        fr = "FAny" if not rules else "FRefs " + clist(c_ref(x) for x in rules)
    return (f"{{| f_ls := {c_ls(d['logsource'])}; f_rules := {fr}; f_dets := {c_dets(doc_dets(flt))}; "
            f"f_cond := {cs(flt['condition'])} |}}")


def c_tree(t):
    if t is None:
        return "None"
    return "(Some " + c_tree1(t) + ")"


def c_tree1(t):
    if t[0] == "leaf":
        return f"(DLeaf {t[1]})"
    if t[0] == "not":
        return f"(DNot {c_tree(t[1])})"
    if t[0] in ("and", "or"):
        return f"({'DAnd' if t[0] == 'and' else 'DOr'} {clist(c_tree(a) for a in t[1])})"
    raise ValueError(t)


def c_outcome(x):
    if "err" in x:
        return "(SigmaErr 4)" if x["sigma"] else "(Crash 1)"
    return f"(Ok {c_tree(x['tree'])})"


def c_view(v):
    if v["kind"] == "corr":
        return f"{{| v_dets := []; v_conds := []; v_trees := []; v_same := {cbool(v.get('same', True))} |}}"
    return (f"{{| v_dets := {c_dets(v['dets'])}; v_conds := {clist(cs(c) for c in v['conds'])}; "
            f"v_trees := {clist(c_outcome(t) for t in v['trees'])}; v_same := {cbool(v.get('same', True))} |}}")


WORD = re.compile(r"[A-Za-z0-9_*-]+")


def d6_sensitive(docs):
    """some word of a condition or some detection name begins with an operator word without being it
    (read differently before / after the repair of D6 in sigma/conditions.py)"""
    words = []
    for d in docs:
        sec = d.get("detection") or d.get("filter")
        if not sec:
            continue
        conds = sec["condition"] if isinstance(sec["condition"], list) else [sec["condition"]]
        for c in conds:
            words += WORD.findall(c)
        words += [n for n in sec if n not in ("condition", "rules")]
    return any(w.startswith(op) and w != op for w in words for op in ("not", "and", "or"))


def by_title(views, rules):
    """the view of every rule document: k-th document with a title <-> k-th view with that title"""
    pools = {}
    for v in views:
        pools.setdefault(v["title"], []).append(v)
    return [pools[d["title"]].pop(0) for d in rules]


def apply_to_coq(c, r):
    if "exc" in r:
        return None
    try:
        docs = effective_docs(c["docs"])
        rules = [d for d in docs if "filter" not in d]
        filters = [d for d in docs if "filter" in d]
        runs = []
        for spec_, res in zip(c["runs"], r["runs"]):
            runs.append("{| pr_collect := %s; pr_draws := %s; pr_out := %s |}" % (
                cbool(bool(spec_.get("collect"))), clist(cs(d) for d in res["draws"]),
                clist(c_view(v) for v in by_title(res["out"], rules))))
        return ("{| pc_rules := %s; pc_filters := %s; pc_src := %s; pc_ftrees := %s; pc_nobj := %s; pc_d6 := %s; "
                "pc_runs := %s |}" % (
                    clist(c_rule(d) for d in rules), clist(c_filter(d) for d in filters),
                    clist(c_view(v) for v in by_title(r["src"], rules)),
                    clist(c_outcome(t) for t in r["ftrees"]),
                    cnat(c["nobj"]), cbool(False), clist(runs)))
    except (ValueError, KeyError, AssertionError, IndexError):
        return None


# --------------------------------------------------------------------------------------------------
# known findings: predicates on the input class (and the draws the implementation made)
def glob(p, n):
    return re.fullmatch(re.escape(p).replace(r"\*", ".*"), n, re.S) is not None


def words(c):
    return WORD.findall(c)


def selector_patterns(c):
    w = words(c)
    return [w[i + 1] for i in range(len(w) - 1) if w[i] == "of" and i > 0 and w[i - 1] in ("1", "any", "all")]


def classify(c, r):
    docs = effective_docs(c["docs"])
    rules = [d for d in docs if "detection" in d]
    filters = [d for d in docs if "filter" in d]
    fnames = [n for f in filters for n in f["filter"] if n not in ("condition", "rules")]
    # filter detection whose name is a keyword of the rewrite (any case) or 'them'
    if any(n.lower() in KEYWORDS or n == "them" for n in fnames):
        return "C11-keyword-named-filter-detection"
    # a rule's own pattern beginning with '_' that matches a renamed filter detection
    draws = [d for run in (r or {}).get("runs", []) for d in run["draws"]] if isinstance(r, dict) else []
    renamed = ["_filt_" + d + "_" + n for d in draws for n in fnames] or ["_filt_aaaaaaaaaa_" + n for n in fnames]
    for d in rules:
        conds = d["detection"]["condition"]
        for cond in (conds if isinstance(conds, list) else [conds]):
            for p in selector_patterns(cond):
                if p.startswith("_") and any(glob(p, n) for n in renamed):
                    return "D15-rule-underscore-pattern-captures-filter-detections"
    # filter detection starting with '_' while the filter condition uses a selector
    for f in filters:
        if any(n.startswith("_") for n in f["filter"] if n not in ("condition", "rules")) and selector_patterns(f["filter"]["condition"]):
            return "C11-underscore-filter-detection-selected-after-renaming"
    # rule condition with unbalanced parentheses
    for d in rules:
        conds = d["detection"]["condition"]
        for cond in (conds if isinstance(conds, list) else [conds]):
            depth = 0
            for ch in cond:
                depth += ch == "("
                depth -= ch == ")"
                if depth < 0:
                    return "C11-unbalanced-rule-condition-completed-by-filter"
    return None


def known_apply(c, r):
    return classify(c, r)


def mutate_apply(c, rng):
    """neighbours: other filter conditions / names on the same rules"""
    out = []
    docs = c["docs"]
    if any("action" in d or "$same_as" in d or "$cond_of" in json.dumps(d) for d in docs):
        # rules out of one document: neighbours keep the shape, vary the filters
        for i, d in enumerate(docs):
            if "filter" in d:
                for cond, rules in [("not flt2", "any"), ("flt2", "any"), ("not 1 of them", "any")]:
                    nd = copy.deepcopy(docs)
                    nd[i] = mk_filter(d["title"], d["logsource"], {"flt2": det_body(c["nobj"])}, cond, rules)
                    out.append(dict(c, docs=nd, nobj=c["nobj"] + 1))
        return out
    for i, d in enumerate(docs):
        if "filter" not in d:
            continue
        names = [n for n in d["filter"] if n not in ("condition", "rules")]
        for cond in ["not " + names[0], "not 1 of them", "1 of " + names[0][:1] + "*", "all of them", names[0]]:
            nd = copy.deepcopy(docs)
            nd[i]["filter"]["condition"] = cond
            out.append(dict(c, docs=nd))
        nd = copy.deepcopy(docs)
        nd[i]["filter"]["rules"] = "any"
        nd[i]["logsource"] = next((x["logsource"] for x in docs if "detection" in x), nd[i]["logsource"])
        out.append(dict(c, docs=nd))
        # rule conditions whose patterns would match the filter's names if isolation failed
        for k, r in enumerate(docs):
            if "detection" not in r:
                continue
            for n in names:
                for cond in ["1 of *" + n[-2:], "not 1 of *_" + n.split("_")[-1], "all of " + n[:2] + "*", "1 of them", "not 1 of *"]:
                    if re.fullmatch(r"[A-Za-z0-9_* ]+", cond):
                        nd = copy.deepcopy(docs)
                        nd[k]["detection"]["condition"] = cond
                        nd[i]["filter"]["rules"] = "any"
                        nd[i]["logsource"] = r["logsource"]
                        out.append(dict(c, docs=nd))
    return out


def stratum(c, r):
    nf = sum(1 for d in c["docs"] if "filter" in d)
    shape = "plain"
    if any(d.get("action") in ("global", "repeat") for d in c["docs"]):
        shape = "collection actions"
    elif any("$same_as" in d for d in c["docs"]) or "$cond_of" in json.dumps(c["docs"]):
        shape = "shared objects"
    return "%s, %d filter(s), %d runs" % (shape, nf, len(c["runs"]))


REQ = ["Base.Chars", "Base.Outcome", "Model.FCondParse", "Model.FCond", "Model.Filter", "Spec.FilterSpec", "Run.C11run"]
SUITE = Suite("apply", gen_apply, "run", REQ, "judge_apply", apply_to_coq, known=known_apply, mutate=mutate_apply,
              stratum=stratum, shard=150)
SUITE.model_expr = "model_runs"      # printed by --replay
PROPERTY = Property(
    pid="C11", props_file="Props/C11.v",
    suites=[SUITE],
    rule="(rule set, filter set) pairs: exhaustive 8x9 rule/filter conditions over overlapping names {sel, flt} on both sides; "
         "all 17x17 log-source pairs over category/product/service in {absent,a,b}; 17 ways of writing filter.rules x 5 id/name settings; "
         "one fixed pair per defect class incl. filter/rule names and patterns that are a rewrite keyword followed by '-', '*' or a digit (both cases, colliding names); "
         "rules that come out of one document or share one condition list object (action: global / reset / repeat, the same dict twice, one list in two "
         "documents; list- and string-valued conditions) with filters targeting several of them, judged per rule against the documents after the collection "
         "actions (props effective_docs); filter documents inside such streams (behind templates with a different log source / extra attributes / a detection "
         "section, between repeat documents, before and after reset, rules in front of and behind the template; filters are never merged with a template); random pairs (1-3 rules, 0-3 stacked filters, conditions with identifiers/not/and/or/selectors "
         "incl. 'them' and prefix/suffix patterns, hostile names: operator/keyword prefixes, digit/underscore/dash initial, keyword names, "
         "a name that is itself a '_filt_..' prefix; correlation rules; shuffled document order); each pair under 20 random.seed values, "
         "one forced draw sequence with repeated values, and (every 7th) collect_filters=True. non-trivial = some filter applies to some rule; "
         "distinct by case hash",
    assumptions=["uuid.UUID(text) is computed by the harness and handed to the model (not modelled)",
                 "the condition reader of the model is the C02 model (copied as Model/FCondParse.v, Model/FCond.v), i.e. the grammar "
                 "after the Keyword repair of D6, which is in the tree under test (flag cs_d6 is always false now)",
                 "Python re.sub with the fixed pattern [a-zA-Z0-9*_-]+ is modelled by a direct scanner (Model/Filter.v rw), validated by the "
                 "correspondence only",
                 "detections are single items d<k>: <k>; sharing of detection objects between rules (D27) is outside this property's model"],
)
