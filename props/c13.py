import itertools, json, random
from vlib.core import Property, Suite, clist, cbool, copt, cZ
from vlib.core import cstr as cstr_list

import os, re as _re
_DICT = {}
with open(os.path.join(os.path.dirname(os.path.dirname(os.path.abspath(__file__))), "coq", "Run", "C13run.v")) as _f:
    for _m in _re.finditer(r'^Definition (y\d+) := q "((?:[^"]|"")*)"\.$', _f.read(), flags=_re.M):
        _DICT[_m.group(2).replace('""', '"')] = _m.group(1)

def cstr(s):
    """Coq term of type str: a dictionary constant of Run/C13run.v, a string literal, or a list of code points"""
    if s in _DICT:
        return _DICT[s]
    if all(32 <= ord(c) < 127 for c in s):
        return '(q "' + s.replace('"', '""') + '")'
    return cstr_list(s)

# =========================================================================================
# encoders: JSON case / implementation snapshot  ->  Coq terms of Model.PipeCond
# =========================================================================================
def ostr(x): return copt(cstr(x) if x is not None else None)
def cN(n): return str(int(n))

def c_pval(v):
    if v is None: return "PNull"
    if isinstance(v, bool): return f"(PBool {cbool(v)})"
    if isinstance(v, int): return f"(PNum {cZ(v)})"
    return f"(PStr {cstr(v)})"
def c_num(v):
    """a Python number: bool, int, or a float that is a multiple of 0.5"""
    if isinstance(v, bool): return f"(NBool {cbool(v)})"
    if isinstance(v, int): return f"(NInt {cZ(v)})"
    if isinstance(v, float) and float(int(v * 2)) == v * 2: return f"(NHalf {cZ(int(v * 2))})"
    raise ValueError(v)
def c_stval(v):
    if v is None: return "SNone"
    if isinstance(v, str): return f"(SStr {cstr(v)})"
    return f"(SNum {c_num(v)})"
def c_apar(v):
    if isinstance(v, str): return f"(QStr {cstr(v)})"
    return f"(QNum {c_num(v)})"
def c_aval_plain(v):
    if isinstance(v, str): return f"(AStr {cstr(v)})"
    return f"(ANum {c_num(v)})"
CMP = {"eq": "OEq", "ne": "ONe", "gte": "OGte", "gt": "OGt", "lte": "OLte", "lt": "OLt"}
AOP = {"eq": "AEq", "ne": "ANe", "gte": "AGte", "gt": "AGt", "lte": "ALte", "lt": "ALt", "in": "AIn", "not_in": "ANotIn"}
def c_rx(p):
    t = []
    for a in p:
        if isinstance(a, list): t.append(f"RLit {ord(a[1])}")
        else: t.append({"any": "RAny", "d": "RDigit", "star": "RStar", "end": "REnd", "bad": "RBad"}[a])
    return clist(t)
def c_all(c): return cbool(c["cond"] == "all")

def c_cond(kind, c):
    t = c["t"]
    if kind == "rule":
        if t == "logsource": return f"RLogsource {ostr(c.get('category'))} {ostr(c.get('product'))} {ostr(c.get('service'))}"
        if t == "contains_detection_item": return f"RContainsItem {ostr(c['field'])} {c_pval(c['value'])}"
        if t == "contains_field": return f"RContainsField {ostr(c['field'])}"
        if t == "processing_item_applied": return f"RApplied {cstr(c['processing_item_id'])}"
        if t == "processing_state": return f"RState {cstr(c['key'])} {c_stval(c['val'])} {CMP[c['op']]}"
        if t == "is_sigma_rule": return "RIsRule"
        if t == "is_sigma_correlation_rule": return "RIsCorr"
        if t == "rule_attribute": return f"RAttr {cstr(c['attribute'])} {c_apar(c['value'])} {AOP[c['op']]}"
        if t == "tag": return f"RTag {cstr(c['tag'])}"
    if kind == "det":
        if t == "match_string": return f"DMatchString {c_all(c)} {c_rx(c['pattern'])} {cbool(c['negate'])}"
        if t == "match_value": return f"DMatchValue {c_all(c)} {c_pval(c['value'])}"
        if t == "contains_wildcard": return f"DWildcard {c_all(c)}"
        if t == "is_null": return f"DIsNull {c_all(c)}"
        if t == "processing_item_applied": return f"DApplied {cstr(c['processing_item_id'])}"
        if t == "processing_state": return f"DState {cstr(c['key'])} {c_stval(c['val'])} {CMP[c['op']]}"
    if kind == "field":
        if t == "include_fields":
            return f"FIncludeRe {clist(c_rx(p) for p in c['patterns'])}" if "patterns" in c else f"FInclude {clist(cstr(f) for f in c['fields'])}"
        if t == "exclude_fields":
            return f"FExcludeRe {clist(c_rx(p) for p in c['patterns'])}" if "patterns" in c else f"FExclude {clist(cstr(f) for f in c['fields'])}"
        if t == "processing_item_applied": return f"FApplied {cstr(c['processing_item_id'])}"
        if t == "processing_state": return f"FState {cstr(c['key'])} {c_stval(c['val'])} {CMP[c['op']]}"
    raise ValueError((kind, c))

def c_group(kind, g):
    conds = [(k, c_cond(kind, c)) for k, c in g["conds"]]
    if g["form"] == "map":
        form = "(CMap " + clist(f"({cstr(k)}, {c})" for k, c in conds) + ")"
    else:
        form = "(CList " + clist(c for _, c in conds) + ")"
    link = copt({"and": "LAnd", "or": "LOr"}[g["link"]] if g["link"] else None)
    return f"(mkG {form} {link} {ostr(g['expr'])} {cbool(g['neg'])})"

def c_transf(tr):
    t = tr["type"]
    if t == "set_state": return f"(TSetState {cstr(tr['key'])} {c_stval(tr['val'])})"
    if t == "change_logsource": return f"(TChangeLogsource {ostr(tr.get('category'))} {ostr(tr.get('product'))} {ostr(tr.get('service'))})"
    if t == "set_custom_attribute": return f"(TSetAttr {cstr(tr['attribute'])} {c_aval_plain(tr['value'])})"
    if t == "set_value": return f"(TSetValue {c_sval_plain(tr['value'])})"
    if t == "field_name_suffix": return f"(TSuffix {cstr(tr['suffix'])})"
    if t == "field_name_prefix": return f"(TPrefix {cstr(tr['prefix'])})"
    if t == "field_name_mapping":
        m = clist(f"({cstr(k)}, {'MOne ' + cstr(v) if isinstance(v, str) else 'MMany ' + clist(cstr(x) for x in v)})" for k, v in tr["mapping"].items())
        return f"(TFieldMap {m})"
    raise ValueError(tr)

def c_sval_plain(v):
    if v is None: return "VNull"
    if isinstance(v, bool): return f"(VBool {cbool(v)})"
    if isinstance(v, int): return f"(VNum {cZ(v)})"
    return f"(VStr {cstr(v)})"

def c_item(it):
    return f"(mkI {cstr(it['id'])} {c_transf(it['tr'])} {c_group('rule', it['rule'])} {c_group('det', it['det'])} {c_group('field', it['field'])})"

# ---- source rule -> world -------------------------------------------------------------
LEVELS = ["informational", "low", "medium", "high", "critical"]
STATUSES = ["unsupported", "deprecated", "experimental", "test", "stable"]
UNSUPPORTED_ATTRS = ["custom_attributes", "detection", "logsource", "description", "applied_processing_items",
                     "source", "to_dict", "name", "license", "modified"]

def static_attrs(r):
    def on(x): return copt(str(x) if x is not None else None)
    date = None
    if r.get("date"):
        y, m, d = (int(x) for x in r["date"].split("-"))
        date = y * 10000 + m * 100 + d
    return (f"(mk_static {cstr(r['title'])} {ostr(r.get('id'))} {ostr(r.get('author'))} "
            f"{on(LEVELS.index(r['level']) if r.get('level') else None)} {on(STATUSES.index(r['status']) if r.get('status') else None)} {on(date)})")

def src_leaf(l):
    field, mod, vals = l
    if mod == "fieldref": vs = [f"VRef {cstr(v)}" for v in vals]
    elif mod == "re": vs = [f"VRe {cstr(v)}" for v in vals]
    else: vs = [c_sval_plain(v) for v in vals]
    return f"DLeaf (mkD {ostr(field)} {clist(vs)} [])"
def src_tree(t):
    if "map" in t: return "DNode " + clist(src_leaf(l) for l in t["map"])
    if "kw" in t: return "DNode [DLeaf (mkD None " + clist(c_sval_plain(v) for v in t["kw"]) + " [])]"
    return "DNode " + clist("(" + src_tree(x) + ")" for x in t["list"])

def c_ls(ls): return f"({ostr(ls[0])}, {ostr(ls[1])}, {ostr(ls[2])})"

def src_world(r):
    custom = clist(f"({cstr(k)}, {c_aval_plain(v)})" for k, v in r["custom"])
    dets = clist(f"({cstr(n)}, {src_tree(t)})" for n, t in r["dets"])
    return (f"(mkW (mkR {c_ls(r['ls'])} {clist(cstr(t) for t in r['tags'])} {static_attrs(r)} {custom} "
            f"{clist(cstr(f) for f in r['fields'])} [] {dets}) [] [])")

# ---- implementation snapshot -> world ---------------------------------------------------
def snap_val(v):
    k = v[0]
    if k == "s": return f"VStr {cstr(v[1])}"
    if k == "n":
        if not isinstance(v[1], int): raise ValueError("float")
        return f"VNum {cZ(v[1])}"
    if k == "b": return f"VBool {cbool(v[1])}"
    if k == "z": return "VNull"
    if k == "r": return f"VRef {cstr(v[1])}"
    if k == "x": return f"VRe {cstr(v[1])}"
    raise ValueError(v)
def snap_tree(t):
    if "n" in t: return "DNode " + clist("(" + snap_tree(x) + ")" for x in t["n"])
    f, vs, ap = t["l"]
    return f"DLeaf (mkD {ostr(f)} {clist(snap_val(v) for v in vs)} {clist(cstr(a) for a in ap)})"
def snap_plain(v):
    if v[0] == "s": return v[1]
    if v[0] == "z": return None
    if v[0] == "b": return bool(v[1])
    if v[0] == "n": return int(v[1])
    if v[0] == "f": return float(v[1])
    raise ValueError(v)
def snap_plain_a(v):
    return c_aval_plain(snap_plain(v))
def snap_plain_s(v):
    return c_stval(snap_plain(v))
def snap_world(r, s):
    custom = clist(f"({cstr(k)}, {snap_plain_a(v)})" for k, v in s["custom"])
    dets = clist(f"({cstr(n)}, {snap_tree(t)})" for n, t in s["dets"])
    state = clist(f"({cstr(k)}, {snap_plain_s(v)})" for k, v in s["state"])
    ft = clist(f"({cstr(k)}, {clist(cstr(a) for a in v)})" for k, v in s["ftrack"])
    return (f"(mkW (mkR {c_ls(s['ls'])} {clist(cstr(t) for t in r['tags'])} {static_attrs(r)} {custom} "
            f"{clist(cstr(f) for f in s['fields'])} {clist(cstr(a) for a in s['applied'])} {dets}) {state} {ft})")

def c_err(e): return copt(f"({e[0]}, {cbool(e[1])})" if e else None)

def pipe_to_coq(c, r):
    if "exc" in r:
        return None          # the rule itself was rejected: nothing to observe
    items = clist(c_item(it) for it in c["items"])
    w0 = src_world(c["rule"])
    pre = "("
    if r["berr"]:
        return pre + f"({items}, {w0}, {w0}, ({c_err(r['berr'])}, [], None)) : pcase)"
    snaps = clist(f"({snap_world(c['rule'], s)}, {cbool(s['flag'])})" for s in r["snaps"])
    return pre + (f"({items}, {w0}, {snap_world(c['rule'], r['s0'])}, "
            f"(None, {snaps}, {c_err(r['rerr'])})) : pcase)")

# =========================================================================================
# generators
# =========================================================================================
FIELDS = ["a", "b", "c", "User", "dst_ip", "a_S"]
STRVALS = ["x", "x*", "?y", "evil.exe", "123", "MARK", "", "a b", "X"]
IDS = ["i1", "i2", "i3", "i4"]
KEYS = ["a", "b", "c1", "notx", "and_1", "or-b", "x-y", "_k", "nota", "N0T", "android", "1"]
STATE_KEYS = ["k1", "k2"]
STATE_VALS = ["v1", "v2", 1, 2, "1", 10, 0, 0, 0.0, False, True, "", "", -1, -1.5, 0.5, "0", None, "-1"]
FALSY = [0, 0.0, False, "", None]
ATTRS = ["title", "id", "level", "status", "date", "author", "description", "custom_attributes", "detection",
         "taxonomy", "references", "fields", "tags", "mycustom", "other", "nonexistent", "to_dict", "logsource"]

def gen_leaf(rng, used):
    for _ in range(20):
        f = rng.choice(FIELDS[:5])
        mod = rng.choices(["", "fieldref", "re"], [80, 14, 6])[0]
        if (f, mod) not in used:
            used.add((f, mod)); break
    else:
        return None
    n = rng.choice([1, 1, 2, 3])
    if mod == "fieldref": vals = [rng.choice(FIELDS) for _ in range(n)]
    elif mod == "re": vals = [rng.choice(["a.c", "abc"])]
    else: vals = [rng.choice(STRVALS + [1, 2, 0, 123, True, False, None, None]) for _ in range(n)]
    return [f, mod, vals]

def gen_det(rng):
    k = rng.random()
    if k < 0.65:
        used = set()
        ls = [l for l in (gen_leaf(rng, used) for _ in range(rng.choice([1, 2, 2, 3]))) if l]
        return {"map": ls}
    if k < 0.8:
        return {"kw": [rng.choice(STRVALS[:6]) for _ in range(rng.choice([1, 2]))]}
    out = []
    for _ in range(2):
        used = set()
        out.append({"map": [l for l in (gen_leaf(rng, used) for _ in range(rng.choice([1, 2]))) if l]})
    return {"list": out}

def gen_rule(rng):
    ls = [rng.choice(["process_creation", "net", None]), rng.choice(["windows", "linux", None]), rng.choice(["sysmon", None, None])]
    if ls == [None, None, None]: ls[rng.randrange(3)] = "windows"
    r = {"title": rng.choice(["Test", "T2"]), "ls": ls,
         "id": rng.choice([None, "0e95725d-7320-415d-80f7-004da920fc11"]),
         "status": rng.choice([None] + STATUSES), "level": rng.choice([None] + LEVELS),
         "date": rng.choice([None, "2020-02-29", "2023-12-31"]), "author": rng.choice([None, "me"]),
         "tags": rng.sample(["attack.t1059", "attack.execution", "cve.2020-1", "a.b.c"], rng.choice([0, 1, 2])),
         "fields": [rng.choice(FIELDS + ["zz"]) for _ in range(rng.choice([0, 0, 1, 2, 3]))],
         "custom": rng.choice([[], [], [["mycustom", "x"]], [["mycustom", 5]], [["other", "7"], ["mycustom", -3]], [["mycustom", 0]],
                               [["mycustom", ""], ["other", 0.5]], [["mycustom", False]], [["mycustom", 0.0], ["other", True]]]),
         "dets": [[n, gen_det(rng)] for n in (["sel"] if rng.random() < 0.6 else ["sel", "flt"])]}
    return r

def rule_field_names(r):
    out = set(r["fields"])
    def walk(t):
        if "map" in t:
            for f, mod, vals in t["map"]:
                out.add(f)
                if mod == "fieldref": out.update(vals)
        elif "list" in t:
            for x in t["list"]: walk(x)
    for _, t in r["dets"]: walk(t)
    return sorted(out)

def gen_rx(rng, seedstr=None):
    if rng.random() < 0.015: return ["bad"]
    if rng.random() < 0.06: return rng.choice([[], ["end"], ["star"], ["any"], ["star", "end"]])
    p = []
    s = seedstr if seedstr is not None else rng.choice(STRVALS + FIELDS)
    for ch in s[:rng.choice([1, 2, 3, 8])]:
        k = rng.random()
        if k < 0.6: p.append(["l", ch])
        elif k < 0.75: p.append("any")
        elif k < 0.85: p.append("d" if ch.isdigit() else ["l", ch])
        else: p.append("star")
    if rng.random() < 0.3: p.append("star")
    if rng.random() < 0.3: p.append("end")
    if rng.random() < 0.1: p.insert(0, "star")
    return p

_STATE_HINT = []   # (key, value) pairs set by the preceding items of the pipeline being generated

def gen_state_cond(rng):
    if _STATE_HINT and rng.random() < 0.7:
        k, v = rng.choice(_STATE_HINT)
        if isinstance(v, bool):
            if rng.random() < 0.5: v = rng.choice([0, 1, 0.0, not v])
        elif isinstance(v, (int, float)) and rng.random() < 0.5: v = v + rng.choice([-1, 0, 0, 1, 0.5, -0.5])
        elif isinstance(v, str) and rng.random() < 0.3: v = rng.choice([v + "a", v[:-1], v.upper(), ""])
        elif v is None and rng.random() < 0.5: v = rng.choice(FALSY)
        return {"t": "processing_state", "key": k, "val": v, "op": rng.choice(list(CMP))}
    return {"t": "processing_state", "key": rng.choice(STATE_KEYS + ["k9", ""]), "val": rng.choice(STATE_VALS),
            "op": rng.choice(list(CMP) + ["eq", "eq", "ne"])}

def gen_cond(rng, kind, r, names):
    if kind == "rule":
        t = rng.choice(["logsource", "contains_detection_item", "contains_field", "processing_item_applied", "processing_state",
                        "is_sigma_rule", "is_sigma_correlation_rule", "rule_attribute", "rule_attribute", "tag"])
        if t == "logsource":
            c = {"t": t}
            for k, pool in (("category", ["process_creation", "net", ""]), ("product", ["windows", "linux"]), ("service", ["sysmon", "x", ""])):
                if rng.random() < 0.4: c[k] = rng.choice(pool)
            if len(c) == 1 and rng.random() < 0.8: c["product"] = "windows"
            return c
        if t == "contains_detection_item":
            return {"t": t, "field": rng.choice(names + [None]), "value": rng.choice(STRVALS + [1, 123, True, None, 0])}
        if t == "contains_field": return {"t": t, "field": rng.choice(names + ["nofield", None])}
        if t == "processing_item_applied": return {"t": t, "processing_item_id": rng.choice(IDS + ["nope"])}
        if t == "processing_state": return gen_state_cond(rng)
        if t == "rule_attribute":
            a = rng.choice(ATTRS) if rng.random() < 0.3 else rng.choice(["title", "level", "status", "date", "author", "fields", "tags", "mycustom", "other", "taxonomy", "id"])
            typed = {"level": LEVELS + ["HIGH"], "status": STATUSES, "date": ["2020-02-29", "2021-01-01", "2019-01-01", "2023-12-31"],
                     "mycustom": [5, -3, "5", "x", 0, 6, 4, "0", "", False, 0.0, "0.5", True, 1, "-0"], "other": ["7", "8", 7, 0.5, "0.5", 1, True, ""], "title": ["Test", "T2"], "author": ["me", "you"],
                     "fields": FIELDS + ["zz"], "tags": ["attack.t1059", "a.b.c", "x.y"], "taxonomy": ["sigma", "x"]}
            if a in typed and rng.random() < 0.8:
                v = rng.choice(typed[a])
            else:
                v = rng.choice(["Test", "high", "HIGH", "medium", "test", "stable", "2020-02-29", "2021-01-01", "2020-02-30", "x", "5", "-3", "abc",
                                "me", "a", "zz", "attack.t1059", "sigma", 5, -3, 0, "0e95725d-7320-415d-80f7-004da920fc11", "", "7"])
            ops = list(AOP) if a in ("fields", "tags") or rng.random() < 0.2 else ["eq", "ne", "gte", "gt", "lte", "lt"]
            if a in ("title", "author", "taxonomy", "id") and rng.random() < 0.8: ops = ["eq", "ne"]
            return {"t": t, "attribute": a, "value": v, "op": rng.choice(ops)}
        if t == "tag": return {"t": t, "tag": rng.choice(["attack.t1059", "attack.execution", "a.b.c", "a.b", "cve.2020-1", "a.", ".b"] if rng.random() < 0.97 else ["nodot", ""])}
        return {"t": t}
    if kind == "det":
        t = rng.choice(["match_string", "match_string", "match_value", "match_value", "contains_wildcard", "is_null",
                        "processing_item_applied", "processing_state"])
        cond = rng.choice(["any", "all"])
        if t == "match_string": return {"t": t, "cond": cond, "pattern": gen_rx(rng, rng.choice(STRVALS)), "negate": rng.random() < 0.3}
        if t == "match_value": return {"t": t, "cond": cond, "value": rng.choice(STRVALS + [1, 2, 0, 123, True, False, None])}
        if t in ("contains_wildcard", "is_null"): return {"t": t, "cond": cond}
        if t == "processing_item_applied": return {"t": t, "processing_item_id": rng.choice(IDS + ["nope"])}
        return gen_state_cond(rng)
    t = rng.choice(["include_fields", "include_fields", "exclude_fields", "exclude_fields", "processing_item_applied", "processing_state"])
    if t in ("include_fields", "exclude_fields"):
        pool = names + [n + "_S" for n in names[:2]] + ["p." + n for n in names[:1]] + ["zz"]
        if rng.random() < 0.3:
            return {"t": t, "patterns": [gen_rx(rng, rng.choice(pool)) for _ in range(rng.choice([1, 2]))]}
        return {"t": t, "fields": rng.sample(pool, min(len(pool), rng.choice([0, 1, 2, 3])))}
    if t == "processing_item_applied": return {"t": t, "processing_item_id": rng.choice(IDS + ["nope"])}
    return gen_state_cond(rng)

# ---- expressions -------------------------------------------------------------------------
def gen_tree(rng, leaves):
    """random expression tree over the given list of leaves (each used once, in order)"""
    if len(leaves) == 1:
        t = ["id", leaves[0]]
    else:
        k = rng.randrange(1, len(leaves))
        t = [rng.choice(["and", "or"]), gen_tree(rng, leaves[:k]), gen_tree(rng, leaves[k:])]
    while rng.random() < 0.25:
        t = ["not", t]
    return t

PREC = {"id": 0, "not": 1, "and": 2, "or": 3}
def render(t, rng=None, ctx=3, right=False):
    """text of a tree; parenthesised where the grammar needs it (and sometimes where it does not)"""
    k = t[0]
    if k == "id": s = t[1]
    elif k == "not": s = "not " + render(t[1], rng, 1)
    else: s = render(t[1], rng, PREC[k]) + (" " if not rng or rng.random() < 0.9 else "  \t") + k + " " + render(t[2], rng, PREC[k] - 1)
    if PREC[k] > ctx or (rng and rng.random() < 0.12):
        s = "(" + s + ")" if not rng or rng.random() < 0.8 else "( " + s + " )"
    return s

def left_assoc(t):
    return t

def tree_ids(t):
    if t[0] == "id": return [t[1]]
    return [x for s in t[1:] for x in tree_ids(s)]

def gen_group(rng, kind, r, names, p_empty=0.35, malformed=0.03):
    n = 0 if rng.random() < p_empty else rng.choice([1, 1, 2, 2, 3])
    conds = [gen_cond(rng, kind, r, names) for _ in range(n)]
    form = rng.choice(["list", "list", "map"])
    keys = rng.sample(KEYS, n)
    g = {"form": form, "conds": [[k, c] for k, c in zip(keys, conds)], "link": rng.choice([None, None, "and", "or"]),
         "expr": None, "neg": rng.random() < 0.3}
    if form == "map" and n > 0 and rng.random() < 0.7:
        leaves = list(keys)
        while len(leaves) < 5 and rng.random() < 0.3: leaves.append(rng.choice(keys))
        rng.shuffle(leaves)
        g["expr"] = render(gen_tree(rng, leaves), rng)
        g["link"] = None
    if rng.random() < malformed:
        k = rng.choice(["link", "list", "unknown", "unref", "syntax", "glue"])
        if g["expr"] is None:
            g["form"] = "map"; g["expr"] = " and ".join(keys) if keys else "a"; g["link"] = None
        if k == "link": g["link"] = rng.choice(["and", "or"])
        elif k == "list": g["form"] = "list"
        elif k == "unknown": g["expr"] += " or " + rng.choice(["zz9", "not", "x"])
        elif k == "unref" and g["conds"]: g["expr"] = g["conds"][0][0]
        elif k == "syntax": g["expr"] = rng.choice([g["expr"] + " and", "(" + g["expr"], g["expr"] + ")", g["expr"].replace(" and ", " & ", 1), "", g["expr"] + " " + (keys[0] if keys else "a"), "and " + g["expr"]])
        else: g["expr"] = g["expr"].replace(" and ", " and", 1).replace(" or ", " or", 1).replace("not ", "not", 1)
    return g

EMPTY = {"form": "list", "conds": [], "link": None, "expr": None, "neg": False}

def gen_transf(rng, names, marker=False):
    kinds = ["set_custom_attribute", "set_value", "field_name_suffix"] if marker else \
            ["set_state", "set_state", "change_logsource", "field_name_suffix", "field_name_prefix", "field_name_mapping",
             "field_name_mapping", "set_custom_attribute", "set_value"]
    t = rng.choice(kinds)
    if t == "set_state": return {"type": t, "key": rng.choice(STATE_KEYS + [""]), "val": rng.choice(STATE_VALS)}
    if t == "change_logsource":
        c = {"type": t}
        for k, pool in (("category", ["process_creation", "net"]), ("product", ["windows", "linux"]), ("service", ["sysmon"])):
            if rng.random() < 0.5: c[k] = rng.choice(pool)
        if len(c) == 1 and rng.random() < 0.9: c["product"] = "linux"
        return c
    if t == "set_custom_attribute": return {"type": t, "attribute": rng.choice(["mycustom", "other", "marker"]), "value": rng.choice(["x", "M", 5, 7, 0, "", False, 0.5, True, -1])}
    if t == "set_value": return {"type": t, "value": rng.choice(["MARK", "x", 1, None, True, 0, "", False])}
    if t == "field_name_suffix": return {"type": t, "suffix": rng.choice(["_S", "_S", ".x", ""])}
    if t == "field_name_prefix": return {"type": t, "prefix": rng.choice(["p.", "p."])}
    m = {}
    for f in rng.sample(names + ["zz"], min(len(names) + 1, rng.choice([1, 2, 3]))):
        m[f] = rng.choice([f + "2", "u", names[0], [f + "1", f + "2"], [f + "1"], f])
    return {"type": t, "mapping": m}

def gen_item(rng, r, names, ident, marker=False, cond_p=0.5):
    tr = gen_transf(rng, names, marker)
    it = {"id": ident, "tr": tr}
    for kind in ("rule", "det", "field"):
        it[kind] = gen_group(rng, kind, r, names) if rng.random() < cond_p else dict(EMPTY)
    return it

def gen_random_case(rng):
    r = gen_rule(rng)
    names = rule_field_names(r) or ["a"]
    n = rng.choice([1, 2, 2, 3, 3, 4, 5])
    items = []
    del _STATE_HINT[:]
    for k in range(n):
        ident = rng.choice(IDS) if rng.random() < 0.25 else IDS[k % 4] if k < 4 else "i5"
        items.append(gen_item(rng, r, names, ident, marker=(k == n - 1), cond_p=0.35 if k < n - 1 else 0.9))
        if items[-1]["tr"]["type"] == "set_state":
            _STATE_HINT.append((items[-1]["tr"]["key"], items[-1]["tr"]["val"]))
    del _STATE_HINT[:]
    return {"rule": r, "items": items}

# ---- the systematic sweep of the gating decisions -----------------------------------------
SWEEP_RULE = {"title": "Test", "ls": ["process_creation", "windows", None], "id": None, "status": "test", "level": "high",
              "date": None, "author": None, "tags": ["attack.t1059"], "fields": ["a", "zz"], "custom": [],
              "dets": [["sel", {"map": [["a", "", ["x*", None]], ["b", "fieldref", ["a"]], ["c", "", [1]]]}],
                       ["kw", {"kw": ["x"]}]]}
TRUE_FALSE = {
    "rule": ({"t": "is_sigma_rule"}, {"t": "is_sigma_correlation_rule"}),
    # true on item a only / on item c only
    "det": ({"t": "contains_wildcard", "cond": "any"}, {"t": "match_value", "cond": "all", "value": 1}),
    # true on field a (and on item b through its reference) / on zz only
    "field": ({"t": "include_fields", "fields": ["a"]}, {"t": "exclude_fields", "fields": ["a", "b", "c"]}),
}
MARKER = {"rule": {"type": "set_custom_attribute", "attribute": "marker", "value": "M"},
          "det": {"type": "set_value", "value": "MARK"},
          "field": {"type": "field_name_suffix", "suffix": "_S"}}
EXPRS = {1: ["a", "not a", "(a)", "not not a"],
         2: ["a and b", "a or b", "not a and b", "not (a and b)", "a or not b", "not a or not b", "(a or b)", "b and a"],
         3: ["a and b or c", "a or b and c", "(a or b) and c", "not (a or b and c)", "a and b and c", "a or b or c", "a and not (b or c)"]}

def sweep():
    out = []
    for kind in ("rule", "det", "field"):
        for n in (0, 1, 2, 3):
            for tv in itertools.product((0, 1), repeat=n):
                conds = [[k, TRUE_FALSE[kind][1 - v]] for k, v in zip(["a", "b", "c"], tv)]
                variants = []
                if n < 3:
                    for link in (None, "and", "or"):
                        for form in ("list", "map"):
                            variants.append({"form": form, "conds": conds, "link": link, "expr": None})
                for e in EXPRS.get(n, []):
                    variants.append({"form": "map", "conds": conds, "link": None, "expr": e})
                for g in variants:
                    for neg in (False, True):
                        for mk in (("rule", "det", "field") if n <= 2 else (kind,)):
                            if kind != "rule" and mk == "rule": continue
                            if kind == "det" and mk == "field" and n == 3: continue
                            it = {"id": "m", "tr": MARKER[mk], "rule": dict(EMPTY), "det": dict(EMPTY), "field": dict(EMPTY)}
                            it[kind] = dict(g, neg=neg)
                            out.append({"rule": SWEEP_RULE, "items": [it]})
    return out

BOUND_RULE = dict(SWEEP_RULE, level="high", status="test", date="2020-02-29", author="me", custom=[["mycustom", 5], ["other", "7"]],
                  tags=["attack.t1059", "a.b.c"])

def boundary_cases():
    """comparison operators at, just below and just above the compared value"""
    out = []
    def marker_item(kind, cond):
        it = {"id": "m", "tr": MARKER[kind], "rule": dict(EMPTY), "det": dict(EMPTY), "field": dict(EMPTY)}
        it[kind] = {"form": "list", "conds": [["", cond]], "link": None, "expr": None, "neg": False}
        return it
    for sv, vals in ((5, [4, 5, 6, "5"]), ("b", ["a", "b", "c", "B", "ba", ""])):
        setter = {"id": "s", "tr": {"type": "set_state", "key": "k1", "val": sv}, "rule": dict(EMPTY), "det": dict(EMPTY), "field": dict(EMPTY)}
        for v in vals:
            for op in CMP:
                for kind in ("rule", "det", "field"):
                    out.append({"rule": BOUND_RULE, "items": [setter, marker_item(kind, {"t": "processing_state", "key": "k1", "val": v, "op": op})]})
    # a state key set to a falsy value is set: every operator, at every level, with and without the negation flag
    setters = [0, 0.0, False, "", None, -1, "0", True, 0.5]
    vals = [0, 1, -1, 0.5, False, "", "0", None, 0.0]
    n = 0
    for sv in setters:
        setter = {"id": "s", "tr": {"type": "set_state", "key": "k1", "val": sv}, "rule": dict(EMPTY), "det": dict(EMPTY), "field": dict(EMPTY)}
        for v in vals:
            for op in CMP:
                for kind in ("rule", "det", "field"):
                    n += 1
                    it = marker_item(kind, {"t": "processing_state", "key": "k1", "val": v, "op": op})
                    it[kind]["neg"] = (n % 2 == 0)
                    if n % 5 == 0: it[kind]["link"] = "or"
                    out.append({"rule": BOUND_RULE, "items": [setter, it]})
    # falsy attribute values
    frule = dict(BOUND_RULE, custom=[["mycustom", 0], ["other", ""], ["flag", False], ["ratio", 0.5], ["zero", 0.0], ["yes", True]])
    for a in ("mycustom", "other", "flag", "ratio", "zero", "yes"):
        for v in [0, "0", "", False, 0.5, "0.5", 1, "1", True, -1, "x", "1.0", "-0"]:
            for op in AOP:
                n += 1
                it = marker_item("rule", {"t": "rule_attribute", "attribute": a, "value": v, "op": op})
                it["rule"]["neg"] = (n % 2 == 0)
                out.append({"rule": frule, "items": [it]})
    # match_string / match_value on empty and falsy values
    vrule = dict(BOUND_RULE, dets=[["sel", {"map": [["a", "", ["", "x"]], ["b", "", [""]], ["c", "", [0, False]], ["User", "", ["xy", None]]]}]])
    for pat in ([], ["end"], ["any"], ["star"], [["l", "x"]], [["l", "x"], "end"], ["star", "end"], ["any", "end"], [["l", "x"], "any"]):
        for cond in ("any", "all"):
            for negate in (False, True):
                n += 1
                it = marker_item("det", {"t": "match_string", "cond": cond, "pattern": pat, "negate": negate})
                it["det"]["neg"] = (n % 2 == 0)
                out.append({"rule": vrule, "items": [it]})
    for v in [0, False, "", None, 1, True, "x", "0"]:
        for cond in ("any", "all"):
            for neg in (False, True):
                it = marker_item("det", {"t": "match_value", "cond": cond, "value": v})
                it["det"]["neg"] = neg
                out.append({"rule": vrule, "items": [it]})
                it2 = marker_item("rule", {"t": "contains_detection_item", "field": "c" if v != "" else "b", "value": v})
                it2["rule"]["neg"] = neg
                out.append({"rule": vrule, "items": [it2]})
    attrs = {"level": ["low", "high", "critical", "High", "x"], "status": ["deprecated", "test", "stable", "TEST"],
             "date": ["2020-02-28", "2020-02-29", "2020-03-01", "2019-12-31", "2020-02-30"], "mycustom": [4, 5, 6, "5", "6", "-5", "x"],
             "other": ["7", 7, "8"], "title": ["Test", "Tes", 5], "fields": ["a", "zz", "b", 1], "tags": ["attack.t1059", "a.b", "a.b.c"],
             "author": ["me", "you"], "nonexistent": ["x"]}
    for a, vals in attrs.items():
        for v in vals:
            for op in AOP:
                out.append({"rule": BOUND_RULE, "items": [marker_item("rule", {"t": "rule_attribute", "attribute": a, "value": v, "op": op})]})
    return out

def history_cases(rng, n):
    """pipelines that rename fields several times and then ask who was applied where"""
    out = []
    for _ in range(n):
        r = gen_rule(rng)
        names = rule_field_names(r) or ["a"]
        items = []
        k = rng.choice([2, 3, 4])
        for j in range(k):
            tr = rng.choice([{"type": "field_name_suffix", "suffix": "_S"}, {"type": "field_name_prefix", "prefix": "p."},
                             gen_transf(rng, names), {"type": "set_value", "value": "V"}])
            it = {"id": IDS[j], "tr": tr, "rule": dict(EMPTY), "det": dict(EMPTY), "field": dict(EMPTY)}
            if rng.random() < 0.5:
                it[rng.choice(["det", "field"])] = gen_group(rng, rng.choice(["det"]), r, names) if False else dict(EMPTY)
            if rng.random() < 0.4:
                kind = rng.choice(["rule", "det", "field"])
                it[kind] = gen_group(rng, kind, r, names, p_empty=0.0, malformed=0.0)
            items.append(it)
        mk = rng.choice(["rule", "det", "field"])
        last = {"id": "m", "tr": MARKER[mk], "rule": dict(EMPTY), "det": dict(EMPTY), "field": dict(EMPTY)}
        kind = rng.choice(["rule", "det", "field"]) if mk != "rule" else "rule"
        c = {"t": "processing_item_applied", "processing_item_id": rng.choice(IDS[:k])}
        last[kind] = {"form": "list", "conds": [["", c]], "link": rng.choice([None, "or"]), "expr": None, "neg": rng.random() < 0.5}
        items.append(last)
        out.append({"rule": r, "items": items})
    return out

def suffixed(r, sfx):
    """the same rule with the field names an earlier run of a suffix item would have produced"""
    def tree(t):
        if "map" in t:
            return {"map": [[f + sfx, mod, [v + sfx for v in vals] if mod == "fieldref" else vals] for f, mod, vals in t["map"]]}
        if "list" in t:
            return {"list": [tree(x) for x in t["list"]]}
        return t
    return dict(r, fields=[f + sfx for f in r["fields"]], dets=[[n, tree(t)] for n, t in r["dets"]])

def multi_rule_cases(rng, n):
    """several rules converted one after the other with ONE pipeline object: nothing an item did to an
    earlier rule may be visible to the conditions evaluated for a later rule"""
    out = []
    for _ in range(n):
        r = gen_rule(rng)
        if not r["fields"]: r["fields"] = [rng.choice(FIELDS[:3])]
        names = rule_field_names(r) or ["a"]
        sfx = rng.choice(["_S", ".x"])
        c = {"t": "processing_item_applied", "processing_item_id": "i1"}
        kind = rng.choice(["field", "field", "det", "rule"])
        gate = {"form": "list", "conds": [["", c]], "link": rng.choice([None, "or"]), "expr": None, "neg": rng.random() < 0.5}
        first = {"id": "i1", "tr": {"type": "field_name_suffix", "suffix": sfx}, "rule": dict(EMPTY), "det": dict(EMPTY), "field": dict(EMPTY)}
        mk = rng.choice(["field", "det", "rule"]) if kind != "field" else rng.choice(["field", "det"])
        if kind == "rule": mk = rng.choice(["rule", "det", "field"])
        second = {"id": "m", "tr": MARKER[mk], "rule": dict(EMPTY), "det": dict(EMPTY), "field": dict(EMPTY)}
        second[kind] = gate
        order = rng.choice([[second, first], [first, second], [second], [dict(second, id="i1")]])
        if rng.random() < 0.3:
            order = [{"id": "s", "tr": {"type": "set_state", "key": "k1", "val": 1}, "rule": {"form": "list", "conds": [["", {"t": "processing_state", "key": "k1", "val": 1, "op": "ne"}]], "link": None, "expr": None, "neg": False}, "det": dict(EMPTY), "field": dict(EMPTY)}] + order
        pre = rng.choice([[r], [r, r], [gen_rule(rng)], [suffixed(r, sfx)]])
        target = rng.choice([r, suffixed(r, sfx), suffixed(r, sfx)])
        out.append({"rule": target, "items": order, "pre": pre})
    return out

def gen_pipe(tier, rng):
    out = sweep()
    bnd = boundary_cases()
    nrand, nhist = (700, 200) if tier == "quick" else (14000, 4000)
    if tier == "quick":
        out = rng.sample(out, 480)
    out += bnd if tier != "quick" else rng.sample(bnd, 1100)
    rnd = [gen_random_case(rng) for _ in range(nrand)]
    for c in rnd:
        if rng.random() < 0.3:
            c["pre"] = [c["rule"]] if rng.random() < 0.6 else [gen_rule(rng)]
    out += rnd
    hist = history_cases(rng, nhist)
    for c in hist:
        if rng.random() < 0.4:
            c["pre"] = [c["rule"]]
    out += hist
    out += multi_rule_cases(rng, 150 if tier == "quick" else 2500)
    return out

# ---- known findings ----------------------------------------------------------------------
def renaming(it): return it["tr"]["type"] in ("field_name_suffix", "field_name_prefix", "field_name_mapping")
def has_fapplied(it): return any(c["t"] == "processing_item_applied" for _, c in it["field"]["conds"])
def one_to_many(it): return it["tr"]["type"] == "field_name_mapping" and any(isinstance(v, list) for v in it["tr"]["mapping"].values())

def known_pipe(c, r):
    if any(renaming(it) and has_fapplied(it) for it in c["items"]):
        return "C13-F1-field-name-tracking-by-name"
    return None

def mutate_pipe(c, rng):
    out = []
    items = c["items"]
    for i, it in enumerate(items):
        for kind in ("rule", "det", "field"):
            g = it[kind]
            for ch in ({"neg": not g["neg"]}, {"link": "or"}, {"link": "and"}, {"link": None}):
                if g["expr"] is not None and "link" in ch: continue
                out.append(dict(c, items=items[:i] + [dict(it, **{kind: dict(g, **ch)})] + items[i + 1:]))
            for j in range(len(g["conds"])):
                if g["expr"] is None:
                    out.append(dict(c, items=items[:i] + [dict(it, **{kind: dict(g, conds=g["conds"][:j] + g["conds"][j + 1:])})] + items[i + 1:]))
        if len(items) > 1:
            out.append(dict(c, items=items[:i] + items[i + 1:]))
    rng.shuffle(out)
    return out[:150]

def stratum_pipe(c, r):
    if isinstance(r, dict) and r.get("berr"): return "rejected-configuration"
    if isinstance(r, dict) and r.get("rerr"): return "raised-while-applying"
    kinds = [k for it in c["items"] for k in ("rule", "det", "field") if it[k]["conds"]]
    if any(it[k]["expr"] for it in c["items"] for k in ("rule", "det", "field")): return "expression"
    return "linking" if kinds else "no-conditions"

# =========================================================================================
# suite 2: the expression parser alone
# =========================================================================================
def c_tree(t):
    if t[0] == "id": return f"(EId {cstr(t[1])})"
    if t[0] == "not": return f"(ENot {c_tree(t[1])})"
    return f"({'EAnd' if t[0] == 'and' else 'EOr'} {c_tree(t[1])} {c_tree(t[2])})"

def all_trees(n, leaves):
    if n == 1:
        yield ["id", leaves[0]]; return
    for k in range(1, n):
        for a in all_trees(k, leaves[:k]):
            for b in all_trees(n - k, leaves[k:]):
                for op in ("and", "or"):
                    yield [op, a, b]

def with_nots(t, rng):
    if t[0] in ("and", "or"): t = [t[0], with_nots(t[1], rng), with_nots(t[2], rng)]
    return ["not", t] if rng.random() < 0.3 else t

def gen_expr(tier, rng):
    out = []
    names = ["a", "b", "c", "d", "e"]
    nmax = 4 if tier == "quick" else 5
    for n in range(1, nmax + 1):
        for t in all_trees(n, names[:n]):
            out.append({"s": render(t), "tree": t})
            out.append({"s": render(with_nots(t, rng), rng), "tree": None})
    hostile = ["notx", "nota and b", "a andb", "a orb", "not", "not not", "and and and", "a and not b", "not-a", "(a)and(b)",
               "a and (b or c)", "a  and\tb", "a&b", "", "()", "a b", "not (a)", "nOt a", "a AND b", "android or orb", "a and and",
               "a or", "(a", "a)", "((a))", "not not not a", "a-b and _c", "1 and 2", "a\nand\nb", "a and\rb", "é", "a and é",
               "or", "and", "not and", "a or or", "not(a)", "(not a)and b", "a or(b)", "nota", "xnot a", "a not b", "a and b not"]
    out += [{"s": s, "tree": None} for s in hostile]
    for _ in range(400 if tier == "quick" else 6000):
        leaves = [rng.choice(KEYS + ["not", "and", "or"] if rng.random() < 0.1 else KEYS) for _ in range(rng.choice([1, 2, 3, 4, 5]))]
        t = gen_tree(rng, leaves)
        s = render(t, rng)
        if rng.random() < 0.3:
            k = rng.randrange(len(s) + 1)
            s = s[:k] + rng.choice(["(", ")", " ", "not ", " and ", " or ", "x", "&"]) + s[k:]
        out.append({"s": s, "tree": None})
    for c in out:
        if c["tree"] is not None:
            c["tree"] = norm_tree(c["tree"])
    return out

def norm_tree(t):
    return t

def expr_to_coq(c, r):
    if "exc" in r: return None
    res = f"(Some {c_tree(r['tree'])})" if "tree" in r else "None"
    want = f"(Some {c_tree(c['tree'])})" if c.get("tree") else "None"
    return f"(({cstr(c['s'])}, {want}, {res}) : ecase)"

def mutate_expr(c, rng):
    s = c["s"]
    out = []
    for i in range(len(s) + 1):
        for ch in ["(", ")", " ", "n", "not "]:
            out.append({"s": s[:i] + ch + s[i:], "tree": None})
    for i in range(len(s)):
        out.append({"s": s[:i] + s[i + 1:], "tree": None})
    return out[:300]

REQ = ["Base.Chars", "Base.Outcome", "Model.PipeExpr", "Model.PipeCond", "Spec.PipeSpec", "Run.C13run"]
PROPERTY = Property(
    pid="C13", props_file="Props/C13.v",
    suites=[
        Suite("pipe", gen_pipe, "run_pipe", REQ, "judge_pipe", pipe_to_coq, known=known_pipe, mutate=mutate_pipe,
              stratum=stratum_pipe, shard=120),
        Suite("expr", gen_expr, "run_expr", REQ, "judge_expr", expr_to_coq, mutate=mutate_expr),
    ],
    rule="pipe: (a) systematic sweep of one marker item (set_custom_attribute / set_value / field_name_suffix) gated by one group "
         "(rule, detection item, field name) with 0-3 conditions of every truth assignment x linking {default, and, or} x list/map form x "
         "expressions x negation flag; (b) random rules x pipelines of 1-5 items (set_state, change_logsource, suffix, prefix, 1:1 and 1:n "
         "mapping, set_custom_attribute, set_value) whose three groups draw from every built-in condition class with random parameters, "
         "list or map form, linking, expressions of up to 5 leaves, negation flags, plus malformed configurations; (c) rename histories "
         "followed by processing_item_applied conditions; (d) several rules converted one after the other with the same pipeline object "
         "(field-level processing_item_applied / processing_state conditions must not see an earlier rule). expr: all expression shapes up to 4 (quick) / 5 leaves, hostile strings, random "
         "renderings with insertions. non-trivial = some item has a non-empty condition group (pipe) / the text contains an operator or "
         "parenthesis (expr); distinct by (suite, case hash)",
    assumptions=[
        "rule targets are detection rules (SigmaRule); correlation rules are not modelled",
        "Python re.match for the generated pattern fragment (literals, '.', '\\d', '.*', '$') is modelled by Model.PipeCond.rmatch and validated only by the correspondence",
        "float()/date.fromisoformat()/str.upper() are modelled for the generated parameter strings (signed decimals with an optional .0 or .5, YYYY-MM-DD, ASCII); state values, custom attribute values and condition parameters range over str, int, bool, floats k/2 and None",
        "string values contain no backslash, so str(SigmaString) is the source text",
        "attributes of the SigmaRule object reachable by getattr are given by a table computed from the source rule (props/c13.py static_attrs)",
        "the state after every item is observed by wrapping the bound apply method of each ProcessingItem (impl/c13.py)",
    ],
)
