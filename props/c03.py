"""C03 - value modifiers produce exactly the values the specification defines."""
import itertools, math, ipaddress
from vlib.core import Property, Suite, cstr, clist, cbool, copt, cZ

MODS = ["all", "neq", "base64", "base64offset", "cased", "cidr", "contains", "day", "dotall", "endswith", "exists",
        "expand", "fieldref", "gt", "gte", "hour", "i", "ignorecase", "lt", "lte", "m", "minute", "month",
        "multiline", "re", "utf16", "utf16be", "s", "startswith", "week", "wide", "windash", "year"]
ENCODERS = {"base64", "base64offset", "wide", "utf16", "utf16be"}
ALPHA = ['a', 'B', '*', '?', '\\', '%', '-', '/', ' ', 'é', '\u2013']
RE_EXTRA = ['.', '^', '$', '+']
WORDS = ['é', 'ß', 'ü', 'Ω', '²', '\u0663', '中', '\U0001d400']          # \w, see Run/C03run.v py_word
NONWORDS = ['\u2013', '\u2014', '\u2015', '€', '·', '©', '\u00a0', '\ufeff', '😀', '\x00']
RE_UNMODELLED = set('()[]{}|')
CIDRS = ["10.0.0.0/8", "10.0.0.1/8", "192.168.1.0/24", "1.2.3.4", "::1", "2001:db8::/32", "2001:db8::1/32",
         "10.0.0.0/33", "10.0.0/8", "x", "", "10.0.0.0/255.0.0.0", "fe80::/10", "1.2.3.4/32", "01.2.3.4"]

S = lambda s: {"s": s}
I = lambda n: {"i": str(n)}
F = lambda x: {"f": repr(x)}
B = lambda b: {"b": b}
NULL = {"n": 0}

FIXED_VALUES = [
    S("a"), S(""), S("-a /b"), S("a*b?"), S("*x*"), S("\\*a\\?"), S("%u% x"), S("a\\%b%c%"), S("-é –x a/-b"),
    S("a-b -c"), S("C:\\dir\\*"), S("10.0.0.0/8"), S("^a.*$"), S("a**"), I(0), I(-7), I(2 ** 53 + 1), F(1.5), F(-2.0),
    F(float("nan")), B(True), B(False), NULL,
    {"list": [S("-a"), S("b*")]}, {"list": [I(1), S("x")]}, {"list": []}, {"list": [S("%x%"), S("\\"), S("/y")]},
]


def rand_str(rng, maxlen=12, alpha=None):
    alpha = alpha or (ALPHA + ['a', '-', '%', ' '])
    n = rng.randint(0, maxlen)
    out = []
    for _ in range(n):
        r = rng.random()
        if r < 0.04: out.append(rng.choice(WORDS))
        elif r < 0.08: out.append(rng.choice(NONWORDS))
        elif r < 0.10: out.append(rng.choice(['_', '0', 'z', '.', '$', '^']))
        else: out.append(rng.choice(alpha))
    return "".join(out)


def rand_scalar(rng, want=None):
    k = want or rng.choice(["s"] * 6 + ["i", "i", "f", "f", "b", "n", "big", "nonfinite", "o", "cidr"])
    if k == "s": return S(rand_str(rng))
    if k == "i": return I(rng.choice([0, 1, -1, 59, 60, 2 ** 31, -2 ** 63, rng.randint(-10 ** 6, 10 ** 6)]))
    if k == "f": return F(rng.choice([0.5, -0.0, 1.0, -1.5, 2.75, 1e3, 1e22, 1e300, 5e-324, 59.999, -59.999, rng.uniform(-100, 100)]))
    if k == "b": return B(rng.random() < 0.5)
    if k == "n": return NULL
    if k == "big": return I(rng.choice([2 ** 53, 2 ** 53 + 1, 2 ** 53 + 2, -(2 ** 53) - 1, 2 ** 64 - 1, 2 ** 64, 10 ** 30, 10 ** 400,
                                        2 ** 1024 - 2 ** 970, 2 ** 1024 - 2 ** 970 - 1, 3 * 2 ** 60 + 1]))
    if k == "nonfinite": return F(rng.choice([float("inf"), float("-inf"), float("nan")]))
    if k == "o": return {"o": rng.choice(["dict", "list"])}
    if k == "cidr": return S(rng.choice(CIDRS))


def rand_value(rng):
    r = rng.random()
    if r < 0.7: return rand_scalar(rng)
    return {"list": [rand_scalar(rng) for _ in range(rng.randint(0, 3))]}


# chains that make sense for a kind of value; used to bias the random stream towards admissible chains
STR_FIRST = ["contains", "startswith", "endswith", "windash", "expand", "cased", "re", "fieldref", "cidr", "base64",
             "base64offset", "wide", "utf16", "utf16be", "all", "neq"]
AFTER = {
    "str": ["contains", "startswith", "endswith", "windash", "expand", "cased", "fieldref", "base64", "base64offset",
            "wide", "utf16", "utf16be", "all", "neq"],
    "re": ["i", "m", "s", "ignorecase", "multiline", "dotall", "contains", "startswith", "endswith", "expand", "all", "neq"],
    "fr": ["contains", "startswith", "endswith", "all", "neq"],
    "num": ["lt", "lte", "gt", "gte", "minute", "hour", "day", "week", "month", "year", "all", "neq"],
    "cmp": ["all", "neq"], "bool": ["exists", "all", "neq"], "other": ["all", "neq"],
}


def kind_after(kind, m):
    if m in ("all", "neq"): return kind
    if kind == "str":
        return {"re": "re", "fieldref": "fr", "cidr": "other"}.get(m, "str")
    if kind == "num":
        return "cmp" if m in ("lt", "lte", "gt", "gte") else "num"
    if kind == "bool": return "other"
    return kind


def sensible_chain(rng, kind, n):
    out = []
    for _ in range(n):
        if rng.random() < 0.12:
            m = rng.choice(MODS)
        else:
            m = rng.choice(AFTER[kind])
        if not out and kind == "str" and rng.random() < 0.3:
            m = rng.choice(STR_FIRST)
        out.append(m)
        kind = kind_after(kind, m)
    return out


def mk(field, ids, val):
    if field is None and not ids:
        key = None
    else:
        key = "|".join([field or ""] + list(ids))
    return {"key": key, "val": val}


def small_strings(alpha, k):
    return ["".join(t) for n in range(k + 1) for t in itertools.product(alpha, repeat=n)]


HOSTILE = [
    mk("f", ["re", "contains"], S("")), mk("f", ["re", "startswith"], S("")), mk("f", ["re", "endswith"], S("")),
    mk("f", ["re"], I(5)), mk("f", ["re", "contains"], I(5)), mk("f", ["re", "expand"], I(5)), mk("f", ["re"], NULL),
    mk("f", ["re"], B(True)), mk("f", ["re"], {"list": [F(1.5), S("a")]}), mk("f", ["contains", "re"], I(5)),
    mk("f", ["cased", "windash"], S("-a")), mk("f", ["cased", "windash"], S("a")), mk("f", ["windash", "cased"], S("-a")),
    mk("f", ["expand", "windash"], S("%_windash%")), mk("f", ["expand", "windash"], S("x%_windash%y -z")),
    mk("f", ["expand", "windash"], S("%x% -a")), mk("f", ["windash", "expand"], S("-a%x%")),
    mk("f", [], I(2 ** 53 + 1)), mk("f", ["lt"], I(2 ** 53 + 1)), mk("f", [], I(10 ** 400)), mk("f", ["minute"], F(1e300)),
    mk("f", [], F(float("nan"))), mk("f", [], F(float("inf"))), mk("f", [], F(-0.0)), mk("f", ["minute"], F(-1.7)),
    mk("f", [], {"o": "list"}), mk("f", [], {"o": "dict"}), mk("f", [], {"list": [{"o": "list"}]}),
    mk("f", ["unknown"], I(1)), mk("f", [""], I(1)), mk("f", ["", ""], I(1)), mk("f", ["Contains"], S("a")),
    mk("f", ["contains "], S("a")), mk(None, [], S("x")), mk("", [], S("x")), mk("", ["contains"], S("x")),
    mk("", ["exists"], B(True)), mk("f", ["exists"], B(True)), mk("f", ["exists"], S("yes")), mk("f", ["all", "exists"], B(True)),
    mk("f", ["exists"], I(1)), mk("f", ["unknown"], {"o": "dict"}), mk("f", ["windash", "re"], {"list": []}),
    mk("f", ["base64", "re"], S("a*")), mk("f", ["contains", "re"], S("")), mk("f", ["windash", "re"], S("-a*")),
    mk("f", ["utf16", "windash"], S("-a")), mk("f", ["utf16", "expand"], S("%a%")), mk("f", ["wide", "windash"], S("中")),
    mk("f", ["wide"], S("a\u2013")), mk("f", ["wide"], S("aé")), mk("f", ["windash", "base64offset"], S("-a")),
    mk("f", ["base64offset", "contains"], S("ab")), mk("f", ["windash", "all"], {"list": [S("-a"), S("-b")]}),
    mk("f", ["re", "i", "expand"], S("a%x%")), mk("f", ["re", "expand", "i"], S("a%x%")), mk("f", ["re", "i", "m", "s", "expand"], S("a%x%")),
    mk("f", ["re", "i", "expand", "m"], S("a%x%")), mk("f", ["re", "i", "contains", "expand"], S("a%x%")),
    mk("f", ["re", "s", "startswith", "expand", "endswith"], S("a%x%")), mk("f", ["re", "m", "expand", "contains"], S("%x%")),
    mk("f", ["re", "i", "m", "s"], S("a")), mk("f", ["re", "i", "i"], S("a")), mk("f", ["re", "cased"], S("a")),
    mk("f", ["re"], S("a\\*b*")), mk("f", ["re", "contains"], S("^a$")), mk("f", ["re", "contains"], S(".*a.*")),
    mk("f", ["re", "contains"], S("a\\.*")), mk("f", ["re", "contains"], S("a\\$")), mk("f", ["re", "expand", "contains"], S("\\%a%")),
    mk("f", ["re", "expand"], S("a\\%a%*")), mk("f", ["re", "expand"], S("\\%*")), mk("f", ["re", "expand"], S("\\\\%*")),
    mk("f", ["minute", "lt"], I(1)), mk("f", ["lt", "minute"], I(1)), mk("f", ["gt", "lt"], I(1)), mk("f", ["minute", "hour"], F(61.5)),
    mk("f", ["lt"], B(True)), mk("f", ["fieldref"], S("a\\*b")), mk("f", ["fieldref", "contains", "startswith"], S("ab")),
    mk("f", ["expand", "fieldref"], S("%a%")), mk("f", ["expand", "cidr"], S("10.0.0.0/8")), mk("f", ["cidr"], S("10.0.0.0/8")),
    mk("f", ["cidr", "contains"], S("10.0.0.0/8")), mk("f", ["cidr"], S("10.0.0.*")), mk("f", ["cidr"], S("2001:db8::/32")),
    mk("f", ["expand"], S("a%x%b\\%c%d%%e%")), mk("f", ["expand"], S("%a\\%")), mk("f", ["expand"], S("%a*b%")),
    mk("f", ["expand"], S("\\\\%a%")), mk("f", ["expand", "expand"], S("\\%a%")), mk("f", ["expand"], S("%%%")), mk("f", ["expand"], S("%a%%b%")),
    mk("f", ["windash"], S("--b")), mk("f", ["windash"], S("-/b")), mk("f", ["windash"], S("_-b")), mk("f", ["windash"], S("é-b")),
    mk("f", ["windash"], S("*-b")), mk("f", ["windash"], S("\\*-b")), mk("f", ["windash"], S("-²")), mk("f", ["windash"], S("-·")),
    mk("f", ["windash"], S("-\u0663 -\U0001d400 -😀 /é")), mk("f", ["windash"], S("-a -b -c")), mk("f", ["windash", "windash"], S("-a /b")),
    mk("f", ["contains"], S("*")), mk("f", ["contains"], S("**")), mk("f", ["contains"], S("\\*")), mk("f", ["contains"], S("a\\*")),
    mk("f", ["contains", "contains"], S("a")), mk("f", ["startswith", "endswith"], S("a")), mk("f", ["contains"], S("?a?")),
    mk("f", ["contains", "all"], {"list": [S("a"), S("b")]}), mk("f", ["all", "neq"], {"list": [S("a"), I(1)]}), mk("f", ["neq"], NULL),
    mk("f", ["all"], {"list": []}), mk("f", ["contains"], {"list": []}), mk("f", ["re"], {"list": []}),
]


def gen_item(tier, rng):
    quick = tier == "quick"
    out = list(HOSTILE)
    # (1) every chain of length <= 2 over the whole table, on values from the fixed list
    chains = [()] + [(m,) for m in MODS] + [(a, b) for a in MODS for b in MODS]
    for ch in chains:
        vals = rng.sample(FIXED_VALUES, 3 if quick else 12)
        for v in vals:
            out.append(mk("f", ch, v))
    # (2) exhaustive small strings for the string-level modifiers
    for m in ("windash", "expand"):
        for s in small_strings(ALPHA, 3):
            out.append(mk("f", [m], S(s)))
        if not quick:   # length 4 over the characters that matter for the two scanners
            for t in itertools.product(['a', '*', '\\', '%', '-', '/', ' ', '\u2013'], repeat=4):
                out.append(mk("f", [m], S("".join(t))))
    for s in small_strings(ALPHA + RE_EXTRA, 2 if quick else 3):
        out.append(mk("f", ["re"], S(s)))
    ss2 = small_strings(ALPHA, 2)
    pairs = [("re", "contains"), ("re", "expand"), ("expand", "windash"), ("windash", "expand"), ("cased", "windash"),
             ("windash", "contains"), ("expand", "contains"), ("contains", "expand")]
    for s in ss2:
        for m in ("contains", "startswith", "endswith", "fieldref", "cased", "base64"):
            out.append(mk("f", [m], S(s)))
        for p in (rng.sample(pairs, 3) if quick else pairs):
            out.append(mk("f", p, S(s)))
    if not quick:
        ss3 = small_strings(['a', '*', '\\', '%', '-', ' '], 3)
        for s in ss3:
            for p in pairs + [("re", "startswith"), ("re", "endswith"), ("re", "expand", "contains")]:
                out.append(mk("f", p, S(s)))
        # all chains of length 3 on a few values
        vals3 = [S("-a%x%*"), S("a"), I(7), F(1.5), B(True), {"list": [S("\\%-b"), S("c?")]}]
        for ch in itertools.product(MODS, repeat=3):
            out.append(mk("f", ch, vals3[rng.randrange(len(vals3))]))
    # (2b) typed streams: every order of type-changing modifiers mixed with expand / contains / startswith /
    # endswith, on values of the type they apply to.  Regular expressions: all chains of 1..3 modifiers after
    # 're' over the flags, expand, the wildcard adders and all/neq, on valid patterns (so that the flag set and
    # the pattern are observed at every position of i/m/s relative to expand/contains/...)
    re_mods = ["i", "m", "s", "ignorecase", "expand", "contains", "startswith", "endswith", "all", "neq"]
    re_vals = [S("a%x%"), S("^a.*$"), S("a\\%b%c%"), S(".*x-y"), S(""), S("a?%u%$"), S("\\%a%b"), S("%a% *"),
               {"list": [S("a%x%"), S("b")]}]
    for n in (1, 2, 3):
        for ch in itertools.product(re_mods, repeat=n):
            k = (3 if n < 3 else 1) if quick else (len(re_vals) if n < 3 else 3)
            for v in rng.sample(re_vals, k):
                out.append(mk("f", ("re",) + ch, v))
    for _ in range(150 if quick else 3000):
        out.append(mk("f", ["re"] + [rng.choice(re_mods) for _ in range(4)], rng.choice(re_vals)))
    str_mods = ["cased", "expand", "contains", "startswith", "endswith", "windash", "fieldref", "all"]
    str_vals = [S("-a%x%"), S("a\\%b%c -d"), S("*a/b%u%*"), S("A"), {"list": [S("%x%-y"), S("-z*")]}]
    for n in (2, 3):
        for ch in itertools.product(str_mods, repeat=n):
            for v in rng.sample(str_vals, (1 if n == 3 else 2) if quick else (2 if n == 3 else len(str_vals))):
                out.append(mk("f", ch, v))
    num_mods = ["lt", "lte", "gt", "gte", "minute", "hour", "year", "all", "neq"]
    num_vals = [I(7), F(61.5), F(-1.7), I(2 ** 40), {"list": [I(1), F(2.5)]}]
    for n in (2, 3):
        for ch in itertools.product(num_mods, repeat=n):
            for v in rng.sample(num_vals, 1 if quick else 3):
                out.append(mk("f", ch, v))
    # (3) random: biased towards admissible chains, lengths 1..4, random values, with / without field
    for _ in range(1500 if quick else 15000):
        v = rand_value(rng)
        first = (v["list"][0] if v.get("list") else None) if "list" in v else v
        kind = "other"
        if first is not None:
            kind = "str" if "s" in first else "num" if ("i" in first or "f" in first) else "bool" if "b" in first else "other"
        ch = sensible_chain(rng, kind, rng.randint(1, 4))
        out.append(mk(rng.choice(["f", "f", "f", "", None, "Ünï"]), ch, v))
    # (4) random: uniform chains of length 3..4 from the full table (mostly inadmissible)
    for _ in range(300 if quick else 4000):
        out.append(mk("f", [rng.choice(MODS) for _ in range(rng.randint(3, 4))], rand_value(rng)))
    # (5) dash / percent heavy random strings for windash and expand, alone and combined
    dash_alpha = ['-', '/', 'a', ' ', '_', '*', 'é', '\u2013', '-', '/']
    pct_alpha = ['%', '\\', 'a', 'b', '%', '*', ' ', '\\']
    for _ in range(400 if quick else 5000):
        out.append(mk("f", rng.choice([["windash"], ["windash", "contains"], ["cased", "windash"], ["windash", "all"]]),
                      S(rand_str(rng, 10, dash_alpha))))
        out.append(mk("f", rng.choice([["expand"], ["expand", "contains"], ["re", "expand"], ["expand", "windash"]]),
                      S(rand_str(rng, 10, pct_alpha))))
    return out


# ---------------------------------------------------------------------------------------------
def scalars(case):
    v = case["val"]
    return v["list"] if "list" in v else [v]


def ids_of(case):
    k = case["key"]
    return [] if k is None else k.split("|")[1:]


def valid_cidr(s):
    try:
        ipaddress.ip_network(s)
        return True
    except ValueError:
        return False


def int_lossy(n):
    try:
        return int(float(n)) != n
    except OverflowError:
        return True


def k_windash_placeholder(case):
    ids = ids_of(case)
    if "expand" in ids and "windash" in ids and ids.index("expand") < len(ids) - 1 - ids[::-1].index("windash"):
        return any("s" in x and "%_windash%" in x["s"] for x in scalars(case))
    return False


def k_lossy_int(case):
    return any("i" in x and int_lossy(int(x["i"])) for x in scalars(case))


def known_item(case, r):
    if k_lossy_int(case): return "C03-int-beyond-float-precision"
    if k_windash_placeholder(case): return "C03-windash-expands-user-placeholder"
    return None


def re_unmodelled(case):
    return "re" in ids_of(case) and any("s" in x and (set(x["s"]) & RE_UNMODELLED) for x in scalars(case))


TS = {"MINUTE": "TMinute", "HOUR": "THour", "DAY": "TDay", "WEEK": "TWeek", "MONTH": "TMonth", "YEAR": "TYear"}
OPS = {"LT": "OLt", "LTE": "OLte", "GT": "OGt", "GTE": "OGte"}
ERR = {"SigmaValueError": 1, "SigmaPlaceholderError": 2, "SigmaTypeError": 3, "SigmaConditionError": 4,
       "SigmaRegularExpressionError": 5, "SigmaModifierError": 6}


def cparts(ps):
    t = []
    for p in ps:
        if p[0] == "s": t.append(f"PStr {cstr(p[1])}")
        elif p[0] == "m": t.append("PMulti")
        elif p[0] == "q": t.append("PSingle")
        elif p[0] == "p": t.append(f"PPh {cstr(p[1])}")
    return clist(t)


def cnum(n):
    if n[0] == "i": return f"(NInt {cZ(int(n[1]))})"
    return f"(NFloat {cZ(int(n[1]))} {int(n[2])}%positive)"


def cnumv(n):
    if n[0] == "ts": return f"(NTs {TS[n[1]]} {cZ(int(n[2]))})"
    return f"(NPlain {cnum(n[1])})"


def cval(v):
    k = v[0]
    if k == "x": return f"(VExp {clist(cval(x) for x in v[1])})"
    if k == "str": a = f"AStr {cbool(v[1])} {cparts(v[2])}"
    elif k == "num": a = f"ANum {cnumv(v[1])}"
    elif k == "bool": a = f"ABool {cbool(v[1])}"
    elif k == "null": a = "ANull"
    elif k == "re": a = f"ARe {cparts(v[1])} {cbool(v[2])} {cbool(v[3])} {cbool(v[4])}"
    elif k == "cidr": a = f"ACidr {cstr(v[1])}"
    elif k == "cmp": a = f"ACmp {OPS[v[1]]} {cnumv(v[2])}" if v[1] in OPS else "AOther"
    elif k == "fr": a = f"AFieldRef {cstr(v[1])} {cbool(v[2])} {cbool(v[3])}"
    elif k == "ex": a = f"AExists {cbool(v[1])}"
    else: a = "AOther"
    return f"(VAtom ({a}))"


def cyv(x):
    if "s" in x: return f"(YStr {cstr(x['s'])})"
    if "i" in x: return f"(YInt {cZ(int(x['i']))})"
    if "f" in x:
        f = float(x["f"])
        if not math.isfinite(f): return "YNonFinite"
        a, b = f.as_integer_ratio()
        return f"(YFloat {cZ(a)} {b}%positive)"
    if "b" in x: return f"(YBool {cbool(x['b'])})"
    if "n" in x: return "YNull"
    return "YOther"


def b64_left_to_c04(case):
    """base64 / base64offset on strings with non-ASCII characters or backslashes: the byte form of such values
    (character vs byte count, escaped wildcards) is the subject of property C04 and of its repairs (D7, D8);
    C03 does not pin it down"""
    ids = ids_of(case)
    if "base64" in ids or "base64offset" in ids:
        return any("s" in x and (not x["s"].isascii() or "\\" in x["s"]) for x in scalars(case))
    return False


def item_to_coq(case, r):
    if re_unmodelled(case):
        return None          # regular-expression syntax outside the modelled fragment of re.compile
    if b64_left_to_c04(case):
        return None
    key = copt(cstr(case["key"]) if case["key"] is not None else None)
    v = case["val"]
    yin = f"(YMany {clist(cyv(x) for x in v['list'])})" if "list" in v else f"(YOne {cyv(v)})"
    cid = clist(cstr(x["s"]) for x in scalars(case) if "s" in x and valid_cidr(x["s"]))
    if "exc" in r:
        obs = f"(SigmaErr {ERR.get(r['exc'], 99)})" if r.get("sigma") else "(Crash 1)"
    else:
        vals = [cval(x) for x in r["values"]]
        if r["and"] is None or type(r["neg"]) is not bool:
            vals.append("(VAtom AOther)")
        obs = f"(Ok ({clist(vals)}, {cbool(bool(r['and']))}, {cbool(bool(r['neg']))}))"
    return f"(({key}, {yin}, {cid}, {obs}) : option str * yin * list str * obs)"


def mutate_item(case, rng):
    out = []
    field = None if case["key"] is None else case["key"].split("|")[0]
    ids = ids_of(case)
    v = case["val"]
    for i in range(len(ids)):
        out.append(mk(field, ids[:i] + ids[i + 1:], v))
        if i + 1 < len(ids):
            out.append(mk(field, ids[:i] + [ids[i + 1], ids[i]] + ids[i + 2:], v))
    sc = scalars(case)
    for j, x in enumerate(sc):
        if "s" not in x: continue
        s = x["s"]
        cand = [s[:i] + s[i + 1:] for i in range(len(s))]
        for i in range(len(s) + 1):
            for ch in ['-', '%', '\\', '*', 'a', ' ']:
                cand.append(s[:i] + ch + s[i:])
        for t in cand[:60]:
            nv = sc[:j] + [S(t)] + sc[j + 1:]
            out.append(mk(field, ids, {"list": nv} if "list" in v else nv[0]))
    for m in ["contains", "windash", "expand", "re", "cased", "all", "neq", "startswith", "endswith"]:
        out.append(mk(field or "f", ids + [m], v))
        out.append(mk(field or "f", [m] + ids, v))
    for s in ["-a", "a", "%a%", "", "*a*", "\\%-b"]:
        out.append(mk(field or "f", ids, S(s)))
    return out


def stratum_item(case, r):
    ids = ids_of(case)
    n = len(ids)
    res = "err" if isinstance(r, dict) and "exc" in r else "ok"
    return f"len{min(n, 4)}-{res}"


REQ = ["Base.Chars", "Base.Outcome", "Model.SString", "Model.Modifiers", "Spec.Items", "Spec.ModSpec", "Proofs.ModifiersP", "Run.C03run"]
PROPERTY = Property(
    pid="C03", props_file="Props/C03.v",
    suites=[Suite("item", gen_item, "run_item", REQ, "judge_item", item_to_coq, known=known_item, mutate=mutate_item,
                  stratum=stratum_item, shard=400)],
    rule="SigmaDetectionItem.from_mapping(key, value): every modifier chain of length <= 2 over the 33-entry table on fixed values "
         "(quick: 3, thorough: 12 sampled values per chain out of 27), exhaustive strings over {a B * ? \\ % - / space e-acute en-dash} up to "
         "length 3 (thorough: plus length 4 over 8 of them) under windash and expand, up to 2 / 3 (plus . ^ $ +) under re, all length-3 chains (thorough), "
         "typed streams: all chains of 1..3 modifiers after 're' over {i m s ignorecase expand contains startswith endswith all neq} on valid patterns, all chains of length 2..3 over {cased expand contains startswith endswith windash fieldref all} on strings and over the comparison / timestamp modifiers on numbers; random chains of length 1..4 (biased to admissible and uniform) on random strings up to 12 incl. non-ASCII word / non-word "
         "characters, ints, floats, bools, null, lists up to 3, unsupported types; hostile list from DESIGN section 7. "
         "non-trivial = at least one modifier and a string with a special character, or a chain of length >= 2",
    assumptions=[
        "Python re: \\w is exact for ASCII and a table for the 18 non-ASCII code points generated; re.compile success is modelled for "
        "patterns over literals . ^ $ backslash-escapes and the quantifiers * ? + (cases with ( ) [ ] { } | under 're' are skipped); "
        "both validated by the correspondence only; theorems hold for every such oracle",
        "ipaddress.ip_network success is an oracle: the harness evaluates it on the source strings and passes the valid ones to the judge",
        "strings are sequences of Unicode scalar values (no lone surrogates)",
        "content of base64 / base64offset / wide / utf16 / utf16be is modelled and compared (bit 1, bit 2) but no theorem of C03 speaks about it (property C04)",
    ],
)
