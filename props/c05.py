import itertools, random
from vlib.core import Property, Suite, cstr, clist, cbool, copt

ALPHA = ['\\', '*', '?', '"', "'", ':', '&', '%', '.', '(', '[', 'a', 'B', ' ']
SMALL = ['\\', '*', '?', 'a', '"', '.']

def strings(tier, rng, nrandom):
    out = []
    kmax = 3 if tier == "quick" else 4
    for k in range(kmax + 1):
        out += ["".join(t) for t in itertools.product(ALPHA, repeat=k)]
    smax = 4 if tier == "quick" else 7
    for k in range(kmax + 1, smax + 1):
        out += ["".join(t) for t in itertools.product(SMALL if k <= 5 else SMALL[:4], repeat=k)]
    for _ in range(nrandom):
        n = rng.randint(5, 14)
        out.append("".join(rng.choice(ALPHA + ['\\', '*', 'é', '€']) for _ in range(n)))
    return out

def cparts(ps):
    t = []
    for p in ps:
        if p[0] == "s": t.append(f"PStr {cstr(p[1])}")
        elif p[0] == "m": t.append("PMulti")
        elif p[0] == "q": t.append("PSingle")
        elif p[0] == "p": t.append(f"PPh {cstr(p[1])}")
        else: return None
    return clist(t)

def cout(r, key):
    if "exc" in r:
        if r.get("sigma"):
            tag = {"SigmaValueError": 1, "SigmaPlaceholderError": 2, "SigmaTypeError": 3}.get(r["exc"], 99)
            return f"(SigmaErr {tag})"
        return "(Crash 1)"
    return f"(Ok {cstr(r[key])})"

# ---- plain ----
def gen_plain(tier, rng):
    return [{"s": s} for s in strings(tier, rng, 1500 if tier == "quick" else 30000)]

def plain_to_coq(c, r):
    if "exc" in r: return None
    a, b = cparts(r["parts"]), cparts(r["re"])
    return f"({cstr(c['s'])}, {a}, {cstr(r['plain'])}, {b})"

def cased_to_coq(c, r):
    if "exc" in r: return None
    ok = "true" if r["cls"] == "SigmaCasedString" else "false"
    return f"({cstr(c['s'])}, {cparts(r['conv'])}, {cparts(r['direct'])}, {cparts(r['after'])}, {ok})"

def bs_adjacent(s):
    """literal backslash directly followed by wildcard / literal wildcard char / backslash (source-level scan)"""
    import re
    # a backslash that stays literal and is followed by * ? or \  : detect via the implementation-independent item reader
    items = []
    i = 0
    while i < len(s):
        c = s[i]
        if c == '\\':
            if i + 1 < len(s) and s[i+1] in '*?\\':
                items.append(('L', s[i+1])); i += 2; continue
            items.append(('L', '\\')); i += 1; continue
        if c in '*?': items.append(('W', c))
        else: items.append(('L', c))
        i += 1
    for a, b in zip(items, items[1:]):
        if a == ('L', '\\') and (b[0] == 'W' or b[1] in '*?\\'):
            return True
    return False

def known_plain(c, r):
    return "D10-to_plain-backslash-adjacency" if bs_adjacent(c["s"]) else None

# ---- convert ----
CONFIGS = [
    {"esc": "\\", "multi": "*", "single": "?", "add": "\\\"", "filter": ""},
    {"esc": "\\", "multi": "*", "single": "?", "add": ":\"", "filter": ""},      # shipped test backend (escape not self-escaped)
    {"esc": "\\", "multi": "%", "single": "_", "add": "\\'", "filter": ""},
    {"esc": "^", "multi": "*", "single": "?", "add": "^\"&", "filter": ""},
    {"esc": "\\", "multi": ".*", "single": ".", "add": "\\\"()[", "filter": ""},
    {"esc": "\\", "multi": "*", "single": None, "add": "\\\"", "filter": ""},
    {"esc": "\\", "multi": None, "single": None, "add": "\\'", "filter": "&"},
    {"esc": "\\", "multi": "*", "single": "?", "add": "\"", "filter": "\\'"},       # escape char filtered
    {"esc": None, "multi": "*", "single": "?", "add": "", "filter": ""},
    {"esc": None, "multi": "*", "single": "?", "add": "\"", "filter": ""},
    {"esc": "\\", "multi": "*", "single": "?", "add": "", "filter": ""},
    {"esc": "\\", "multi": "**", "single": "?", "add": "\\\"", "filter": ":"},
    {"esc": "\\", "multi": "", "single": "?", "add": "\\", "filter": ""},
]
def gen_convert(tier, rng):
    out = []
    ss = strings("quick", rng, 300 if tier == "quick" else 6000)
    if tier == "quick":
        ss = [s for s in ss if len(s) <= 2] + rng.sample([s for s in ss if len(s) > 2], 900)
    for s in ss:
        ks = CONFIGS if tier != "quick" else rng.sample(CONFIGS, 3)
        for k in ks:
            out.append({"k": k, "s": s})
    for _ in range(300 if tier == "quick" else 5000):
        k = {"esc": rng.choice(["\\", "^", "`", None]), "multi": rng.choice(["*", "%", ".*", None, "&"]),
             "single": rng.choice(["?", "_", ".", None, "*"]),
             "add": "".join(rng.sample(['\\', '"', "'", ':', '^', '&', '(', '`'], rng.randint(0, 4))),
             "filter": "".join(rng.sample(['&', "'", '[', '\\'], rng.randint(0, 2)))}
        out.append({"k": k, "s": "".join(rng.choice(ALPHA + ['^', '`', '_']) for _ in range(rng.randint(0, 8)))})
    return out

def ccfg(k):
    esc = copt(str(ord(k["esc"])) if k["esc"] is not None else None)
    m = copt(cstr(k["multi"]) if k["multi"] is not None else None)
    s = copt(cstr(k["single"]) if k["single"] is not None else None)
    return f"{{| e_esc := {esc}; e_multi := {m}; e_single := {s}; e_add := {cstr(k['add'])}; e_filter := {cstr(k['filter'])} |}}"

def convert_to_coq(c, r):
    return f"({ccfg(c['k'])}, {cstr(c['s'])}, {cout(r, 'q')})"

def wf_escaping(k):
    e = k["esc"]
    if e is None: return False
    esc = (k["multi"] or "") + (k["single"] or "") + k["add"]
    if not (e in esc or e in k["filter"]): return False
    for w in (k["multi"], k["single"]):
        if w is not None and (w == "" or w[0] == e): return False
    if k["multi"] and k["single"] and k["multi"][0] == k["single"][0]: return False
    return True

def known_convert(c, r):
    return None if wf_escaping(c["k"]) else "D23-escaping-configuration-not-self-escaping"

# ---- regex ----
SUBJ_ALPHA = ['a', '*', '\\', '.']
def gen_regex(tier, rng):
    out = []
    ss = strings("quick", rng, 200 if tier == "quick" else 4000)
    if tier == "quick":
        ss = [s for s in ss if len(s) <= 2] + rng.sample([s for s in ss if len(s) > 2], 700)
    allsubj = ["".join(t) for k in range(0, 4) for t in itertools.product(SUBJ_ALPHA, repeat=k)]
    for s in ss:
        subj = rng.sample(allsubj, 6)
        # subjects derived from the source itself: drop backslashes, replace wildcards
        lit = s.replace("\\", "")
        subj += [lit, lit.replace("*", "xy").replace("?", "z"), s, s.replace("*", ""), s.replace("\\*", "*").replace("\\?", "?").replace("\\\\", "\\")]
        out.append({"s": s, "subjects": subj})
    return out

def regex_to_coq(c, r):
    if "exc" in r:
        return f"({cstr(c['s'])}, {cout(r, 'rx')}, [])"
    subj = clist(f"({cstr(x)}, {cbool(m)})" for x, m in zip(c["subjects"], r["m"]))
    return f"({cstr(c['s'])}, (Ok {cstr(r['rx'])}), {subj})"

def mutate_str(c, rng):
    s = c["s"]
    out = []
    for i in range(len(s) + 1):
        for ch in ['\\', '*', '?', 'a', '"']:
            out.append(dict(c, s=s[:i] + ch + s[i:]))
    for i in range(len(s)):
        out.append(dict(c, s=s[:i] + s[i+1:]))
    return out

# ---- quoted literals ----
def gen_quoted(tier, rng):
    out = []
    ss = strings("quick", rng, 200 if tier == "quick" else 5000)
    if tier == "quick":
        ss = [s for s in ss if len(s) <= 2] + rng.sample([s for s in ss if len(s) > 2], 700)
    for s in ss:
        for k in (rng.sample(CONFIGS, 2) if tier == "quick" else CONFIGS):
            out.append({"k": k, "q": rng.choice(['"', "'", '"', "|"]), "s": s})
    return out

def quoted_to_coq(c, r):
    return f"({ccfg(c['k'])}, {ord(c['q'])}, {cstr(c['s'])}, {cout(r, 'q')})"

def wf_quoting(k, q):
    k2 = dict(k, add=q + k["add"])
    if not wf_escaping(k2) or k["esc"] == q: return False
    for w in (k["multi"], k["single"]):
        if w and w[0] == q: return False
    return True

def known_quoted(c, r):
    return None if wf_quoting(c["k"], c["q"]) else "D23-escaping-configuration-not-self-escaping"

# ---- field names ----
FCONFIGS = [
    {"quote": "'", "escape": "\\", "escape_quote": True, "escape_pattern": r"[\\\s]", "quote_pattern": r"^\w+$"},
    {"quote": '"', "escape": "\\", "escape_quote": True, "escape_pattern": r"\\", "quote_pattern": None},
    {"quote": "'", "escape": None, "escape_quote": True, "escape_pattern": None, "quote_pattern": r"^\w+$"},   # shipped test backend
    {"quote": None, "escape": "\\", "escape_quote": True, "escape_pattern": r"[\s\\]", "quote_pattern": None},
    {"quote": "`", "escape": "\\", "escape_quote": False, "escape_pattern": r"[\\`]", "quote_pattern": None},
    {"quote": "'", "escape": "\\", "escape_quote": True, "escape_pattern": None, "quote_pattern": None},
    {"quote": "'", "escape": "\\", "escape_quote": False, "escape_pattern": r"\\", "quote_pattern": None},
    # the escape pattern also matches the quote character (a position found twice must be escaped once)
    {"quote": "'", "escape": "\\", "escape_quote": True, "escape_pattern": r"[^\w]", "quote_pattern": r"^\w+$"},
    {"quote": '"', "escape": "\\", "escape_quote": True, "escape_pattern": r"[\"\\ ]", "quote_pattern": None},
]
FALPHA = ["a", "B", "'", '"', "\\", " ", "`", ".", "_", "é"]
def gen_field(tier, rng):
    fs = ["".join(t) for k in range(0, 4 if tier == "quick" else 5) for t in itertools.product(FALPHA, repeat=k)]
    if tier == "quick":
        fs = [f for f in fs if len(f) <= 2] + rng.sample([f for f in fs if len(f) > 2], 400)
    fs += ["".join(rng.choice(FALPHA) for _ in range(rng.randint(4, 9))) for _ in range(200 if tier == "quick" else 3000)]
    return [{"k": k, "f": f} for f in fs for k in (rng.sample(FCONFIGS, 4) if tier == "quick" else FCONFIGS)]

def quote_decision(k, f):
    import re
    if k["quote"] is None: return False
    if k["quote_pattern"] is None: return True
    # all configurations with a quote pattern escape only non-word characters, so the decision on the
    # escaped name equals the decision on the original name
    return not bool(re.match(k["quote_pattern"], f))

def field_to_coq(c, r):
    if "exc" in r: return None
    k = c["k"]
    K = "{| f_quote := %s; f_escape := %s; f_escape_quote := %s |}" % (
        copt(str(ord(k["quote"])) if k["quote"] else None), copt(cstr(k["escape"]) if k["escape"] else None), cbool(k["escape_quote"]))
    P = clist(f"{i}%nat" for i in r["pos"])
    return f"({K}, {P}, {cbool(quote_decision(k, c['f']))}, {cstr(c['f'])}, {cstr(r['text'])})"

def known_field(c, r):
    k, f = c["k"], c["f"]
    if "exc" in r: return None
    ok = k["escape"] is not None and all((ch != k["escape"]) or (i in r["pos"]) for i, ch in enumerate(f))
    if ok and k["quote"] and quote_decision(k, f):
        ok = k["quote"] != k["escape"] and (k["escape_quote"] or k["quote"] not in f)
    return None if ok else "D32-field-escaping-configuration-incomplete"

# ---- SigmaRegularExpression.escape ----
RX_ALPHA = ["a", "\\", "/", "*", ".", '"', " ", "b", "«"]
RX_CONFIGS = [
    {"escaped": ["/"], "ec": "\\", "eec": True}, {"escaped": ["/"], "ec": "\\", "eec": False},
    {"escaped": ["/", "«", '"'], "ec": "\\", "eec": True}, {"escaped": [], "ec": "\\", "eec": True},
    {"escaped": [], "ec": "\\", "eec": False}, {"escaped": ['"'], "ec": "^", "eec": True},
    {"escaped": ["ab", "a"], "ec": "\\", "eec": True}, {"escaped": ["a", "ab"], "ec": "\\", "eec": False},
    {"escaped": ["/*", "/"], "ec": "\\\\", "eec": True},
]
def gen_rxescape(tier, rng):
    import re as _re
    ss = ["".join(t) for k in range(0, 5 if tier == "quick" else 6) for t in itertools.product(RX_ALPHA, repeat=k)]
    ok = []
    for s in ss:
        try:
            _re.compile(s); ok.append(s)
        except _re.error:
            pass
    if tier == "quick":
        ok = [s for s in ok if len(s) <= 3] + rng.sample([s for s in ok if len(s) > 3], 600)
    out = []
    for s in ok:
        for k in rng.sample(RX_CONFIGS, 3 if tier == "quick" else len(RX_CONFIGS)):
            flags = "".join(sorted(rng.sample("ims", rng.choice([0, 0, 1, 2, 3]))))
            out.append(dict(k, s=s, flags=flags, fp=rng.random() < 0.4))
    return out

def rxescape_to_coq(c, r):
    if "exc" in r: return None
    return "(%s, %s, %s, %s, %s, %s, %s)" % (clist(cstr(e) for e in c["escaped"]), cstr(c["ec"]), cbool(c["eec"]), cbool(c["fp"]),
                                              cstr(c["flags"]), cstr(c["s"]), cstr(r["q"]))

# ---- slices ----
def gen_slice(tier, rng):
    out = []
    ss = [s for s in strings("quick", rng, 100) if len(s) <= 3] if tier == "quick" else strings("quick", rng, 2000)
    ss = rng.sample(ss, min(len(ss), 500 if tier == "quick" else 6000)) + ["*a*", "*ab?c*", "a\\*b", "ab*cd", "*", "**", "a*"]
    for s in ss:
        opts = [None, 0, 1, 2, 3, -1, -2, 5, -6]
        picks = [(1, None), (None, -1), (1, -1)] + [(rng.choice(opts), rng.choice(opts)) for _ in range(4)]
        for a, b in picks:
            out.append({"s": s, "start": a, "stop": b})
    return out

def coz(x):
    return "None" if x is None else f"(Some ({x})%Z)"

def slice_to_coq(c, r):
    if "exc" in r:
        o = "(Crash 7)" if r["exc"] == "IndexError" else ("(SigmaErr 99)" if r.get("sigma") else "(Crash 1)")
    else:
        p = cparts(r["parts"])
        if p is None: return None
        o = f"(Ok {p})"
    return f"({cstr(c['s'])}, {coz(c['start'])}, {coz(c['stop'])}, {o})"

def known_slice(c, r):
    # both bounds given: the early-return path of __getitem__ re-parses a substring of one plain part
    if c["start"] is not None and c["stop"] is not None and any(ch in c["s"] for ch in "*?\\"):
        return "D31-inner-slice-reparses-plain-part"
    return None

# ---- full leaf rendering through a backend (operator selection + slices + quoting); shared with C01 ----
from props import c01 as _c01
from props import c01_leaf as _lf

def gen_backendleaf(tier, rng):
    # the complete leaf renderers of TextQueryBackend (operator selection, quoting decision, escaping of the value in its string
    # and regular-expression forms, field name escaping/quoting) on string values with every kind of field name; a case-sensitive
    # keyword keeps its characters but loses its match kind, which is C01's subject (C01-unbound-cased-dropped), not this one's
    return [c for c in _lf.gen_leaf(tier, rng)
            if c["value"]["t"] == "str" and not (c["field"] is None and c["value"].get("cased"))]
REQ = ["Base.Chars", "Base.Outcome", "Model.SString", "Spec.Items", "Run.C05run"]
PROPERTY = Property(
    pid="C05", props_file="Props/C05.v",
    suites=[
        Suite("plain", gen_plain, "run_plain", REQ, "judge_plain", plain_to_coq, known=known_plain, mutate=mutate_str),
        Suite("cased", gen_plain, "run_cased", REQ, "judge_cased", cased_to_coq, mutate=mutate_str),
        Suite("convert", gen_convert, "run_convert", REQ, "judge_convert", convert_to_coq, known=known_convert, mutate=mutate_str),
        Suite("regex", gen_regex, "run_regex", REQ, "judge_regex", regex_to_coq, mutate=mutate_str),
        Suite("quoted", gen_quoted, "run_quoted", REQ, "judge_quoted", quoted_to_coq, known=known_quoted, mutate=mutate_str),
        Suite("field", gen_field, "run_field", REQ + ["Model.FieldName"], "judge_field", field_to_coq, known=known_field),
        Suite("leaf", _c01.gen_strop, "run_strop", _c01.REQ + ["Model.StrOp", "Spec.Items"], "judge_strop", _c01.strop_to_coq),
        Suite("backendleaf", gen_backendleaf, "run_leaf", _c01.REQ_LEAF, "judge_leaf", _lf.leaf_to_coq, stratum=_lf.stratum_leaf,
              mutate=_lf.mutate_leaf, known=_lf.known_leaf, py_oracle=_lf.py_oracle_leaf, shard=150),
        Suite("rxescape", gen_rxescape, "run_rxescape", REQ + ["Model.RxEscape"], "judge_rxescape", rxescape_to_coq),
        Suite("slice", gen_slice, "run_slice", REQ + ["Model.Slice"], "judge_slice", slice_to_coq, known=known_slice, mutate=mutate_str),
    ],
    rule="strings over {\\ * ? \" ' : & % . ( [ a B space}: exhaustive up to length 3 (quick) / 4 (thorough), longer over a reduced alphabet, "
         "random up to 14 incl. non-ASCII; x escaping configurations (13 fixed incl. the shipped test backend, plus random); regex form matched with "
         "re.fullmatch on subjects. non-trivial = the string contains a character that is special for the rendering at hand; distinct by (suite, case hash)",
    assumptions=["Python re.fullmatch with DOTALL is the reference semantics of the emitted regular expression; "
                 "the model's reading of the regex fragment (rdecode) is validated against it on the sampled subjects only",
                 "escape_char is modelled as a single character (option char)"],
)
