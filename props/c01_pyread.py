"""The first version's Python reader of the verification backend's queries (lexer and atom decoder). Suite struct of
C01 now reads queries inside Coq (Spec/Lex.v, Spec/Atom.v, Spec/Query.v); this module is kept for C12, which compares
the atoms of two queries of the same backend with it."""
import re
from props.c01 import dec_str, norm

def unesc_re(t):
    return re.sub(r"\\([/«»\\])", r"\1", t)


def dec_list(t):
    """elements of an in-list: quoted strings or numbers separated by ', '"""
    out, i = [], 0
    while i < len(t):
        if t[i] == '"':
            j = i + 1
            while j < len(t) and t[j] != '"':
                j += 2 if t[j] == "\\" else 1
            out.append(t[i:j + 1]); i = j + 1
        else:
            j = t.find(", ", i)
            j = len(t) if j < 0 else j
            out.append(t[i:j]); i = j
        if t[i:i + 2] == ", ":
            i += 2
        elif i < len(t):
            return None
    return out


F = r"([A-Za-z0-9_]+)"
def decode_atom(text):
    """-> ('atom', triple, negated) | ('in', disj, field, [triples]) | None"""
    m = re.fullmatch(r"«(.*)»(.*)", text, flags=re.S)
    if not m:
        b = re.fullmatch(F + r"=(.+)", text)
        if b:
            return ("atom", ("eq", b.group(1), b.group(2)), False)
        return None
    body, suffix = m.group(1), m.group(2)
    if suffix:
        ts = re.fullmatch(F + r"\.([a-z]+)", body)
        if not ts:
            return None
        if suffix.startswith("=") and not suffix.startswith("=="):
            return ("atom", ("tspart", ts.group(1), ts.group(2), suffix[1:]), False)
        c = re.fullmatch(r"(<=|>=|<>|<|>)(.+)", suffix)
        if c:
            op = {"<": "LT", "<=": "LTE", ">": "GT", ">=": "GTE", "<>": "NEQ"}[c.group(1)]
            return ("atom", ("cmp_ts", ts.group(1), op, ts.group(2), c.group(2)), False)
        return None
    for kw, neg, mk in [("startswith", False, lambda p: p + (("M",),)), ("!startswith", True, lambda p: p + (("M",),)),
                        ("endswith", False, lambda p: (("M",),) + p), ("!endswith", True, lambda p: (("M",),) + p),
                        ("contains", False, lambda p: (("M",),) + p + (("M",),)), ("!contains", True, lambda p: (("M",),) + p + (("M",),)),
                        ("match", False, lambda p: p)]:
        mm = re.fullmatch(F + " " + re.escape(kw) + r" (\".*\")", body, flags=re.S)
        if mm:
            p = dec_str(mm.group(2))
            return None if p is None else ("atom", ("match", mm.group(1), norm(mk(p))), neg)
    for kw, neg, mk in [("cstartswith", False, lambda p: p + (("M",),)), ("!cstartswith", True, lambda p: p + (("M",),)),
                        ("cendswith", False, lambda p: (("M",),) + p), ("!cendswith", True, lambda p: (("M",),) + p),
                        ("ccontains", False, lambda p: (("M",),) + p + (("M",),)), ("!ccontains", True, lambda p: (("M",),) + p + (("M",),)),
                        ("cmatch", False, lambda p: p)]:
        mm = re.fullmatch(F + " " + re.escape(kw) + r" (\".*\")", body, flags=re.S)
        if mm:
            p = dec_str(mm.group(2))
            return None if p is None else ("atom", ("cmatch", mm.group(1), norm(mk(p))), neg)
    mm = re.fullmatch(F + r"(=~|!~)/(.*)/([ims]*)", body, flags=re.S)
    if mm:
        return ("atom", ("re", mm.group(1), unesc_re(mm.group(3)), tuple(sorted(mm.group(4)))), mm.group(2) == "!~")
    mm = re.fullmatch(r"(!?)cidr\(" + F + r",(.*)\)", body)
    if mm:
        return ("atom", ("cidr", mm.group(2), mm.group(3)), mm.group(1) == "!")
    mm = re.fullmatch(F + r" is null", body)
    if mm:
        return ("atom", ("null", mm.group(1)), False)
    mm = re.fullmatch(r"(not)?exists\(" + F + r"\)", body)
    if mm:
        return ("atom", ("exists", mm.group(2)), mm.group(1) == "not")
    mm = re.fullmatch(F + r"(==| fstartswith | fendswith | fcontains )" + F, body)
    if mm:
        kind = mm.group(2).strip()
        sw, ew = {"==": (False, False), "fstartswith": (True, False), "fendswith": (False, True), "fcontains": (True, True)}[kind]
        return ("atom", ("fieldref", mm.group(1), mm.group(3), sw, ew), False)
    mm = re.fullmatch(F + r" (in|contains-all) \((.*)\)", body, flags=re.S)
    if mm:
        els = dec_list(mm.group(3))
        if els is None:
            return None
        tr = []
        for e in els:
            if e.startswith('"'):
                p = dec_str(e)
                if p is None:
                    return None
                tr.append(("match", mm.group(1), norm(p)))
            else:
                tr.append(("eq", mm.group(1), e))
        return ("in", mm.group(2) == "in", mm.group(1), tr)
    mm = re.fullmatch(F + r"(<=|>=|<>|<|>)([-0-9.e+]+)", body)
    if mm:
        op = {"<": "LT", "<=": "LTE", ">": "GT", ">=": "GTE", "<>": "NEQ"}[mm.group(2)]
        return ("atom", ("cmp", mm.group(1), op, mm.group(3)), False)
    mm = re.fullmatch(F + r"(=|!=)(\".*\")", body, flags=re.S)
    if mm:
        p = dec_str(mm.group(3))
        return None if p is None else ("atom", ("match", mm.group(1), norm(p)), mm.group(2) == "!=")
    mm = re.fullmatch(r"_ num ([-0-9.e+]+)", body)
    if mm:
        return ("atom", ("eq", "_", mm.group(1)), False)
    return None


def lex(q):
    """query text -> list of ('op', x) | ('L',) | ('R',) | ('atom', text); None on lexical error"""
    out, i = [], 0
    while i < len(q):
        c = q[i]
        if c == " ":
            i += 1
        elif c == "(":
            out.append(("L",)); i += 1
        elif c == ")":
            out.append(("R",)); i += 1
        elif c == "«":
            j = i + 1
            while j < len(q) and q[j] != "»":
                j += 2 if q[j] == "\\" else 1
            if j >= len(q):
                return None
            j += 1
            while j < len(q) and q[j] not in " ()":
                j += 1
            out.append(("atom", q[i:j])); i = j
        else:
            j = i
            while j < len(q) and q[j] not in " ()":
                j += 1
            w = q[i:j]
            out.append(("op", w) if w in ("and", "or", "not") else ("atom", w)); i = j
    return out


