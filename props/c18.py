"""C18 - CIDR expansion matches exactly the addresses of the network.

Suites
  expand : SigmaCIDRExpression(s) / .expand() on network texts (all prefix lengths, boundary + random
           addresses, several spellings, invalid and random texts). IPv4 exactness is decided inside Coq
           on integer ranges (Spec.Net.exact_cover4 through the verified pattern_range4); IPv6 coverage is
           decided on sample addresses of the network whose canonical text is produced by ipaddress.
  native : conversion of `f|cidr: s` by a backend with a native CIDR template (four fields) and by a
           backend without one (query = OR of the expanded patterns).
  render : conversion by backends without a native template for the four combinations of convert_or_as_in x
           in_expressions_allow_wildcards; the rendered query is read back with the semantics the backend
           declares (values of a value list are literals unless wildcards are allowed in lists) and exactness
           (IPv4, integer ranges) / coverage (IPv6, samples) is decided on the query.
  print6 : the RFC 5952 printer of the model against ipaddress.
"""
import ipaddress, random, re
from vlib.core import Property, Suite, cstr, clist, copt

M32, M128 = (1 << 32) - 1, (1 << 128) - 1

# ------------------------------------------------------------------ spelling helpers (harness side)
def show4(a):
    return ".".join(str((a >> s) & 255) for s in (24, 16, 8, 0))

def groups6(a):
    return [(a >> (16 * (7 - k))) & 0xFFFF for k in range(8)]

def mask(bits, ln):
    return ((1 << bits) - 1) ^ ((1 << (bits - ln)) - 1)

def spell6(a, style, rng):
    g = groups6(a)
    if style == "canon":
        return str(ipaddress.IPv6Address(a))
    if style == "upper":
        return str(ipaddress.IPv6Address(a)).upper()
    if style == "full":
        return ":".join("%04x" % x for x in g)
    if style == "plain":
        return ":".join("%x" % x for x in g)
    if style == "v4tail":
        head = ":".join("%x" % x for x in g[:6])
        return head + ":" + show4(a & M32)
    if style == "zeros":
        return ":".join(("%x" % x).rjust(rng.randint(1, 4), "0")[-4:] if x < 0x1000 else "%x" % x for x in g)
    raise ValueError(style)

# ------------------------------------------------------------------ sample addresses of an IPv6 network
QUICK = [False]
def samples6(a, ln, rng, n_rand=6):
    """addresses of the network: first/last, neighbours, and zero / non-zero placements in the free groups"""
    host = 128 - ln
    hm = (1 << host) - 1
    out = {a, a | hm}
    if host:
        out |= {a + 1, (a | hm) - 1, a | (1 << (host - 1))}
    first_free = ln // 16
    vecs = []
    for k in range(first_free, 8):
        vecs.append([0xFFFF if j == k else 0 for j in range(8)])      # one group set
        vecs.append([0 if j == k else 0xFFFF for j in range(8)])      # one group clear
        vecs.append([1 if j == k else 0 for j in range(8)])
        vecs.append([0xFFFF if j <= k else 0 for j in range(8)])
        vecs.append([0 if j <= k else 1 for j in range(8)])
    if QUICK[0]:
        n_rand = 2
        vecs = rng.sample(vecs, min(len(vecs), 9))
    for _ in range(n_rand):
        vecs.append([rng.choice([0, 0, 1, 0xFFFF, 0xA0, rng.randrange(65536)]) for _ in range(8)])
    for v in vecs:
        x = 0
        for g in v:
            x = (x << 16) | g
        out.add(a | (x & hm))
    for _ in range(n_rand):
        out.add(a | rng.randrange(1 << host) if host else a)
    return sorted(out)

# ------------------------------------------------------------------ generators
V4_ADDRS = [0, M32, 0x0A000000, 0xC0A80100, 0xC0A80101, 0x7FFFFFFF, 0x80000000, 0x09630A64, 0x6463C7C8,
            0xFFFEFDFC, 0x01020304, 0x0A0B0C0D, 0xC8FF6409, 0x00000001, 0x00FF00FF]

INVALID4 = ["10.0.0.1/8", "10.0.0.0/33", "010.0.0.0/8", "10.0.0/8", "10.0.0.0.0/8", "10.0.0.0/+8", " 10.0.0.0/8",
            "10.0.0.0/8 ", "10.0.0.0/", "/8", "", "10.0.0.0/8/8", "10.0.0.256/32", "10.0.0.0/255.0.255.0",
            "10.0.0.0/0.0.0.0", "1.2.3.4/0.0.0.255", "10.0.0.0/٨", "１０.0.0.0/8", "10.0.0.0/-1",
            "10..0.0/8", "10.0.0.0/8.", "1.2.3.4/31.", "a.b.c.d/8", "10.0.0.0/1e1", "10.0.0.0/0x8", "1/132",
            "10.0.0.00/8", "0010.0.0.0/8", "1000.0.0.0/8", "10.0.0.0/255.255.255.256", "10.0.0.0\n/8",
            "192.168.1.0/24\n", "192.168.1.1/24", "255.255.255.255/31", "0.0.0.1/0", "10.0.0.0/ 8", "1.2.3.4/3 2"]
INVALID6 = ["2001:db8::1/64", "::/129", "1::2::3/128", "1:2:3:4:5:6:7:8:9/128", "12345::/16", "g::/16", ":1::/128",
            "1:::2/128", "::1%/128", "::1%a%b/128", "::1.2.3/128", "1.2.3.4::/32", "1:2:3:4:5:6:7:/128",
            ":1:2:3:4:5:6:7/128", "1:2:3:4:5:6:7/128", "::/ffff::", "::/-1", "::/", "1:2:3:4:5:6:7::8/128",
            "::1/127", "::1.2.3.4.5/128", "::01.2.3.4/128", "1::1.2.3.4:5/128", "ffff::/15", "1:2:3:4:5:6:1.2.3.4.5/128",
            "::256.1.1.1/128", "1:2:3:4:5:6:7:8::/128", "::1:2:3:4:5:6:7:8/128", "%1/128", "::%1%/64", "::/+64",
            "1:2:3:4:5:6:7:8/12 8", "::1 /128", "::ffff:1.2.3.4/96"]
VALID_ODD = ["192.168.1.1", "0.0.0.0/0.0.0.0", "10.0.0.0/255.255.255.255", "192.168.0.0/0.0.255.255", "10.0.0.0/08",
             "10.0.0.0/0000000000000000000000008", "::1", "::", "::/0", "1::/16", "::1.2.3.4/128", "::ffff:1.2.3.4",
             "1:2:3:4:5:6:1.2.3.4/128", "1:2:3:4:5:6:7::/128", "::2:3:4:5:6:7:8/128", "fe80::%eth0/64", "fe80::%1/10",
             "fe80::1%eth0/128", "fe80::1%eth0", "::%x/0", "FE80::/10", "2001:0DB8::/032", "0:0:0:0:0:0:0:0/0",
             "1:0:0:2::/64", "1:0:0:0000::/56", "0:10::/62", "2001:db8::/64", "2001:db8::/120", "::ffff:0:0/96",
             "1234:5678:0:ab00::/56", "1234:5678:0:ab00::/58", "1:0:0:2:3:4::/96", "0:0:1::/48", "1::2:0:0:0/80"]

def zero_run_templates():
    """group lists with a zero run at every position / of every length, other groups non-zero"""
    out = []
    vals = [0x2001, 0xdb8, 0xa, 0xab00, 0x1, 0xffff, 0x10, 0xf0f]
    for p in range(8):
        for n in range(1, 9 - p):
            out.append([0 if p <= k < p + n else vals[k] for k in range(8)])
    out.append(list(vals))
    out.append([0x1, 0, 0, 0x2, 0, 0, 0, 0x3])
    out.append([0, 0x10, 0, 0, 0, 0, 0, 0])
    out.append([0x1, 0, 0x2, 0, 0x3, 0, 0x4, 0])
    out.append([0, 0, 0x1, 0, 0, 0x2, 0, 0])
    return out

def g2a(g):
    a = 0
    for x in g:
        a = (a << 16) | x
    return a

def case4(a, ln, style, rng):
    a &= mask(32, ln)
    if style == "prefix": s = f"{show4(a)}/{ln}"
    elif style == "zeroprefix": s = f"{show4(a)}/{'0' * rng.randint(1, 3)}{ln}"
    elif style == "netmask": s = f"{show4(a)}/{show4(mask(32, ln))}"
    elif style == "hostmask":
        s = f"{show4(a)}/{show4(M32 ^ mask(32, ln))}"
        if ln == 32 and a != 0:    # 0.0.0.0 reads as the netmask /0: host bits set
            return {"s": s, "exp": "invalid"}
        if ln == 32: ln = 0
        elif ln == 0: ln, a = 32, a   # 255.255.255.255 reads as the netmask /32
    elif style == "bare":
        ln = 32; s = show4(a)
    return {"s": s, "exp": {"v": 4, "addr": str(a), "len": ln, "scope": None}}

def case6(a, ln, style, rng, scope=None):
    a &= mask(128, ln)
    t = spell6(a, "canon" if style == "bare" else style, rng) + ("%" + scope if scope else "")
    s = f"{t}/{ln}" if style != "bare" else t
    return {"s": s, "exp": {"v": 6, "addr": str(a), "len": ln, "scope": scope},
            "samples": [str(x) for x in samples6(a, ln, rng)]}

def mutate_text(s, rng, alphabet="0123456789abcfF.:/%* "):
    k = rng.randrange(3)
    i = rng.randrange(len(s) + 1)
    if k == 0: return s[:i] + rng.choice(alphabet) + s[i:]
    if k == 1 and s: return s[:max(i - 1, 0)] + s[max(i - 1, 0) + 1:]
    return s[:max(i - 1, 0)] + rng.choice(alphabet) + s[i:]

def gen_expand(tier, rng):
    quick = tier == "quick"
    QUICK[0] = quick
    out = []
    # ---- IPv4: every prefix length x boundary addresses (+ random), every spelling
    for ln in range(33):
        addrs = (rng.sample(V4_ADDRS, 7) if quick and ln % 8 not in (0, 1, 7) else list(V4_ADDRS)) \
            + [rng.randrange(1 << 32) for _ in range(2 if quick else 25)]
        for a in addrs:
            out.append(case4(a, ln, "prefix", rng))
        for st in ("zeroprefix", "netmask", "hostmask"):
            for a in rng.sample(addrs, 2 if quick else 8):
                out.append(case4(a, ln, st, rng))
    for a in V4_ADDRS:
        out.append(case4(a, 32, "bare", rng))
    # ---- IPv6: every prefix length x zero-run placements
    temps = zero_run_templates()
    for ln in range(129):
        ts = rng.sample(temps, 2 if quick else 14)
        fixed = [[0] * 8, [0xFFFF] * 8, [0x2001, 0xdb8, 0, 0, 0, 0, 0, 0]]
        for g in ts + (rng.sample(fixed, 1) if quick else fixed):
            out.append(case6(g2a(g), ln, "canon", rng))
        for st in ("upper", "full", "plain", "v4tail", "zeros"):
            if quick and rng.random() < 0.75: continue
            out.append(case6(g2a(rng.choice(temps)), ln, st, rng))
        for _ in range(1 if quick else 6):
            out.append(case6(rng.randrange(1 << 128), ln, "canon", rng))
        if ln % (16 if quick else 1) == 0 or ln in (1, 4, 33, 36, 127, 124):
            out.append(case6(g2a(rng.choice(temps)), ln, "canon", rng, scope=rng.choice(["eth0", "1", "x y", "*"])))
        if ln in (0, 16, 64, 112, 4, 36, 124, 1, 33, 127):
            out.append(case6(g2a(temps[36]), ln, "v4tail", rng))
    for g in temps[:: (6 if quick else 1)]:
        out.append(case6(g2a(g), 128, "bare", rng))
    out.append(case6(g2a(temps[36]), 128, "canon", rng, scope="eth0"))      # scoped host, no zero group
    out.append(case6(g2a(temps[36]), 128, "bare", rng, scope="7"))
    # ---- hand-picked valid oddities and invalid texts
    for s in VALID_ODD:
        try:
            n = ipaddress.ip_network(s)   # only used to attach samples; the expectation stays 'unknown'
            smp = [str(x) for x in samples6(int(n.network_address), n.prefixlen, rng)] if n.version == 6 else []
        except ValueError:
            smp = []
        out.append({"s": s, "exp": None, "samples": smp})
    for s in INVALID4 + INVALID6:
        out.append({"s": s, "exp": "invalid"})
    # host bits set, for every prefix length
    for ln in range(32):
        a = (rng.randrange(1 << 32) & mask(32, ln)) | (1 << rng.randrange(32 - ln))
        out.append({"s": f"{show4(a)}/{ln}", "exp": "invalid"})
    for ln in range(128):
        a = (rng.randrange(1 << 128) & mask(128, ln)) | (1 << rng.randrange(128 - ln))
        out.append({"s": f"{ipaddress.IPv6Address(a)}/{ln}", "exp": "invalid"})
    # ---- texts of unknown validity: mutations of valid texts and random strings
    base = [c["s"] for c in out if isinstance(c.get("exp"), dict)]
    for _ in range(300 if quick else 4000):
        s = mutate_text(rng.choice(base), rng)
        if rng.random() < 0.3: s = mutate_text(s, rng)
        out.append({"s": s, "exp": None})
    for _ in range(150 if quick else 2000):
        out.append({"s": "".join(rng.choice("0123456789abf.:/%") for _ in range(rng.randint(0, 12))), "exp": None})
    check_strata(out)
    return out

# ------------------------------------------------------------------ encoding into Coq terms
def cA(a):
    """128-bit address as a term built from its 16-bit groups (large decimal literals elaborate slowly in Coq)"""
    return "(A [" + ";".join(str(x) for x in groups6(int(a))) + "])"

def cnet(e):
    if e["v"] == 4:
        return f"(Net4 {e['addr']} {e['len']})"
    return f"(Net6 {cA(e['addr'])} {e['len']} {copt(cstr(e['scope']) if e['scope'] else None)})"

def cexp(e):
    if e is None: return "ExpUnknown"
    if e == "invalid": return "ExpInvalid"
    return f"(ExpNet {cnet(e)})"

def cerr(r, ty):
    if r.get("sigma"):
        return "(@SigmaErr %s %d)" % (ty, {"SigmaTypeError": 3, "SigmaValueError": 1}.get(r["exc"], 99))
    return "(@Crash %s %d)" % (ty, {"IndexError": 2}.get(r["exc"], 1))

def expand_to_coq(c, r):
    if "exc" in r:
        res, smp = cerr(r, "(net * list str)"), "(@nil (N * str))"
    else:
        res = f"(Ok ({cnet(r)}, ({clist(cstr(p) for p in r['pats'])} : list str)))"
        smp = clist(f"({cA(a)}, {cstr(t)})" for a, t in zip(c.get("samples", []), r["texts"])) if r["v"] == 6 and r["texts"] else "(@nil (N * str))"
    return f"({cstr(c['s'])}, {cexp(c.get('exp'))}, {res}, {smp})"

# ------------------------------------------------------------------ known findings (input classes)
def fixed_groups_nonzero(a, ln):
    """Spec.Net.fixed_nonzero6, the premise of theorem C18_v6_cover: every completely fixed 16-bit group of
    every nibble-aligned subnet the expansion enumerates is non-zero"""
    d = (4 - ln % 4) % 4
    nl = ln + d
    step = 1 << (128 - nl)
    return all(x != 0 for i in range(1 << d) for x in groups6(a + i * step)[: nl // 16])

def known_expand(c, r):
    # input class of D20 = complement of the premise fixed_nonzero6 of C18_v6_cover
    if isinstance(r, dict) and r.get("v") == 6:
        if not fixed_groups_nonzero(int(r["addr"]), r["len"]):
            return "D20-ipv6-expansion-misses-addresses"
    return None

def v6_stratum(s, a, ln, scope):
    """prefix length on / off hextet and nibble boundaries x form of the text"""
    b = "len%16=0" if ln % 16 == 0 else "len%4=0" if ln % 4 == 0 else "len%4!=0"
    addr = s.split("/")[0].split("%")[0]
    if scope: form = "scoped"
    elif "." in addr: form = "embedded-ipv4"
    elif addr.startswith("::"): form = "::-start"
    elif addr.endswith("::"): form = "::-end"
    elif "::" in addr: form = "::-middle"
    else: form = "no-::"
    return f"v6 {b} {form}"

V6_BOUNDS = ["len%16=0", "len%4=0", "len%4!=0"]
V6_FORMS = ["scoped", "embedded-ipv4", "::-start", "::-end", "::-middle", "no-::"]

def stratum_expand(c, r):
    if isinstance(r, dict) and "exc" in r:
        return "rejected" if r.get("sigma") else "crash"
    if r["v"] == 6:
        return v6_stratum(c["s"], int(r["addr"]), r["len"], r["scope"])
    return "v4 len%8=0" if r["len"] % 8 == 0 else "v4 len%8!=0"

def check_strata(cases):
    """every declared IPv6 stratum (boundary class x text form) must be populated by the generator"""
    seen = set()
    for c in cases:
        e = c.get("exp")
        if isinstance(e, dict) and e["v"] == 6:
            seen.add(v6_stratum(c["s"], int(e["addr"]), e["len"], e["scope"]))
    missing = [f"v6 {b} {f}" for b in V6_BOUNDS for f in V6_FORMS if f"v6 {b} {f}" not in seen]
    if missing:
        raise RuntimeError("C18 generator: empty IPv6 strata: " + ", ".join(missing))

def mutate_expand(c, rng):
    out = []
    e = c.get("exp")
    if isinstance(e, dict):
        bits = 32 if e["v"] == 4 else 128
        for ln in range(bits + 1):
            a = int(e["addr"]) & mask(bits, ln)
            out.append(case4(a, ln, "prefix", rng) if bits == 32 else case6(a, ln, "canon", rng))
    for _ in range(60):
        out.append({"s": mutate_text(c["s"], rng), "exp": None})
    return out

# ------------------------------------------------------------------ native suite
def gen_native(tier, rng):
    quick = tier == "quick"
    QUICK[0] = quick
    out = []
    for ln in range(33):
        for a in rng.sample(V4_ADDRS, 1 if quick else 8) + [rng.randrange(1 << 32)]:
            c = case4(a, ln, rng.choice(["prefix", "prefix", "netmask", "zeroprefix"]), rng)
            out.append({"s": c["s"], "net": c["exp"]})
    temps = zero_run_templates()
    for ln in range(129):
        for g in rng.sample(temps, 1 if quick and ln % 4 else 2 if quick else 10):
            c = case6(g2a(g), ln, rng.choice(["canon", "canon", "upper", "full", "v4tail"]), rng)
            out.append({"s": c["s"], "net": c["exp"]})
        if ln % 8 == 0:
            c = case6(g2a(rng.choice(temps)), ln, "canon", rng, scope=rng.choice(["eth0", "7"]))
            out.append({"s": c["s"], "net": c["exp"]})
    return out

def native_to_coq(c, r):
    n, e = r["native"], r["expanded"]
    rn = f"(Ok ({clist(cstr(x) for x in n['fields'])} : list str))" if "fields" in n else cerr(n, "(list str)") if "exc" in n else None
    if rn is None: return None
    if "exc" in e:
        re_, qp = cerr(e, "str"), "(@nil str)"
    else:
        if not isinstance(e["q"], str): return None
        re_ = f"(Ok {cstr(e['q'])})"
        qp = "(" + clist(cstr(x) for x in re.findall(r'f="([^"]*)"', e["q"])) + " : list str)"
    return f"({cstr(c['s'])}, {cnet(c['net'])}, {rn}, {re_}, {qp})"

def known_native(c, r):
    return None

def mutate_native(c, rng):
    e = c["net"]
    bits = 32 if e["v"] == 4 else 128
    out = []
    for ln in range(bits + 1):
        a = int(e["addr"]) & mask(bits, ln)
        k = case4(a, ln, "prefix", rng) if bits == 32 else case6(a, ln, "canon", rng)
        out.append({"s": k["s"], "net": k["exp"]})
    return out

# ------------------------------------------------------------------ render suite
def gen_render(tier, rng):
    quick = tier == "quick"
    QUICK[0] = quick
    out = []
    for ln in range(33):
        for a in rng.sample(V4_ADDRS, 1 if quick else 6) + [rng.randrange(1 << 32)]:
            c = case4(a, ln, "prefix", rng)
            out.append({"s": c["s"], "net": c["exp"], "samples": []})
    temps = zero_run_templates()
    for ln in range(129):
        gs = [temps[36]] + rng.sample(temps, 0 if quick and ln % 4 else 1 if quick else 6)
        for g in gs:
            c = case6(g2a(g), ln, "canon", rng)
            out.append({"s": c["s"], "net": c["exp"], "samples": c["samples"][: (8 if quick else 24)]})
        if ln % 32 == 0:
            c = case6(g2a(temps[36]), ln, "canon", rng, scope="eth0")
            out.append({"s": c["s"], "net": c["exp"], "samples": c["samples"][:8]})
    return out

def render_to_coq(c, r):
    if "exc" in r: return None
    rs = []
    for x in r["rs"]:
        if "exc" in x:
            q, kin, vals = cerr(x, "str"), "false", "(@nil str)"
        else:
            if not isinstance(x["q"], str): return None
            q = f"(Ok {cstr(x['q'])})"
            kin = "true" if re.match(r'^f in \(', x["q"]) else "false"
            vals = "(" + clist(cstr(v) for v in re.findall(r'"([^"]*)"', x["q"])) + " : list str)"
        rs.append(f"({'true' if x['o'] else 'false'}, {'true' if x['a'] else 'false'}, {q}, {kin}, {vals})")
    smp = clist(f"({cA(a)}, {cstr(t)})" for a, t in zip(c.get("samples", []), r["texts"])) if r["texts"] else "(@nil (N * str))"
    return f"({cstr(c['s'])}, {cnet(c['net'])}, {smp}, {clist(rs)})"

def known_render(c, r):
    e = c["net"]
    if e["v"] == 6 and not fixed_groups_nonzero(int(e["addr"]), e["len"]):
        return "D20-ipv6-expansion-misses-addresses"
    return None

def stratum_render(c, r):
    e = c["net"]
    return f"v{e['v']} " + ("wildcards" if (e["v"] == 4 and e["len"] <= 24) or (e["v"] == 6 and e["len"] <= 124) else "plain addresses")

# ------------------------------------------------------------------ print6 suite
def gen_print6(tier, rng):
    out = set()
    for m in range(256):
        for style in ([[0xFFFF], [0xf, 0x10, 0x100, 0x1000, 0xfff]] if tier == "quick" else
                      [[0xFFFF], [1], [0xab00], [0xf, 0x10, 0x100, 0x1000, 0xfff]]):
            g = [rng.choice(style) if (m >> k) & 1 else 0 for k in range(8)]
            out.add(g2a(g))
    for ln in range(129):
        out.add(mask(128, ln)); out.add(M128 ^ mask(128, ln)); out.add(1 << (128 - ln) if ln else 0)
        for g in zero_run_templates()[:: (13 if tier == "quick" else 1)]:
            a = g2a(g) & mask(128, ln)
            out.add(a); out.add(a | (M128 ^ mask(128, ln)))
    for _ in range(150 if tier == "quick" else 5000):
        out.add(rng.randrange(1 << 128))
        out.add(g2a([rng.choice([0, 0, 1, 0xffff, rng.randrange(65536)]) for _ in range(8)]))
    return [{"a": str(a)} for a in sorted(out)]

def print6_to_coq(c, r):
    if "exc" in r: return None
    return f"({cA(c['a'])}, {cstr(r['t'])})"

REQ = ["Base.Chars", "Base.Outcome", "Model.Cidr", "Spec.Net", "Run.C18run"]
PROPERTY = Property(
    pid="C18", props_file="Props/C18.v",
    suites=[
        Suite("expand", gen_expand, "run_expand", REQ, "judge_expand", expand_to_coq, known=known_expand,
              mutate=mutate_expand, stratum=stratum_expand, shard=400),
        Suite("native", gen_native, "run_native", REQ, "judge_native", native_to_coq, known=known_native,
              mutate=mutate_native, shard=200),
        Suite("render", gen_render, "run_render", REQ, "judge_render", render_to_coq, known=known_render,
              mutate=mutate_native, stratum=stratum_render, shard=200),
        Suite("print6", gen_print6, "run_print6", REQ, "judge_print6", print6_to_coq, shard=600),
    ],
    rule="IPv4: all prefix lengths 0..32 x 15 boundary addresses + random, spelled with prefix length, zero-padded length, "
         "netmask, host mask and bare; exactness decided on integer ranges. IPv6: all prefix lengths 0..128 x zero runs at "
         "every group position and of every length (+ random), seven spellings, scope ids; coverage decided on the network's "
         "first/last addresses and zero/non-zero placements of the free groups; declared IPv6 strata (prefix length on a hextet "
         "boundary / on a nibble boundary / off it) x (scoped, embedded IPv4, '::' at start / middle / end, no '::') must all be "
         "populated or the run fails. Invalid texts (hand-picked, host bits set for "
         "every length), mutated and random texts. non-trivial = prefix length not on an octet boundary (IPv4), strictly "
         "between 0 and 128 (IPv6), or an invalid text; distinct by (suite, case hash)",
    assumptions=["CPython's ipaddress module (text -> network, canonical text, subnets, netmask) is modelled in Model/Cidr.v; "
                 "the model's statement of what it returns is validated by the correspondence only",
                 "IPv6 coverage on the implementation's output is decided on sample addresses (ranges are not contiguous in "
                 "text order); IPv4 exactness is decided on integer ranges through the verified pattern_range4"],
)
