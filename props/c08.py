"""C08 - a failing rule never changes other rules' output; every query is accounted for."""
import itertools, copy
from vlib.core import Property, Suite, clist, cbool, cnat
from vlib.core import cstr as _cstr


def cstr(s):
    """ASCII strings as Coq string literals (much cheaper to parse than lists of numbers); Run.C08run.Sx decodes"""
    if all(32 <= ord(ch) < 127 or ch == '\n' for ch in s):
        return '(Sx "' + s.replace('"', '""') + '"%s8)'
    return _cstr(s)


SIGMA = {"SigmaValueError": 1, "SigmaPlaceholderError": 2, "SigmaTypeError": 3, "SigmaConditionError": 4,
         "SigmaRegularExpressionError": 5, "SigmaModifierError": 6, "SigmaConversionError": 7,
         "SigmaTransformationError": 8}
CRASH = {"ValueError": 1, "TypeError": 2, "AttributeError": 3, "KeyError": 4, "IndexError": 5,
         "NotImplementedError": 6, "UnboundLocalError": 7}
COND_ERR = {"ph": 2, "gph": 2, "type": 1, "cond": 4}
FINE = ("ok", "gok", "same", "sel", "ma", "mb", "e1", "e2")


def base_kind(c):
    return c[1:] if c.startswith("n") else c

# ---- rule variants ------------------------------------------------------------------------------------
def D(conds, stage="ok", form="list", fld=0):
    return {"k": "d", "conds": list(conds), "stage": stage, "form": form, "fld": fld}

def Cr(refs, gen=False, stage="ok"):
    return {"k": "c", "refs": list(refs), "gen": gen, "stage": stage}

# the alphabet of the exhaustive part: fine single / multi condition, one failing variant per stage
BASIC = [D(["ok"]), D(["ok", "ok"]), D(["ok"], "pipe"), D(["ph"]), D(["type"]), D(["cond"])]
BASIC_NOPIPE = [r for r in BASIC if r["stage"] == "ok"]
MULTI_FAIL = [D(["ok", "ph"]), D(["ph", "ok"]), D(["ok", "type"]), D(["ok", "cond"]), D(["cond", "ok"]),
              D(["ok", "ok"], "pipe"), D(["ok", "ok"], "fin"), D(["ok"], "fin"), D(["ok", "ok", "ph"]),
              D(["ok", "cond"], form="and"), D(["ok", "ph"], form="or"), D(["type", "ok"], form="1of"),
              D(["ok", "ok"], form="and"), D(["ok", "ok", "ok"], form="1of"), D(["ok", "ok"], form="or")]


# rules with selections below a NOT: fine ones, and ones that fail while the negated part is rendered (with
# convert_not_as_not_eq the backend swaps its expression templates for the time of that rendering)
NEG_FINE = [D(["nok"]), D(["ok", "nok"], form="and"), D(["ngok"]), D(["ok", "ngok"])]
NEG_FAIL = [D(["nph"]), D(["ngph"]), D(["ntype"]), D(["ok", "nph"], form="and"), D(["ok", "ngph"]),
            D(["nph", "ok"]), D(["nok", "ngph", "ok"], form="and")]


def negated(quick):
    """not-equals rendering: every sequence over {fine plain, fine two-condition, fine negated, placeholder below NOT,
    placeholder in a group below NOT (after a comparison that rendered negated), keyword boolean below NOT}, every
    position; each remaining negated variant at every position among fine rules; with and without convert_not_as_not_eq"""
    out = []
    alpha = [BASIC[0], BASIC[1], D(["ok", "nok"], form="and"), D(["nph"]), D(["ngph"]), D(["ntype"])]
    for n in (1, 2):
        for t in itertools.product(alpha, repeat=n):
            for pipe in (True, False):
                for c in (True, False):
                    out.append(mk(t, pipe, "test", c, noteq=True))
            out.append(mk(t, False, "default", True, noteq=False))
    for t in itertools.product(alpha, repeat=3):
        out.append(mk(t, False, "test", True, noteq=True))
        if not quick:
            out.append(mk(t, True, "default", False, noteq=True))
            out.append(mk(t, True, "test", True, noteq=False))
    if not quick:
        for t in itertools.product(alpha, repeat=4):
            out.append(mk(t, False, "test", True, noteq=True))
    fine = [BASIC[0], BASIC[1], D(["ok", "nok"], form="and"), D(["ngok"])]
    for n in range(2, 4 if quick else 6):
        for pos in range(n):
            for bad in NEG_FAIL + NEG_FINE:
                t = [fine[(j + pos) % len(fine)] for j in range(n)]
                t[pos] = bad
                out.append(mk(t, True, "test", True, noteq=True))
                if not quick:
                    out.append(mk(t, False, "default", False, noteq=True))
                    out.append(mk(t, True, "test", True, noteq=False))
    # a correlation rule over rules rendered negated, behind a rule that failed in negated rendering
    for bad in NEG_FAIL[:3 if quick else 7]:
        for g in (True, False):
            out.append(mk([bad, D(["ok", "nok"], form="and"), Cr([1], g), BASIC[1]], True, "test", True, noteq=True))
            out.append(mk([D(["ngok"]), bad, Cr([0], g), BASIC[0], Cr([3, 0], not g)], False, "test", True, noteq=True))
    return out


def S(conds, prod, sf=None, gate=None, form="list"):
    r = D(conds, form=form)
    r.update(prod=prod, sf=sf, gate=gate)
    return r


# rules for the pipeline "state": (logsource product, field, gate)
ST = [S(["ok"], "alpha", "src"),                      # mapped, fine (index A)
      S(["ok"], "beta", "dst", "strict"),            # unmapped field under the strict gate: fails on its own
      S(["ok", "ph"], "alpha", "src", "strict"),     # mapped, passes the gate, fails later at the placeholder
      S(["ok"], "beta", None, "gstate"),             # fine unless the state of an alpha rule is still there
      S(["ok", "ok"], "beta", "dst"),                # fine, two conditions (index default)
      S(["ok"], "alpha", "src", "strict"),           # mapped, fine
      S(["ok"], "beta", "src", "strict"),            # not mapped for beta: fails
      S(["ok"], "alpha", None, "gstate"),            # fails
      S(["ok"], "beta", None, "gapplied"),           # fine
      S(["ok"], "alpha", "dst", "strict"),           # alpha but the field is not the mapped one: fails
      S(["ok"], "alpha", None, "gapplied")]          # fails


def stateful(quick):
    """pipeline items whose decision reads per-rule pipeline state (strict field mapping failure behind a conditional
    mapping, rule_failure behind a state condition / an applied-item condition, the state shown by the output format):
    every sequence (hence every order) of the rules involved"""
    out = []
    for n in (1, 2):
        for t in itertools.product(ST, repeat=n):
            out.append(mk(t, "state", "state", True))
            if not quick or n == 1:
                out.append(mk(t, "state", "test", False))
    for t in itertools.product(ST[:5] if quick else ST[:8], repeat=3):
        out.append(mk(t, "state", "state", True))
    if not quick:
        for t in itertools.product(ST[:5], repeat=4):
            out.append(mk(t, "state", "state", True))
        for t in itertools.product(ST[:5], repeat=3):
            out.append(mk(t, "state", "default", False))
    # correlation rules: the conditions look through them at the rules they refer to
    for a in ST[:5] if quick else ST:
        for b in ST[:5] if quick else ST:
            for g in (True, False):
                out.append(mk([a, b, Cr([0], g), Cr([1, 0], not g)], "state", "state", True))
                out.append(mk([a, Cr([0], g), b, Cr([1], g), ST[3]], "state", "state", True))
    return out


# rules of 2-4 conditions some of which convert to the same query (list form: one query per condition)
EQ = [D(["ok", "same"]), D(["ok", "sel"]), D(["ma", "mb"]), D(["e1", "e2"]), D(["ok", "ok", "same"]),
      D(["ok", "same", "sel", "same"]), D(["ma", "ok", "mb"]), D(["ok", "e1", "same", "e2"]), D(["gok", "same"]),
      D(["ok", "nsame"]), D(["ma", "mb", "ma"]), D(["e1", "e2", "e1", "ok"])]
EQ_FAIL = [D(["ok", "same", "ph"]), D(["ma", "mb"], "fin"), D(["ok", "same"], "pipe"), D(["ok", "sel", "cond"])]


def equalq(quick):
    """equal queries from different conditions of one rule (the same selection twice, a selector equal to an identifier,
    fields mapped to one, values equal after finalisation only): alone, repeated, between failing neighbours at every
    position, referred to by correlation rules, in all output formats and configurations"""
    out = []
    for x in EQ + EQ_FAIL:
        for p in (True, False, "state"):
            for f in ("test", "default", "state"):
                for c in ((True,) if quick and f != "test" else (True, False)):
                    out.append(mk([x], p, f, c))
        out.append(mk([x], True, "test", True, noteq=True))
    fails = [D(["ph"]), D(["ok"], "pipe"), D(["ok", "cond"]), D(["ok"], "fin")]
    for x in EQ[:6] if quick else EQ:
        for bad in fails[:2] if quick else fails:
            for f in ("test", "state") if quick else ("test", "default", "state"):
                for seq in ([x, bad], [bad, x], [bad, x, bad], [x, bad, x]):
                    out.append(mk(seq, True, f, True))
                out.append(mk([bad, x, BASIC[1]], True, f, False))
            out.append(mk([bad, x, BASIC[1], x], False, "default", True))
        for g in (True, False):
            out.append(mk([x, Cr([0], g), BASIC[0]], True, "test", True))
            out.append(mk([x, D(["ph"]), Cr([0, 1], g), Cr([0], not g)], True, "state", True, fcs=g))
        out.append(mk(dup_rule([x, BASIC[0]], 0, 2), True, "test", True))
    return out


def duplicates(quick):
    """the same document repeated (equal rule objects, distinct identity): fine and failing rules 2-3 times, adjacent
    and with other rules in between, in every position; a repeated rule that correlation rules refer to (the
    reference means the last one); repeated correlation rules; under the state pipeline. Accounting is per object."""
    out = []
    kinds = [BASIC[0], BASIC[1], D(["ph"]), D(["ok"], "pipe"), D(["ok", "ph"]), D(["ok"], "fin"), D(["cond"]), D(["nph"])]
    cfgs = [(True, "test", True), (True, "test", False), (False, "default", True)]
    for x in kinds:
        for (p, f, c) in cfgs:
            out.append(mk(dup_rule([x], 0, 1), p, f, c))
            out.append(mk(dup_rule(dup_rule([x], 0, 1), 0, 2), p, f, c))
    for x in kinds:
        for y in kinds[:5] if quick else kinds:
            if x is y:
                continue
            base = [x, y]
            for seq in (dup_rule(base, 0, 1), dup_rule(base, 0, 2), dup_rule([y, x], 1, 2)):     # xxy xyx yxx
                out.append(mk(seq, True, "test", True))
                if not quick:
                    out.append(mk(seq, True, "test", False))
                    out.append(mk(seq, False, "default", True, noteq=True))
            out.append(mk(dup_rule(dup_rule(base, 0, 2), 1, 3), True, "test", True))                # x y x y
            if not quick:
                out.append(mk(dup_rule(dup_rule(dup_rule(base, 0, 1), 0, 3), 2, 4), True, "test", True))   # x x y x y
    # a repeated rule that is referred to (all copies in front of the referring rule; the name means the last copy)
    for x in kinds[:3] + kinds[5:6] if quick else kinds:
        for g in (True, False):
            out.append(mk(dup_rule([x], 0, 1) + [Cr([1], g)], True, "test", True))
            out.append(mk(dup_rule([x], 0, 1) + [Cr([1], g), BASIC[1]], False, "default", True))
            out.append(mk(dup_rule([x, BASIC[1]], 0, 2) + [Cr([2], g), Cr([2, 1], not g)], True, "test", True))
            out.append(mk(dup_rule(dup_rule([x], 0, 1), 0, 2) + [Cr([2], g)], True, "test", not g))
    # repeated correlation rules (they fail alike when what they refer to failed), also nested and referred to
    for x in kinds[:3] + kinds[5:6] if quick else kinds:
        for g in (True, False):
            for st in ("ok", "pipe", "fin"):
                base = [x, Cr([0], g, st)]
                out.append(mk(dup_rule(base, 1, 2), True, "test", True))
                if st == "ok" or not quick:
                    out.append(mk(dup_rule(base + [BASIC[0]], 1, 3), True, "test", True))
                    out.append(mk(dup_rule(base, 1, 2) + [Cr([2], not g)], True, "test", True))
                    out.append(mk(dup_rule(dup_rule(base, 1, 2), 1, 3), True, "default", g, fcs=not g))
    # per-rule pipeline state
    for x in ST[:4] if quick else ST:
        out.append(mk(dup_rule([x], 0, 1), "state", "state", True))
        for y in ST[:3] if quick else ST[:6]:
            out.append(mk(dup_rule([x, y], 0, 2), "state", "state", True))
            out.append(mk(dup_rule([y, x], 1, 2), "state", "test", True))
    return out


def with_fields(rules, rng=None):
    out = []
    for i, r in enumerate(rules):
        r = copy.deepcopy(r)
        if r["k"] == "d":
            r["fld"] = (i if rng is None else rng.randrange(4)) % 4
        out.append(r)
    return out


def mk(rules, pipe, fmt, collect, fcs=False, rng=None, noteq=False):
    rules = with_fields(rules, rng)
    for r in rules:
        if "as" in r and r["k"] == "d":
            r["fld"] = rules[r["as"]]["fld"]
    if not pipe:   # the pipeline stages do not exist without a pipeline
        for r in rules:
            if r["stage"] in ("pipe", "fin", "crash"):
                r["stage"] = "ok"
    return {"rules": rules, "pipe": pipe, "fmt": fmt, "collect": collect, "fcs": fcs, "noteq": noteq}


def random_rule(rng, pipe, pfail):
    if rng.random() < pfail:
        pool = [r for r in BASIC + MULTI_FAIL + NEG_FAIL if expected_d(r, True)[0] != "ok" or r["stage"] == "fin"]
        r = copy.deepcopy(rng.choice(pool))
        if rng.random() < 0.05:
            r["stage"] = "crash"
        return r
    n = rng.choice([1, 1, 2, 2, 3])
    if rng.random() < 0.15:
        return copy.deepcopy(rng.choice(EQ))
    if rng.random() < 0.3:
        return D([rng.choice(["ok", "nok", "gok", "ngok"]) for _ in range(n)], form=rng.choice(["list", "and"]))
    return D(["ok"] * n, form=rng.choice(["list", "list", "and", "or", "1of"]))


def insert_rule(rules, pos, new):
    """insert `new` (whose references point to positions < pos) at position pos; references of the rules behind
    it are renumbered"""
    out = copy.deepcopy(list(rules))
    for r in out:
        if r["k"] == "c":
            r["refs"] = [j + 1 if j >= pos else j for j in r["refs"]]
        if r.get("as", -1) >= pos:
            r["as"] += 1
    out.insert(pos, copy.deepcopy(new))
    return out


def dup_rule(rules, j, pos):
    """repeat the document of rule j at position pos > j: an equal rule object with its own identity"""
    new = copy.deepcopy(rules[j])
    new["as"] = rules[j].get("as", j)
    return insert_rule(rules, pos, new)


def name_ix(rules, i):
    return rules[i].get("as", i)


def add_correlations(rules, rng, k):
    """k correlation rules, each at a random dependency-respecting position (anywhere behind the last rule it
    refers to: in front of, between and behind the remaining detection / correlation rules)"""
    rules = list(rules)
    for _ in range(k):
        n = len(rules)
        pos = n if rng.random() < 0.3 else rng.randint(1, n)
        m = rng.choice([1, 1, 2, 2, 3])
        refs = rng.sample(range(pos), min(m, pos))
        if rng.random() < 0.5:
            refs.sort()
        rules = insert_rule(rules, pos, Cr(refs, rng.random() < 0.5, rng.choice(["ok", "ok", "ok", "ok", "pipe", "fin"])))
    return rules


def interleaved(quick):
    """correlation rules in front of / between detection rules: every dependency-respecting position of one
    correlation rule (every reference subset of size <= 2, generate on/off) and of a second one (nested on the
    first, or referring to the same base rule with the same / the other generate value) among 2..3 detection
    rules that are fine (one / two conditions) or fail at their second condition"""
    out = []
    ok1, ok2, late = D(["ok"]), D(["ok", "ok"]), D(["ok", "ph"])
    for n in (2, 3):
        for t in itertools.product([ok1, ok2, late], repeat=n):
            for pos in range(1, n):             # pos = n (all correlation rules last) is part 3 of gen
                for k in (1, 2):
                    for refs in itertools.combinations(range(pos), k):
                        for g in (True, False):
                            for st in (("ok",) if quick else ("ok", "fin", "pipe")):
                                rules = insert_rule(t, pos, Cr(refs, g, st))
                                out.append(mk(rules, True, "test", True))
                                if not quick or (g and n == 2):
                                    out.append(mk(rules, True, "test", False))
                                if not quick:
                                    out.append(mk(rules, False, "default", True, fcs=g))
    for n in (2, 3):
        for t in itertools.product([ok1, late] if quick else [ok1, ok2, late], repeat=n):
            for p1 in range(1, n + 1):
                for g in (True, False):
                    one = insert_rule(t, p1, Cr([0], g))
                    for p2 in range(p1 + 1, n + 2):
                        if p1 == n and p2 == n + 1 and quick:
                            continue            # both last: part 3
                        for refs2, g2 in (([p1], not g), ([p1], g), ([0], g), ([0], not g), ([p1, 0], g)):
                            if quick and (refs2, g2) in (([p1], g),):
                                continue
                            rules = insert_rule(one, p2, Cr(refs2, g2))
                            out.append(mk(rules, True, "test", True))
                            if not quick:
                                out.append(mk(rules, True, "default", False, fcs=g2))
    return out


def gen(tier, rng):
    quick = tier == "quick"
    out = []
    cfgs = [(p, f, c) for p in (True, False) for f in ("test", "default") for c in (True, False)]
    # 1. exhaustive: every sequence of rule variants, every position of every failure stage
    for n in range(1, (2 if quick else 3) + 1):
        for (p, f, c) in cfgs:
            for t in itertools.product(BASIC, repeat=n):
                out.append(mk(t, p, f, c))
    for (p, f, c) in [(True, "test", True), (True, "test", False), (False, "default", True)]:
        for t in itertools.product(BASIC, repeat=3 if quick else 4):
            out.append(mk(t, p, f, c))
    # one more rule over a reduced alphabet (fine multi-condition, pipeline failure, placeholder, missing detection)
    alpha = [BASIC[1], BASIC[2], BASIC[3], BASIC[5]]
    for t in itertools.product(alpha, repeat=4 if quick else 5):
        out.append(mk(t, True, "test", True))
    # 2. one failing multi-condition / finalisation-stage variant at every position among fine rules
    for n in range(1, 5 if quick else 7):
        for pos in range(n):
            for bad in MULTI_FAIL:
                t = [BASIC[(j + pos) % 2] for j in range(n)]
                t[pos] = bad
                for c in (True, False):
                    out.append(mk(t, True, "test", c))
                if not quick or n <= 2:
                    out.append(mk(t, False, "default", True))
    # 3. correlation rules on top: all reference subsets over up to 2 (3) detection rules, every stage of the
    #    correlation rule itself, generate on/off, and a second correlation rule nested on the first
    small = [BASIC[0], BASIC[1], BASIC[3], D(["ok"], "fin"), BASIC[2]]
    for n in (1, 2) if quick else (1, 2, 3):
        alpha = small if (n == 1 or (n == 2 and not quick)) else small[:4] if n == 2 else small[:3]
        for t in itertools.product(alpha, repeat=n):
            for k in range(1, n + 1):
                for refs in itertools.combinations(range(n), k):
                    for g in (True, False):
                        for st in ("ok", "pipe", "fin"):
                            if quick and n == 2 and st == "pipe":
                                continue
                            for c in ((True,) if (quick and n == 2 and st != "ok") else (True, False)):
                                out.append(mk(list(t) + [Cr(refs, g, st)], True, "test", c))
                        out.append(mk(list(t) + [Cr(refs, g)], False, "default", True, fcs=g))
                        out.append(mk(list(t) + [Cr(refs, g), Cr([n], not g)], True, "test", True))
                        out.append(mk(list(t) + [Cr(refs, g), Cr([n, 0], g, "ok")], True, "default", True, fcs=not g))
    # 3b. correlation rules interleaved with detection rules
    out += interleaved(quick)
    # 3f. equal queries from different conditions of one rule
    out += equalq(quick)
    # 3e. repeated documents
    out += duplicates(quick)
    # 3d. decisions on per-rule pipeline state
    out += stateful(quick)
    # 3c. negated selections, convert_not_as_not_eq
    out += negated(quick)
    # 4. random collections of 1..6 rules (+ up to 3 correlation rules at random positions), any subset failing
    for _ in range(350 if quick else 6000):
        n = rng.randint(1, 6)
        p = rng.random() < 0.7
        pfail = rng.choice([0.0, 0.2, 0.5, 0.8])
        rules = [random_rule(rng, p, pfail) for _ in range(n)]
        if p and rng.random() < 0.25:
            p = "state"
            rules = [copy.deepcopy(rng.choice(ST)) if rng.random() < 0.7 else r for r in rules]
        if rng.random() < 0.5:
            rules = add_correlations(rules, rng, rng.randint(1, 3))
        if rng.random() < 0.25:      # repeat the document of a rule nothing refers to, once or twice, anywhere behind it
            for _ in range(rng.choice([1, 1, 2])):
                free = [j for j in range(len(rules)) if not any(r["k"] == "c" and j in r["refs"] for r in rules)]
                if free and len(rules) < 9:
                    j = rng.choice(free)
                    rules = dup_rule(rules, j, rng.randint(j + 1, len(rules)))
        elif rng.random() < 0.1 and len(rules) > 1:      # the coordinator's shape: base, emitting correlation, failing, two-condition
            rules = insert_rule(rules, 1, Cr([0], rng.random() < 0.5))
        out.append(mk(rules, p, rng.choice(["test", "default", "state"]), rng.random() < 0.7, fcs=rng.random() < 0.2, rng=rng,
                      noteq=rng.random() < 0.4))
    return out


# ---- expected per-rule outcome, read off the rule source (the model's conv1) ------------------------------
FIELDS = ["fieldA", "f", "fieldC", "g h"]


def rule_fields(r):
    name = r.get("sf") or FIELDS[r.get("fld", 0)]
    out = set()
    for c in r["conds"]:
        b = base_kind(c)
        if b in ("ok", "ph", "cond", "e1", "e2"):
            out.add(name)
        elif b in ("ma", "mb"):
            out.add("s" + b[1])
        elif b in ("gok", "gph"):
            out |= {name, "y"}
    return out


def trans_dets(case, i):
    """detection rules a correlation rule refers to, directly or through other correlation rules"""
    seen, out = set(), []
    def go(j):
        if j in seen:
            return
        seen.add(j)
        r = case["rules"][j]
        if r["k"] == "d":
            out.append(r)
        else:
            for x in r["refs"]:
                go(x)
    for x in case["rules"][i]["refs"]:
        go(x)
    return out


def state_gate_fails(r):
    """pipeline "state" (impl/c08.py): decisions that read per-rule pipeline state"""
    alpha = r.get("prod") == "alpha"
    g = r.get("gate")
    if g == "strict":       # every field must have been mapped by the alpha-only mapping src -> dst
        # (fieldA is mapped by the backend's own pipeline, which runs first)
        return not all((f == "src" and alpha) or f == "fieldA" for f in rule_fields(r))
    if g in ("gstate", "gapplied"):   # state index == A / item map_alpha applied: both only for alpha rules
        return alpha
    return False


def index_of(case, i):
    r = case["rules"][i]
    if case["pipe"] == "state":
        ds = [r] if r["k"] == "d" else trans_dets(case, i)
        return "A" if any(d.get("prod") == "alpha" for d in ds) else "default"
    return "win" if case["pipe"] else "default"


def expected_c_pre(case, i):
    r = case["rules"][i]
    pipe = case["pipe"]
    if pipe == "state":
        ds = trans_dets(case, i)
        if any(d.get("prod") == "alpha" for d in ds) and any(d.get("gate") in ("gstate", "gapplied") for d in ds):
            return "(SigmaErr 8)"
    return "(SigmaErr 8)" if pipe and r["stage"] == "pipe" else "(Crash 1)" if pipe and r["stage"] == "crash" else "(Ok tt)"


def expected_d(r, pipe):
    if pipe == "state" and state_gate_fails(r):
        return ("err", 8)
    if pipe and r["stage"] == "pipe":
        return ("err", 8)
    if pipe and r["stage"] == "crash":
        return ("crash", 1)
    conds = [base_kind(c) for c in r["conds"]]
    if r.get("form", "list") != "list" and len(conds) > 1 and "cond" in conds:
        return ("err", 4)      # the single condition expression does not parse
    for c in conds:
        if c not in FINE:
            return ("err", COND_ERR[c])
    return ("ok", None)


def coutcome(r, key="q"):
    if "exc" in r:
        if r.get("sigma"):
            return f"(SigmaErr {SIGMA.get(r['exc'], 99)})"
        return f"(Crash {CRASH.get(r['exc'], 98)})"
    v = r[key]
    if not isinstance(v, list):
        return "(Crash 97)"
    return "(Ok " + clist(cstr(q) for q in v) + ")"


def to_coq(c, r):
    if "exc" in r and "res" not in r:     # the runner itself failed: never acceptable
        return f"({{| k_fmt := 0; k_pipe := false |}}, false, false, ([] : list (rule dr cr)), (Crash 96 : outcome (list str)), ([] : list (nat * N)), false, ([] : list (outcome (list str))), ([] : list nat))"
    pipe = bool(c["pipe"])
    rules = []
    for i, ru in enumerate(c["rules"]):
        fin = cbool(pipe and ru["stage"] == "fin")
        if ru["k"] == "d":
            kind, cls = expected_d(ru, c["pipe"])
            if kind == "ok":
                raw = "(Ok " + clist(cstr(q) for q in r["alone"][i].get("raw", []) if isinstance(q, str)) + ")"
            elif kind == "err":
                raw = f"(SigmaErr {cls})"
            else:
                raw = f"(Crash {cls})"
            rules.append(f"Det {{| d_raw := {raw}; d_finfail := {fin}; d_index := {cstr(index_of(c, i))} |}}")
        else:
            pre = expected_c_pre(c, i)
            names = clist(cstr("r%d" % name_ix(c["rules"], j)) for j in ru["refs"])
            rules.append(f"Cor {{| c_pre := {pre}; c_names := {names}; c_finfail := {fin}; c_index := {cstr(index_of(c, i))} |}} "
                         f"{clist(cnat(j) for j in ru['refs'])} {cbool(ru['gen'])}")
    res = r["res"]
    ires = coutcome(res) if isinstance(res, dict) else coutcome({"q": res})
    ierrs = clist(f"({cnat(p if p >= 0 else 999)}, {SIGMA.get(cl, 99)})" for p, cl in r["errors"])
    # collection order = document order, and every reference resolved to the rule object the case means
    order_ok = cbool(r["order"] == [name_ix(c["rules"], i) for i in range(len(c["rules"]))]
                     and r.get("refpos") == [ru["refs"] for ru in c["rules"] if ru["k"] == "c"])
    al = clist(coutcome(a) for a in r["alone"])
    ncs = clist(cnat(len(ru['conds']) if ru['k'] == 'd' and (ru.get('form', 'list') == 'list') else 1) for ru in c['rules'])
    K = f"{{| k_fmt := {dict(default=0, test=1, state=2)[c['fmt']]}; k_pipe := {cbool(pipe)} |}}"
    return f"({K}, {cbool(c.get('fcs', False))}, {cbool(c['collect'])}, ({clist(rules)} : list (rule dr cr)), ({ires} : outcome (list str)), ({ierrs} : list (nat * N)), {order_ok}, ({al} : list (outcome (list str))), ({ncs} : list nat))"


def mutate(c, rng):
    out = []
    n = len(c["rules"])
    for i in range(n):
        # drop rule i (only if nothing refers to it), renumbering references
        if not any(r["k"] == "c" and i in r["refs"] for r in c["rules"]) and not any("as" in r for r in c["rules"]):
            d = copy.deepcopy(c)
            del d["rules"][i]
            for r in d["rules"]:
                if r["k"] == "c":
                    r["refs"] = [j - 1 if j > i else j for j in r["refs"]]
            if d["rules"]:
                out.append(d)
        for st in ("ok", "pipe", "fin"):
            d = copy.deepcopy(c)
            d["rules"][i]["stage"] = st
            out.append(d)
        if c["rules"][i]["k"] == "c":
            d = copy.deepcopy(c)
            d["rules"][i]["gen"] = not d["rules"][i]["gen"]
            out.append(d)
        else:
            for conds in (["ok"], ["ph"], ["ok", "ok"], ["ok", "cond"], ["nph"], ["nok"], ["ngph"], ["ok", "same"], ["ma", "mb"]):
                d = copy.deepcopy(c)
                d["rules"][i]["conds"] = conds
                out.append(d)
    for key, vals in (("collect", (True, False)), ("pipe", (True, False)), ("fmt", ("test", "default", "state")), ("fcs", (True, False)),
                      ("noteq", (True, False))):
        for v in vals:
            if c.get(key) != v:
                out.append(dict(copy.deepcopy(c), **{key: v}))
    if n < 7:
        d = copy.deepcopy(c)
        d["rules"].append(Cr([rng.randrange(n)], rng.random() < 0.5))
        out.append(d)
        for pos in range(1, n):      # an emitting / non-emitting correlation rule in front of the remaining rules
            out.append(dict(copy.deepcopy(c), rules=insert_rule(c["rules"], pos, Cr([rng.randrange(pos)], rng.random() < 0.5))))
    return out


def stratum(c, r):
    n = len(c["rules"])
    nc = sum(1 for x in c["rules"] if x["k"] == "c")
    return f"n={n} corr={'yes' if nc else 'no'} collect={c['collect']} noteq={bool(c.get('noteq'))}"


REQ = ["Base.Chars", "Base.Outcome", "Model.Collection", "Spec.Collection", "Run.C08run"]
PROPERTY = Property(
    pid="C08", props_file="Props/C08.v",
    suites=[Suite("collection", gen, "run_collection", REQ, "judge_collection", to_coq, mutate=mutate,
                  stratum=stratum, shard=150)],
    rule="collections for sigma.backends.test.TextQueryTestBackend: every sequence of {fine single-condition, fine two-condition, "
         "rule_failure transformation, unresolved placeholder, keyword boolean (value type unsupported), condition naming a missing "
         "detection} of length <= 2 in all 8 configurations (pipeline yes/no x format test/default x collecting yes/no), length 3 "
         "(quick) / 4 (thorough) in three configurations, length 4 (quick) / 5 (thorough) over a reduced alphabet; one failing "
         "multi-condition / finalisation-stage (failing query post-processing) variant at every position among 1..4 (quick) / 1..6 "
         "(thorough) fine rules; event_count correlation rules over every reference subset of up to 2 (quick) / 3 (thorough) rules with "
         "generate on/off, failing at pipeline / finalisation, nested, finalize_correlation_subqueries on/off; correlation rules "
         "interleaved with detection rules: one correlation rule (every reference subset of size <= 2, generate on/off) at every "
         "dependency-respecting position in front of / between 2..3 detection rules (fine, two-condition, failing at the second "
         "condition), and a second one (nested, or referring to the same base rule with equal / opposite generate) at every later "
         "position; backend classes with convert_not_as_not_eq (a new class per backend object): every sequence of length <= 3 (thorough 4) over "
         "{fine plain, fine two-condition, fine negated, placeholder below NOT, placeholder in a group below NOT after a comparison "
         "that rendered negated, keyword boolean below NOT}, further negated variants at every position among fine rules, with "
         "correlation rules; a pipeline whose items decide on per-rule pipeline state (strict_field_mapping_failure behind a product-conditional "
         "mapping, rule_failure behind a processing-state condition and behind an applied-item condition, output format 'state' showing "
         "the state): every sequence of length <= 2 over 11 rule kinds and of length 3 (thorough also 4) over the first 5 (8), with "
         "correlation rules; rules of 2-4 conditions some of which convert to the same query (the same selection twice, a selector meaning an "
         "identifier, fields mapped to one, values equal after the query post-processing only): alone in all 3 pipelines x 3 output "
         "formats x both modes, between failing neighbours at every position, referred to by correlation rules, repeated; "
         "repeated documents (equal rule objects with their own identity): 8 fine / failing rule kinds 2-3 times, adjacent and "
         "with other rules in between in every position, repeated rules that correlation rules refer to, repeated correlation rules "
         "(also nested, failing at pipeline / finalisation / through what they refer to), under the state pipeline; error records and "
         "references are identified by object identity = position; random collections of 1..6 rules + up to 3 correlation rules at "
         "random dependency-respecting positions, a quarter of them with a rule repeated once or twice. Oracle: fresh backend, fresh pipeline, freshly parsed rule for every rule on its "
         "own. Only dependency-respecting document orders (a correlation rule after the rules it names; other orders are C09). "
         "non-trivial = some rule fails, a correlation rule is present or a rule has several conditions; distinct by case hash",
    assumptions=["per-rule conversion (pipeline application, condition conversion, finish_query) is a parameter of the theorems; the "
                 "judge instantiates it with the raw queries observed in a fresh single-rule conversion and the failure class read off "
                 "the rule source",
                 "for a correlation rule the reference conversion uses a collecting backend on the rule's reference closure (a "
                 "correlation rule cannot be converted without the rules it names)",
                 "the callback parameter of Backend.convert is None; finalize() of the formats default/test is the identity on the list"],
)
