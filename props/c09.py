"""C09 - rule references resolve the same way whatever the document order.

Suite `orders`: rule sets x document orders (all permutations up to 6 documents, sampled beyond) x load
paths {from_yaml, from_dicts, merge of per-document collections, merge of two multi-document collections,
load_ruleset from a temp dir (one file per document / two documents per file)}.
Suite `oldsort`: the model of the ORIGINAL ordering step (sorted() with a partial-order __lt__) against
CPython's sorted() with the real SigmaRuleBase.__lt__ (documents defect D22, repaired in the repo)."""
import itertools, uuid
from vlib.core import Property, Suite, cstr, clist, cbool, copt, cnat

PATHS = ["from_dicts", "from_yaml", "merge", "merge2", "ruleset", "ruleset2"]
# when the references are resolved (resolve_references of every loader involved) x how the collection is converted:
#   direct   Backend.convert right after loading
#   explicit collection.resolve_rule_references() first
#   twice    the same collection object converted twice (both results are judged)
#   appendf  a filter object (applying to no rule) appended to collection.rules before converting
MODES = [{"resolve": r, "conv": c} for c in ("direct", "twice", "appendf", "explicit") for r in (False, True)]
# the kind of iterable handed to merge (collections), load_ruleset (paths), from_dicts (sized kinds only; the others
# are replaced by a tuple there): a one-shot iterable must give what a list gives
KINDS = ["list", "gen", "tuple", "map", "iter", "dictvalues"]
CHUNK = 24
TITLES = "abcdefghijklmnopqrstuvwxyz"


def U(k):
    return str(uuid.UUID(int=0xabcdef0000000000000000000000 + k))


def P(t, n="=", i=None, v=None):
    return {"t": t, "n": (t if n == "=" else n), "i": i, "k": "p", "v": v or [t]}


def C(t, refs, n="=", i=None, g=None, ty="temporal", ts=None, cnt=1):
    return {"t": t, "n": (t if n == "=" else n), "i": i, "k": "c", "refs": list(refs), "g": g, "ty": ty,
            "gb": "user", "ts": ts or f"{1 + TITLES.index(t[0])}h", "cnt": cnt}


def Fl(t, ls="other", rules=("nosuchrule",)):
    """a filter document that applies to no rule of the set (other log source, or an unknown rule name)"""
    return {"t": t, "k": "f", "ls": ls, "rules": list(rules)}


# ---------------------------------------------------------------------------------------------
# rule sets
def fixed_sets():
    u1, u2, u3 = U(1), U(2), U(3)
    S = {}
    # the D22 witness set
    S["d22"] = [P("a"), P("b"), P("u"), C("c", ["a", "b"]), C("d", ["c", "u"])]
    S["d22_gen"] = [P("a"), P("b"), P("u"), C("c", ["a", "b"], g=True), C("d", ["c", "u"], g=True)]
    # chain of depth 3 + unrelated rules interleaved
    S["chain3"] = [P("a"), C("c", ["a"], ty="event_count"), C("d", ["c"], ty="event_count"), C("e", ["d"]), P("u"), P("v", n=None)]
    S["chain3_gen"] = [P("a"), C("c", ["a"], ty="event_count", g=True), C("d", ["c"], g=False), C("e", ["d"], g=True), P("u", n=None, i=u3)]
    # by id, id spelled differently, rule with id and name
    S["byid"] = [P("a", n=None, i=u1), P("b", i=u2), C("c", [u1, u2.upper()]), C("d", ["{" + u1 + "}", "b", "c"], n=None, i=u3), C("e", [u3.replace("-", "")], ty="event_count")]
    S["urn"] = [P("a", n=None, i=u1), C("c", ["urn:uuid:" + u1], ty="event_count"), P("u")]
    # a name that looks like an id can't be referenced by name (UUID lookup only)
    S["name_like_uuid"] = [P("a", n=u1), C("c", [u1], ty="event_count"), P("u")]
    S["name_like_uuid_with_id"] = [P("a", n=u1, i=u1), P("b", n=u2, i=u1.replace("1", "2")), C("c", [u1, "b"]), P("u")]
    # diamond, one rule referenced by several correlation rules, mixed generate
    S["diamond"] = [P("a"), C("c", ["a"], ty="event_count"), C("d", ["a"], ty="event_count"), C("e", ["c", "d"]), P("u")]
    S["mixed_generate"] = [P("a"), P("b"), C("c", ["a", "b"], g=True), C("d", ["a"], g=False, ty="event_count"), C("e", ["b"], g=True, ty="event_count")]
    S["twice"] = [P("a"), C("c", ["a", "a"]), C("d", ["c", "a", "c"])]
    S["multi_query"] = [P("a", v=["x", "y"]), P("b"), C("c", ["a"], ty="event_count"), C("d", ["a", "b"]), C("e", ["c"], ty="event_count")]
    # missing references
    S["missing"] = [P("a"), C("c", ["a", "zz"]), P("u")]
    S["missing_chain"] = [P("a"), C("c", ["a"]), C("d", ["c", U(9)]), P("u")]
    S["missing_only"] = [C("c", ["zz"]), P("u")]
    # one-document rule sets: the reference pass has to run for them too (seed C09s1 skipped it for len(rules) <= 1)
    S["missing_single"] = [C("c", ["zz"])]
    S["missing_single_id"] = [C("c", [U(9)], ty="event_count")]
    S["missing_single_two"] = [C("c", ["zz", "yy"])]
    S["self_single"] = [C("c", ["c"], ty="event_count")]
    S["plain_single"] = [P("a")]
    # cycles (rejected inputs: conversion fails in every order)
    S["self"] = [C("c", ["c"]), P("a")]
    S["cycle2"] = [C("c", ["d", "a"]), C("d", ["c"]), P("a")]
    S["cycle3"] = [C("c", ["d"]), C("d", ["e"]), C("e", ["c"]), P("a"), C("f", ["a"], ty="event_count")]
    S["cycle_tail"] = [P("a"), C("c", ["a", "d"]), C("d", ["c"]), C("e", ["d"]), P("u")]
    # duplicate keys: the last document wins (known finding)
    S["dup_name"] = [P("a", n="x"), P("b", n="x"), C("c", ["x"], ty="event_count")]
    S["dup_id"] = [P("a", n=None, i=u1), P("b", n=None, i=u1), C("c", [u1]), P("u")]
    S["dup_unreferenced"] = [P("a", n="x"), P("b", n="x"), P("d"), C("c", ["d"], ty="event_count")]
    S["dup_corr"] = [P("a"), P("b"), C("c", ["a"], n="x", ty="event_count"), C("d", ["b"], n="x", ty="event_count"), C("e", ["x"])]
    # no correlation rule at all / only correlation rules on one plain rule
    S["plain_only"] = [P("a"), P("b", n=None), P("u", v=["x", "y"])]
    S["fan"] = [P("a"), C("c", ["a"], ty="event_count"), C("d", ["a"], ty="event_count", g=True), C("e", ["a"]), C("f", ["a"], g=True)]
    S["six"] = [P("a"), P("b"), C("c", ["a", "b"]), C("d", ["c", "b"]), C("e", ["d", "a"], g=True), P("u")]
    # filters among the documents (they apply to no rule: other log source / unknown rule name)
    S["d22_filter"] = [P("a"), P("b"), P("u"), C("c", ["a", "b"]), C("d", ["c", "u"]), Fl("f")]
    S["chain_filters"] = [Fl("f", ls="test"), P("a"), C("c", ["a"], ty="event_count"), C("d", ["c"]), Fl("g", rules=["zz", "yy"])]
    S["six_ids"] = [P("a", n=None, i=u1), P("b", i=u2), C("c", [u1, "b"], n=None, i=u3), C("d", [u3, u2]), P("u", n=None), P("v")]
    return S


def shapes(n, with_generate):
    """every reference graph on n documents: each document is a plain rule or a correlation rule referring
    to a non-empty subset of the documents (itself included: cyclic sets are part of the stream)"""
    opts = [None]
    for k in range(1, n + 1):
        for sub in itertools.combinations(range(n), k):
            for g in ([None, True] if with_generate else [None]):
                opts.append((sub, g))
    for combo in itertools.product(opts, repeat=n):
        if all(o is None for o in combo):
            continue
        docs = []
        for i, o in enumerate(combo):
            t = TITLES[i]
            if o is None:
                docs.append(P(t))
            else:
                docs.append(C(t, [TITLES[j] for j in o[0]], g=o[1], ty="event_count" if len(o[0]) == 1 else "temporal"))
        yield docs


def random_set(rng, n, maxdepth=None):
    """random layered rule set: plain rules, correlation rules on earlier rules (chains), unrelated rules.
    maxdepth bounds the length of reference chains (query text grows multiplicatively along a chain)."""
    docs = []
    keys = []     # (title, [reference strings], depth)
    nplain = rng.randint(1, max(1, min(4, n - 1)))
    for i in range(n):
        t = TITLES[i] if i < 26 else TITLES[i // 26 - 1] + TITLES[i % 26]
        kind = rng.random()
        name = t if rng.random() < 0.7 else None
        ident = U(100 + i) if (name is None and rng.random() < 0.8) or rng.random() < 0.3 else None
        refs_to_me = ([name] if name else []) + ([ident, ident.upper(), ident.replace("-", "")] if ident else [])
        usable = [k for k in keys if maxdepth is None or k[2] < maxdepth]
        depth = 0
        if i < nplain or kind < 0.35 or not usable:
            docs.append({"t": t, "n": name, "i": ident, "k": "p", "v": [t] if rng.random() < 0.8 else [t + "x", t + "y"]})
        else:
            k = rng.randint(1, min(3, len(usable)))
            # prefer recent rules: chains
            pool = usable[-4:] if rng.random() < 0.6 else usable
            picked = [rng.choice(pool) for _ in range(k)]
            refs = [rng.choice(x[1]) for x in picked]
            depth = 1 + max(x[2] for x in picked)
            docs.append({"t": t, "n": name, "i": ident, "k": "c", "refs": refs, "g": rng.choice([None, None, True, False]),
                         "ty": rng.choice(["temporal", "event_count"]), "gb": "user", "ts": f"{i + 1}h", "cnt": rng.randint(1, 12)})
        if refs_to_me:
            keys.append((t, refs_to_me, depth))
    if rng.random() < 0.15:
        docs.append(Fl("zf", ls=rng.choice(["other", "test"])))
    rng.shuffle(docs)
    # hostile variations
    x = rng.random()
    cs = [d for d in docs if d["k"] == "c"]
    if cs and x < 0.06:
        rng.choice(cs)["refs"].append("nosuchrule")
    elif cs and x < 0.10 and maxdepth is None:
        c = rng.choice(cs)
        if c["n"]:
            rng.choice(cs)["refs"].append(c["n"])       # may create a cycle / self reference
    elif x < 0.13 and len([d for d in docs if d["k"] != "f"]) >= 2:
        a, b = rng.sample([d for d in docs if d["k"] != "f"], 2)
        if a["n"]:
            b["n"] = a["n"]                             # duplicate name
    return docs


def chunks(perms):
    ident = perms[0]
    out = []
    for k in range(0, len(perms), CHUNK - 1):
        part = perms[k:k + CHUNK - 1]
        if part[0] != ident:
            part = [ident] + part
        out.append(part)
    return out


def all_perms(n):
    return [list(p) for p in itertools.permutations(range(n))]


def sample_perms(rng, n, k):
    out = [list(range(n)), list(range(n))[::-1]]
    for _ in range(k - 2):
        p = list(range(n))
        rng.shuffle(p)
        out.append(p)
    return out


def gen_orders(tier, rng):
    """from_dicts / merge are cheap (no YAML parsing): they carry the exhaustive sweeps; the YAML based
    paths get every order of the sets up to 5 documents (thorough; quick: one path each, rotating) and
    one rotating path with all 720 orders of the 6-document sets, samples otherwise"""
    quick = tier == "quick"
    cases = []
    CHEAP, YAMLP = PATHS[:1] + PATHS[2:3], [PATHS[1]] + PATHS[3:]

    def add(docs, perms, paths, modes=None):
        for path in paths:
            for part in chunks(perms):
                for mode in (modes or [MODES[len(cases) % len(MODES)]]):
                    n0 = len(cases)
                    kind = KINDS[(n0 // len(MODES)) % len(KINDS)]
                    # from_dicts / merge: every other block of cases loads all its orders from the SAME parsed documents
                    share = path in ("from_dicts", "merge") and (n0 // 48 + n0) % 2 == 0
                    cases.append({"docs": docs, "perms": part, "path": path, "mode": dict(mode, it=kind, share=share)})

    F = fixed_sets()
    # deferred resolution x conversion variants: every order of the witness sets through the cheap paths in
    # every mode (thorough: every fixed set through from_dicts, the D22 sets also through merge)
    for name in (("d22", "d22_filter", "chain3_gen") if quick else sorted(F)):
        docs = F[name]
        n = len(docs)
        perms = all_perms(n) if (n <= 5 or not quick) else sample_perms(rng, n, 120)
        add(docs, perms, ["from_dicts"] if (quick or not name.startswith("d22")) else CHEAP, MODES)
    # history through the caller's documents: all orders of a case are loaded one after the other from the SAME
    # parsed documents (no copy, no re-parsing) through from_dicts, merge of per-document collections, and
    # alternating from_dicts / merge / from_yaml(dump of the same documents); loading is a pure function of
    # the documents, so the k-th load must give what a fresh load gives and leave its argument unchanged
    for name in (("d22_gen", "chain3_gen", "mixed_generate", "fan") if quick else sorted(F)):
        docs = F[name]
        n = len(docs)
        perms = all_perms(n) if n <= 5 else sample_perms(rng, n, 120 if quick else 360)
        for path in ("from_dicts", "merge", "alt"):
            for part in chunks(perms):
                for r in (True, False):
                    cases.append({"docs": docs, "perms": part, "path": path,
                                  "mode": {"resolve": r, "conv": "direct" if r else "twice", "it": "list", "share": True}})
    # the kind of iterable handed to merge: every order of the witness sets x every kind x resolved / deferred
    for name in (("d22", "d22_filter", "chain3_gen") if quick else sorted(F)):
        docs = F[name]
        n = len(docs)
        perms = all_perms(n) if (n <= 5 or not quick) else sample_perms(rng, n, 120)
        if not quick and n > 5 and not name.startswith("chain3"):
            perms = sample_perms(rng, n, 120)
        for kind in KINDS:
            for part in chunks(perms):
                for r in (False, True):
                    cases.append({"docs": docs, "perms": part, "path": "merge", "mode": {"resolve": r, "conv": "direct", "it": kind}})
    for k, (name, docs) in enumerate(sorted(F.items())):
        n = len(docs)
        main = PATHS[k % len(PATHS)]
        if quick:
            # every order through one load path (rotating), a sample through the others
            add(docs, all_perms(n) if n <= 5 else sample_perms(rng, n, 120), [main])
            add(docs, sample_perms(rng, n, 12), [p for p in PATHS if p != main])
        elif n <= 5:
            add(docs, all_perms(n), PATHS)
        else:
            ymain = YAMLP[k % len(YAMLP)]
            add(docs, all_perms(n), CHEAP + [ymain])
            add(docs, sample_perms(rng, n, 120), [p for p in YAMLP if p != ymain])
    # exhaustive reference graphs on 2 and 3 documents (cycles included), every order
    for n, wg in (((2, True), (3, False)) if quick else ((2, True), (3, True))):
        for k, docs in enumerate(shapes(n, wg)):
            if quick and n == 3 and rng.randrange(3) != 0:
                continue
            if quick:
                add(docs, all_perms(n), [PATHS[k % len(PATHS)]])
            else:
                add(docs, all_perms(n), ["from_dicts"] + ([PATHS[1 + k % 5]] if (n == 2 or k % 3 == 0) else []))
    # random layered sets
    for _ in range(60 if quick else 600):
        docs = random_set(rng, rng.randint(3, 6))
        docs = docs[:6]
        n = len(docs)
        if quick:
            add(docs, all_perms(n) if n <= 4 else sample_perms(rng, n, 24), [rng.choice(PATHS)])
        else:
            add(docs, all_perms(n), [rng.choice(CHEAP)])
            add(docs, all_perms(n) if n <= 4 else sample_perms(rng, n, 48), [rng.choice(YAMLP)])
    # beyond 6 documents: sampled orders (70 documents: more than one run for a merge sort)
    for _ in range(12 if quick else 120):
        docs = random_set(rng, rng.choice([7, 8, 9, 10, 12, 16]), maxdepth=5)
        add(docs, sample_perms(rng, len(docs), 12 if quick else 36), [rng.choice(PATHS)])
    # deep chain (depth 8) with unrelated rules
    chain = [P("a")] + [C(TITLES[i], [TITLES[i - 1]], ty="event_count") for i in range(1, 9)] + [P("u"), P("v")]
    add(chain, sample_perms(rng, len(chain), 24 if quick else 200), [rng.choice(PATHS)])
    return cases


def gen_orders_big(tier, rng):
    """70 documents (more than one run for a merge sort; long reference chains): a few sampled orders.
    Own suite because the Coq terms are large (small shards)."""
    cases = []
    for _ in range(1 if tier == "quick" else 6):
        docs = random_set(rng, 70, maxdepth=3)
        for part in chunks(sample_perms(rng, len(docs), 4)):
            cases.append({"docs": docs, "perms": part, "path": rng.choice(PATHS), "mode": dict(rng.choice(MODES), it=rng.choice(KINDS))})
    return cases


# ---------------------------------------------------------------------------------------------
# encoding into Coq terms
def cref(s):
    try:
        return f"(RId {cstr(str(uuid.UUID(s)))})"
    except ValueError:
        return f"(RName {cstr(s)})"


def cdoc(d):
    name = copt(cstr(d["n"]) if d.get("n") is not None else None)
    ident = copt(cstr(str(uuid.UUID(d["i"]))) if d.get("i") is not None else None)
    if d["k"] == "p":
        body = f"Plain {clist(cstr(v) for v in d['v'])}"
    else:
        ty = "CTemporal" if d["ty"] == "temporal" else f"(CEventCount {cstr(str(d['cnt']))})"
        body = f"Corr {ty} {clist(cref(r) for r in d['refs'])} {cbool(bool(d.get('g')))} {cstr(d['gb'])} {cstr(d['ts'])}"
    return f"{{| d_title := {cstr(d['t'])}; d_name := {name}; d_id := {ident}; d_body := {body} |}}"


def ctag(r):
    if r.get("sigma"):
        return {"SigmaRuleNotFoundError": 20, "SigmaConversionError": 21}.get(r["exc"], 99)
    return {"RecursionError": 1001}.get(r["exc"], 1999)


def cnats(l):
    return clist(cnat(x) for x in l)


def cires(r):
    if "exc" in r:
        if r["phase"] == "load":
            return f"ILoadErr {ctag(r)}"
        return f"IConvErr {ctag(r)} {clist(cstr(t) for t in r['order_load'])}"
    own = clist(f"({cstr(t)}, {cnat(k)})" for t, k in r["own"])
    return (f"IOk {clist(cstr(t) for t in r['order_load'])} {clist(cstr(t) for t in r['order_conv'])} "
            f"{cnats(r['queries'])} {own}")


def rule_docs(docs):
    """filter documents are no rules: the model sees the rule documents only (a filter of the generated
    stream applies to no rule); returns (rule documents, old position -> new position)"""
    keep = [i for i, d in enumerate(docs) if d["k"] != "f"]
    return [docs[i] for i in keep], {i: k for k, i in enumerate(keep)}


def orders_to_coq(c, r):
    if "exc" in r:
        return None
    docs, pos = rule_docs(c["docs"])
    runs = []
    for p, rs in zip(c["perms"], r["res"]):
        q = [pos[i] for i in p if i in pos]
        for x in rs:
            if "exc" not in x and x.get("order_load") is None:
                x = dict(x, order_load=x["order_conv"])
            runs.append(f"({cnats(q)}, {cires(x)})")
    return (f"(({clist(cdoc(d) for d in docs)} : list doc), ({clist(cstr(q) for q in r['tab'])} : list str), "
            f"({clist(runs)} : list (list nat * ires)))")


# ---------------------------------------------------------------------------------------------
def dup_keys(docs):
    docs = [d for d in docs if d["k"] != "f"]
    names = [d["n"] for d in docs if d.get("n") is not None]
    ids = [str(uuid.UUID(d["i"])) for d in docs if d.get("i") is not None]
    return len(set(names)) != len(names) or len(set(ids)) != len(ids)


def known_orders(c, r):
    return "C09-duplicate-key-last-document-wins" if dup_keys(c["docs"]) else None


def py_oracle_orders(c, r):
    """loading must not change the documents it is given (observed around every load of the case)"""
    if isinstance(r, dict) and "res" in r:
        for k, rs in enumerate(r["res"]):
            if any(x.get("arg_same") is False for x in rs):
                return f"the documents handed to the loader were modified by load number {k + 1} of the case"
    return None


def mutate_orders(c, rng):
    out = []
    n = len(c["docs"])
    for path in PATHS:
        if path != c["path"]:
            out.append(dict(c, path=path))
    for mode in MODES:
        out.append(dict(c, mode=dict(mode, it=(c.get("mode") or {}).get("it", "list"))))
    for kind in KINDS:
        out.append(dict(c, mode=dict(c.get("mode") or {}, it=kind)))
    for _ in range(6):
        out.append(dict(c, perms=sample_perms(rng, n, min(CHUNK, 24))))
    for k in range(n):   # drop one document
        docs = c["docs"][:k] + c["docs"][k + 1:]
        if docs:
            out.append({"docs": docs, "perms": sample_perms(rng, n - 1, 12), "path": c["path"], "mode": c.get("mode")})
    for k, d in enumerate(c["docs"]):
        if d["k"] == "c":
            docs = [dict(x) for x in c["docs"]]
            docs[k]["g"] = not bool(d.get("g"))
            out.append(dict(c, docs=docs))
    return out


def stratum_orders(c, r):
    docs = c["docs"]
    kinds = []
    if dup_keys(docs): kinds.append("dupkey")
    if not any(d["k"] == "c" for d in docs): kinds.append("no-correlation")
    if any(d["k"] == "f" for d in docs): kinds.append("filter")
    if isinstance(r, dict) and "res" in r and r["res"]:
        x = r["res"][0][0]
        kinds.append("ok" if "exc" not in x else x["phase"] + ":" + x["exc"])
    m = c.get("mode") or {}
    return (c["path"] + ("[" + m.get("it", "list") + "]" if c["path"] != "from_yaml" else "") + ("[same documents]" if m.get("share") else "") + "/"
            + ("resolved-at-load" if m.get("resolve", True) else "resolution-deferred") + "+" + m.get("conv", "direct")
            + "/" + ("n<=6" if len(docs) <= 6 else "n>6") + "/" + "+".join(kinds))


# ---------------------------------------------------------------------------------------------
def gen_oldsort(tier, rng):
    cases = []
    F = fixed_sets()
    for name in ("d22", "chain3", "diamond", "six", "fan"):
        docs = F[name]
        perms = all_perms(len(docs))
        if tier == "quick" and len(perms) > 120:
            perms = rng.sample(perms, 120)
        for p in perms:
            cases.append({"docs": docs, "perm": p})
    for _ in range(100 if tier == "quick" else 2000):
        n = rng.randint(2, 12)
        docs = [d for d in random_set(rng, n) if d["k"] != "f"]
        if dup_keys(docs):
            continue
        cases.append({"docs": docs, "perm": list(range(len(docs)))})
    return cases


def oldsort_to_coq(c, r):
    if not isinstance(r, dict) or "exc" in r or r.get("skip"):
        return None
    rr = clist(cnats(x) for x in r["rr"])
    return f"(({rr} : list (list nat)), ({cnats(list(range(len(r['rr']))))} : list nat), ({cnats(r['sorted'])} : list nat))"


REQ = ["Base.Chars", "Base.Outcome", "Model.RefOrder", "Spec.RefOrder", "Run.C09run"]
PROPERTY = Property(
    pid="C09", props_file="Props/C09.v",
    suites=[
        Suite("orders", gen_orders, "run_orders", REQ, "judge_orders", orders_to_coq, known=known_orders,
              mutate=mutate_orders, stratum=stratum_orders, shard=80, py_oracle=py_oracle_orders),
        Suite("orders_big", gen_orders_big, "run_orders", REQ, "judge_orders", orders_to_coq, known=known_orders,
              stratum=stratum_orders, shard=1),
        Suite("oldsort", gen_oldsort, "run_oldsort", REQ, "judge_oldsort", oldsort_to_coq, shard=400),
    ],
    rule="rule sets (1-4 plain rules, correlation rules referring by name or id (ids spelled canonically, upper case, "
         "without hyphens, braced, urn:uuid:), chains up to depth 3 (one of depth 8), diamonds, multi-query rules, unrelated rules "
         "interleaved, every reference graph on 2 and 3 documents incl. cycles and self references, dangling references, duplicate "
         "names/ids, names that look like ids) x document orders (all permutations up to 5 (quick) / 6 (thorough) documents, sampled "
         "up to 70 documents) x load paths {from_dicts, from_yaml, merge of per-document collections, merge of two multi-document "
         "collections, load_ruleset one file per document / two documents per file} x {references resolved while loading, resolution "
         "deferred to Backend.convert (resolve_references=False on every loader)} x {convert right after loading, after an explicit "
         "resolve_rule_references(), the same collection converted twice, a filter object appended to collection.rules} x kind of iterable "
         "handed to merge / load_ruleset / from_dicts {list, generator, tuple, map, iterator, dict values view} x {every load gets its own copy "
         "of the parsed documents, all orders of a case loaded one after the other from the SAME parsed documents (from_dicts, merge, "
         "alternating from_dicts/merge/from_yaml), the documents compared before/after each load}; filter documents "
         "(applying to no rule) among the documents; a case = rule set x path x mode x up to 24 orders "
         "(identity order first); non-trivial = at least one correlation rule, 2 documents and 2 orders; distinct by case hash",
    assumptions=[
        "conversion is observed through the shipped TextQueryTestBackend (default format, correlation types temporal and event_count); "
        "the theorems are parametric in the backend's rendering functions, the concrete rendering is validated by the correspondence only",
        "Python's uuid.UUID decides in the harness whether a reference string is an id (as SigmaCollection.__getitem__ does)",
        "object identity of rules is modelled by the position of the document the rule was created from; "
        "the same rule object contained twice in one collection is outside the model",
        "Python recursion in the depth-first visit is modelled by fuel S(number of rules) (sufficient: RefOrderP.visit_topo); CPython's recursion limit "
        "(reference chains deeper than ~900) is not modelled",
    ],
)
