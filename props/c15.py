"""C15 - converting a rule gives the same result whatever was converted before.
Cases are operation histories over {load, new backend, init pipeline, convert collection, convert
rule}; the last operation is the probe.  The implementation side (impl/c15.py) runs the history and
then the probe again in a fresh setup."""
import itertools, json, random
from vlib.core import Property, Suite, clist, cbool, copt, cnat
from vlib.core import cstr as _cstr

def cstr(s):
    """printable ASCII goes through Model.History.lit (a string literal elaborates far faster than a list of numerals)"""
    if all(32 <= ord(c) < 127 for c in s):
        return '(lit "' + s.replace('"', '""') + '")'
    return _cstr(s)

# ---------------------------------------------------------------- catalogue
ST = {"type": "set_state", "id": "st", "key": "index", "val": "win", "cond": ["product", 1]}
STL = {"type": "set_state", "id": "stl", "key": "index", "val": "lin", "cond": ["product", 2]}
FM = {"type": "field_name_mapping", "id": "fm", "mapping": [["g", "h"], ["h", "i"]]}
FM2 = {"type": "field_name_mapping", "id": "fm2", "mapping": [["f", "g"]]}
SW = {"type": "field_name_mapping", "id": "sw", "mapping": [["f", "fw"]], "cond": ["state", "index", "win"]}
RF = {"type": "rule_failure", "id": "rf", "cond": ["product", 2]}
RFS = {"type": "rule_failure", "id": "rfs", "cond": ["state", "index", "lin"]}
STW = {"type": "set_state", "id": "stw", "key": "index", "val": "winevent", "cond": ["product", 1]}
ST2 = {"type": "set_state", "id": "st2", "key": "idx2", "val": "two", "cond": ["product", 1]}
FA = {"type": "field_name_mapping", "id": "fa", "mapping": [["fieldA", "mappedA"]]}
FC = {"type": "field_name_mapping", "id": "fc", "mapping": [["fieldC", "mappedC"]]}

# external sources (files written by impl/c15.py into a private temp dir); "expect" is what _get_values() yields on a
# cache miss: a value list, or the error class of the stage that fails (security check / fetch / parse)
SOURCES = [
    {"file": "hosts.txt", "expect": ["a", "b"]},
    {"file": "one.txt", "expect": ["a"]},
    {"file": "empty.txt", "expect": []},
    {"file": "hosts.csv", "format": "csv", "csv_column": "host", "expect": ["a", "b"]},
    {"file": "hosts.csv", "format": "csv", "csv_column": "nope", "expect": "SigmaConfigurationError"},       # parse fails in the row loop
    {"file": "nofile.txt", "expect": "SigmaValueError"},                                                     # fetch fails
    {"file": "hosts.txt", "allow": False, "expect": "SigmaSecurityError"},                                   # external sources disabled
    {"file": "bad.json", "format": "json", "jq_expression": ".items[]", "expect": "SigmaValueError"},        # malformed JSON
    {"file": "ok.json", "format": "json", "jq_expression": ".items[], .n", "expect": "SigmaConfigurationError"},  # non-scalar after two good values
    {"file": "ok.json", "format": "json", "jq_expression": ".items[]", "expect": ["a", "b"]},
    {"file": "hosts.txt", "filter": "^b", "expect": ["b"]},
    {"file": "bad.yaml", "format": "yaml", "jq_expression": ".a[]", "expect": "SigmaValueError"},            # malformed YAML
    {"file": "ok.yaml", "format": "yaml", "jq_expression": ".items[]", "expect": ["b", "a"]},
    {"file": "ok.json", "format": "json", "jq_expression": ".items[", "expect": "SigmaConfigurationError"},  # bad jq expression
]
def FP(k, cond=None):
    d = {"type": "file_placeholders", "id": f"fp{k}", "src": k, "source": SOURCES[k]}
    if cond is not None: d["cond"] = cond
    return d

PDEFS = [
    [],
    [ST, FM],
    [SW, ST, STL],          # the state condition is evaluated before the state is set: only stale state makes it true
    [ST, RF, FM],           # fails for linux rules after the state was written
    [FM2, FM, ST],          # chained mappings (f->g, then g->h / h->i)
    [STL, RFS, SW],         # failure depends on state
    [FP(0)], [ST, FP(3), FM], [FP(2)], [FP(1, ["product", 1]), FP(10)],     # sources that work
    [FP(4)], [ST, FP(8), FM], [FP(5)], [FP(6)], [FP(7)], [FP(11)], [FP(13)],  # parse / fetch / security failures
    [FP(4, ["product", 2]), FP(12)],                                        # fails for linux rules only
    [FP(9, ["state", "index", "win"]), ST, FP(5)],                          # source used only under (stale) state
]
FILE_PDEFS = [i for i, d in enumerate(PDEFS) if any(x["type"] == "file_placeholders" for x in d)]
# pipelines that read the pipeline variables (value_placeholders resolves %name% from pipeline.vars of the item's owner)
VP = {"type": "value_placeholders", "id": "vp"}
VAR_PDEFS_START = len(PDEFS)
PDEFS += [
    {"items": [VP], "vars": {}},                                              # only backend_* / backend / output_format exist
    {"items": [ST, VP, FM], "vars": {"uv": ["a", "b"], "idx": "u"}},
    {"items": [VP], "vars": {"uv": "c", "backend_index": "fromuser", "cv": "u"}},   # user vars shadowed by / shadowing others
    {"items": [FP(0, ["product", 2]), VP], "vars": {"hosts": ["h1", "h2*"]}},
    {"items": [VP, RF], "vars": {"x": "xv"}},
]
VAR_PDEFS = list(range(VAR_PDEFS_START, len(PDEFS)))
# transformations that set rule attributes: the rule must get copies, the configuration must stay what it is
SF = {"type": "set_field", "id": "sf", "fields": ["a", "b"]}
SF2 = {"type": "set_field", "id": "sf2", "fields": ["c"], "cond": ["product", 2]}
AF = {"type": "add_field", "id": "af", "field": "c"}
AFL = {"type": "add_field", "id": "afl", "field": ["d", "a"]}
RMF = {"type": "remove_field", "id": "rmf", "field": "a"}
RMFL = {"type": "remove_field", "id": "rmfl", "field": ["b", "zz", "g"]}
SA = {"type": "set_custom_attribute", "id": "sa", "attribute": "owner", "value": "soc"}
SA2 = {"type": "set_custom_attribute", "id": "sa2", "attribute": "owner", "value": "lin", "cond": ["product", 2]}
CL = {"type": "change_logsource", "id": "cl", "product": 2, "cond": ["product", 1]}
FIELD_PDEFS_START = len(PDEFS)
for _perm in itertools.permutations([SF, AF, RMF]):
    PDEFS.append(list(_perm))                       # set / add / remove in every order
PDEFS += [[SF, AFL, RMFL, SA], [AF, SF2, AFL], [SA, CL, SA2, SF2, AF], [FM, AFL, RMFL, ST], [SF, FM2, FM, AF, SA]]
FIELD_PDEFS = list(range(FIELD_PDEFS_START, len(PDEFS)))
STATE_PDEFS_START = len(PDEFS)
PDEFS += [[STW], [ST2, STW, FM], [STL, ST2]]          # conditional set_state only
STATE_PDEFS = list(range(STATE_PDEFS_START, len(PDEFS)))
# query postprocessing items in the model: embed / state template at top level (bound to the pipeline through the owner
# link) and inside a `nest` item (bound to the nest transformation's own pipeline object)
def EMB(i, pre, cond=None): return {"type": "embed", "id": i, "prefix": pre, "cond": cond}
def TPL(i, key): return {"type": "template", "id": i, "key": key}
def NEST(i, items, cond=None): return {"type": "nest", "id": i, "items": items, "cond": cond}
POST_PDEFS_START = len(PDEFS)
PDEFS += [
    {"items": [STW], "post": [NEST("nest", [TPL("tpl", "index"), EMB("emb", "W: ", ["state", "index", "winevent"]), EMB("embw", "P: ", ["product", 1])])]},
    {"items": [STW], "post": [TPL("tpl", "index"), EMB("emb", "W: ", ["state", "index", "winevent"])]},
    {"items": [ST, FM], "post": [EMB("e0", "A: "), NEST("n2", [EMB("el", "L: ", ["product", 2]), TPL("t1", "index")], ["product", 2]), TPL("t2", "index")]},
    {"items": [STL, RFS], "post": [NEST("n3", [EMB("x1", "1: ", ["product", 1]), EMB("x2", "2: ", ["state", "index", "lin"])]), NEST("n4", [TPL("t4", "index")], ["state", "index", "lin"])]},
]
POST_PDEFS = list(range(POST_PDEFS_START, len(PDEFS)))
def pd_all(pd):
    """entries of a pipeline definition as the model numbers them: processing items, then postprocessing items"""
    return pd_items(pd) + (pd.get("post", []) if isinstance(pd, dict) else [])
def pd_items(pd): return pd["items"] if isinstance(pd, dict) else pd
def pd_vars(pd): return pd.get("vars", {}) if isinstance(pd, dict) else {}
OPTIONS = [{}, {"index": "prod"}, {"index": "dev*", "ns": "n1"}, {"ns": "n2"}]
CLASSES = [
    {"ne": False, "bk": [], "fmt": {}},
    {"ne": True, "bk": [], "fmt": {}},
    {"ne": False, "bk": [ST, FA], "fmt": {"1": [FC]}},      # class-level pipelines like the shipped test backend
    {"ne": True, "bk": [], "fmt": {"1": [FC], "2": [SW]}},
    # class-level pipelines with vars: without items (nothing to re-own, yet the vars dict exists once per class) ...
    {"ne": False, "bk": [], "fmt": {}, "bkvars": {"cv": ["c1", "c2"], "uv": "fromclass"}, "fmtvars": {"2": {"fv": "f2"}}},
    # ... with a class-level reader, and with a class-level pipeline that has no vars at all
    {"ne": True, "bk": [VP], "fmt": {}, "bkvars": {}, "fmtvars": {}},
    {"ne": False, "bk": [VP], "fmt": {"1": [FC]}, "bkvars": {"cv": "c3"}, "fmtvars": {"1": {"cv": "fmt1"}}},
    # classes whose query_expression reads {state[key]} over ChainMap(pipeline state of the rule, class-level state_defaults)
    {"ne": False, "bk": [], "fmt": {}, "qexpr": "index", "sdef": {"index": "main"}},
    {"ne": True, "bk": [STW], "fmt": {}, "qexpr": "index", "sdef": {"index": "main", "other": "x"}},   # class-level conditional set_state
    {"ne": False, "bk": [], "fmt": {}, "qexpr": "idx2", "sdef": {}},     # no default: KeyError unless the pipeline sets it
    {"ne": False, "bk": [], "fmt": {}, "qexpr": "index"},               # inherits TextQueryBackend.state_defaults (empty, shared by all classes)
]
QX_CLASSES = [7, 8, 9, 10]
FMTS = [0, 1, 2, 3]
ERRTAG = {"SigmaValueError": 1, "SigmaPlaceholderError": 2, "SigmaTypeError": 3, "SigmaConditionError": 4,
          "SigmaRegularExpressionError": 5, "SigmaModifierError": 6, "SigmaTransformationError": 7,
          "SigmaSecurityError": 8, "SigmaConfigurationError": 9}
MODID = {"SigmaStartswithModifier": 1, "SigmaExpandModifier": 2, "SigmaRegularExpressionModifier": 3,
         "SigmaContainsModifier": 4, "LContains": 5}
# value types each modifier class's modify() is annotated to take (0 string, 1 number); LContains (registered by the
# harness for the duration of a case) derives from SigmaContainsModifier and also takes numbers
ACCEPTS = [[], [0], [0], [0], [0], [0, 1]]

# condition trees: ["id", n] | ["not", t] | ["and", [t..]] | ["or", [t..]]
def show_cond(t, top=True):
    k = t[0]
    if k == "id": return t[1]
    if k == "sel": return ("all of " if t[1] else "1 of ") + t[2]
    if k == "not":
        return "not " + (t[1][1] if t[1][0] == "id" else "(" + show_cond(t[1]) + ")")
    parts = []
    for a in t[1]:
        s = show_cond(a, False)
        parts.append("(" + s + ")" if a[0] in ("and", "or") else s)
    return (" %s " % k).join(parts)

def I(n): return ["id", n]
# (no identifier is referenced twice in one condition: detection objects referenced twice share parent
#  links, which changes the negation a leaf sees in not-equals mode - a C01 matter, not a history effect)
COND_POOL = [I("sel"), ["not", I("sel")], ["and", [I("sel"), I("flt")]], ["or", [I("sel"), I("flt")]],
             ["and", [I("sel"), ["not", I("flt")]]], ["not", ["or", [I("sel"), I("flt")]]],
             ["and", [["or", [I("sel"), I("flt")]], I("sel2")]], ["and", [I("sel"), I("nodef")]],
             ["or", [["and", [I("sel"), I("flt")]], ["not", I("sel2")]]],
             ["not", ["not", I("sel")]], ["and", [I("sel"), I("flt"), I("sel2")]],
             ["and", [["and", [I("sel"), I("flt")]], ["not", I("sel2")]]]]
def S(all_, pat): return ["sel", all_, pat]
# selector conditions: the pattern is expanded over the rule's detection names in the rule's own order
SEL_POOL = [S(False, "sel*"), S(True, "sel*"), S(False, "them"), S(True, "them"), S(False, "s*"), S(True, "*2"),
            ["and", [S(False, "sel*"), ["not", I("flt")]]], ["not", S(False, "s*")], ["or", [S(True, "sel*"), I("flt")]],
            ["and", [I("flt"), ["not", S(True, "sel*")]]]]
BROKEN_CONDS = ["sel and", "sel flt", "sel | count() > 1"]   # ParseException / deprecated pipe syntax -> SigmaConditionError

FIELDS = ["f", "g", "h", "fieldA", "fieldC", "k"]
VALUES = [("num", "1"), ("num", "2"), ("str", "a"), ("str", "b"), ("star", "a"), ("sw", "b"), ("ph", "x"), ("ph", "hosts"), ("re", "ab"),
          ("ct", "a"), ("lc", "46"), ("lc", "b"), ("ct", "b"),
          ("ph", "backend_index"), ("ph", "uv"), ("ph", "cv"), ("ph", "backend"), ("ph", "output_format"), ("ph", "backend_ns")]

BAD = {
    "type": ("title: b\nlogsource:\n  product: windows\ndetection:\n  sel:\n    f|startswith: 1\n  condition: sel\n", None, [(1, 1)]),
    "type2": ("title: b\nlogsource:\n  product: windows\ndetection:\n  sel:\n    f|contains: 46\n  condition: sel\n", None, [(4, 1)]),
    "mod": ("title: b\nlogsource:\n  product: windows\ndetection:\n  sel:\n    f|foo: 1\n  condition: sel\n", 6, []),
    "nocond": ("title: b\nlogsource:\n  product: windows\ndetection:\n  sel:\n    f: 1\n", 4, []),
}

def bad_rule(kind):
    return {"bad": kind, "raw": BAD[kind][0], "product": 1, "dets": [], "conds": []}

def rand_rule(rng, hostile=0.25):
    names = ["sel", "flt", "sel2"]
    dets = []
    names = names[:rng.choice([1, 2, 2, 3, 3])]
    if rng.random() < 0.4: rng.shuffle(names)          # same set of detection names, another order
    for n in names:
        fs = rng.sample(FIELDS, rng.choice([1, 1, 2]))
        items = []
        for f in fs:
            kind, text = rng.choice(VALUES if rng.random() < hostile else VALUES[:6])
            items.append([f, kind, text])
        dets.append([n, items])
    nc = rng.choice([1, 1, 1, 2])
    conds = []
    for _ in range(nc):
        if rng.random() < 0.06:
            conds.append(rng.choice(BROKEN_CONDS))
        else:
            have = {d[0] for d in dets}
            pool = [t for t in COND_POOL + (SEL_POOL if rng.random() < 0.45 else []) if rng.random() < 0.15 or ids_of(t) <= have]
            t = rng.choice(pool)
            while not sel_matches(t, [d[0] for d in dets]):     # a selector that matches nothing yields no query at all
                t = rng.choice(COND_POOL)
            conds.append(show_cond(t))
    fields = rng.sample(FIELDS, rng.choice([0, 0, 1, 2, 3]))
    return {"bad": None, "raw": None, "product": rng.choice([0, 1, 1, 2]), "dets": dets, "conds": conds, "fields": fields}

def sel_matches(t, names):
    import fnmatch
    if t[0] == "sel": return t[2] == "them" or any(fnmatch.fnmatchcase(n, t[2]) for n in names)
    if t[0] == "id": return True
    if t[0] == "not": return sel_matches(t[1], names)
    return all(sel_matches(a, names) for a in t[1])

def ids_of(t):
    if t[0] == "id": return {t[1]}
    if t[0] == "sel": return {"sel2"} if t[2] == "*2" else {"sel"}
    if t[0] == "not": return ids_of(t[1])
    return set().union(*[ids_of(a) for a in t[1]])

# fixed rules that share condition strings, detection names and field names
R_WIN = {"bad": None, "raw": None, "product": 1, "dets": [["sel", [["g", "num", "1"], ["f", "str", "a"]]], ["flt", [["h", "sw", "b"]]]], "conds": ["sel and not flt"], "fields": ["g", "f", "k"]}
R_LIN = {"bad": None, "raw": None, "product": 2, "dets": [["sel", [["f", "num", "1"]]], ["flt", [["g", "str", "a"]]]], "conds": ["sel and not flt"]}
R_PH = {"bad": None, "raw": None, "product": 1, "dets": [["sel", [["f", "ph", "x"]]], ["flt", [["g", "str", "a"]]]], "conds": ["flt and not sel"]}
R_NEG = {"bad": None, "raw": None, "product": 1, "dets": [["sel", [["f", "str", "a"], ["g", "star", "b"]]], ["flt", [["f", "str", "b"]]]], "conds": ["not sel", "sel or flt"]}
R_UNDEF = {"bad": None, "raw": None, "product": 0, "dets": [["sel", [["f", "num", "1"]]]], "conds": ["sel and nodef"]}
R_C = {"bad": None, "raw": None, "product": 1, "dets": [["sel", [["fieldC", "num", "1"], ["fieldA", "str", "a"]]]], "conds": ["sel"], "fields": ["fieldA", "fieldC", "h"]}
R_HOSTS = {"bad": None, "raw": None, "product": 1, "dets": [["sel", [["f", "ph", "hosts"], ["g", "num", "1"]]]], "conds": ["sel"]}
R_HOSTS_L = {"bad": None, "raw": None, "product": 2, "dets": [["sel", [["f", "ph", "hosts"]]], ["flt", [["h", "ph", "x"], ["g", "str", "a"]]]], "conds": ["sel and not flt", "flt"]}
R_RE = {"bad": None, "raw": None, "product": 1, "dets": [["sel", [["f", "re", "ab"]]], ["flt", [["g", "str", "a"]]]], "conds": ["flt and not sel"]}   # backend error inside a negated leaf (not-equals classes)
R_IDX = {"bad": None, "raw": None, "product": 1, "dets": [["sel", [["idx", "ph", "backend_index"], ["g", "num", "1"]]]], "conds": ["sel"]}
R_VARS = {"bad": None, "raw": None, "product": 1, "dets": [["sel", [["f", "ph", "uv"]]], ["flt", [["h", "ph", "cv"], ["k", "ph", "output_format"]]]], "conds": ["sel", "not flt"]}
R_BK = {"bad": None, "raw": None, "product": 2, "dets": [["sel", [["f", "ph", "backend"], ["g", "ph", "backend_ns"]]]], "conds": ["not sel"]}
VAR_RULES = [R_IDX, R_VARS, R_BK]
R_CT = {"bad": None, "raw": None, "product": 1, "dets": [["sel", [["fieldA", "ct", "a"]]], ["flt", [["g", "ct", "b"]]]], "conds": ["sel and not flt"]}
R_LC = {"bad": None, "raw": None, "product": 1, "dets": [["sel", [["fieldA", "lc", "46"]]], ["flt", [["g", "lc", "b"]]]], "conds": ["sel and not flt"]}
FIXED_RULES = [R_WIN, R_LIN, R_PH, R_NEG, R_UNDEF, R_C, R_HOSTS, R_HOSTS_L, R_RE, R_IDX, R_VARS, R_BK, R_CT, R_LC]

FILTERS = [
    {"product": 1, "dets": [["sel", [["g", "num", "1"]]]], "cond": "not sel"},
    {"product": 1, "dets": [["sel", [["h", "str", "a"]]], ["x2", [["f", "star", "b"]]]], "cond": "not (sel or x2)"},
    {"product": 2, "dets": [["sel", [["f", "num", "2"], ["g", "str", "b"]]]], "cond": "not sel"},
]
KEYWORDS = {"not", "and", "or", "all", "any", "of", "1"}
def apply_filter_py(r, f, n):
    """what SigmaFilter.apply_on_rule produces (C11's subject; here only the input of the model): detections under
    a per-application prefix, every condition extended by the prefixed filter condition"""
    import re
    if r["bad"] or r["product"] != f["product"]:
        return r
    pfx = f"_filt_n{n}"
    fc = re.sub(r"[a-zA-Z*][a-zA-Z0-9*_-]*", lambda m: m.group(0) if m.group(0).lower() in KEYWORDS else pfx + "_" + m.group(0), f["cond"])
    return dict(r, dets=r["dets"] + [[pfx + "_" + name, items] for name, items in f["dets"]],
                conds=[f"({c}) and ({fc})" for c in r["conds"]])

def model_ops(ops):
    """operations as the model sees them: filters already applied (fresh prefix number per application)"""
    out, n = [], 0
    for op in ops:
        if op[0] == "collf":
            rs = []
            for r in op[2]:
                n += 1
                rs.append(apply_filter_py(r, op[3], n))
            out.append(["coll", op[1], rs, op[4]])
        else:
            out.append(op)
    return out

def mk_case(users, ops):
    return {"classes": CLASSES, "pdefs": PDEFS, "users": users, "ops": ops}

def valid(ops):
    nb = 0
    for op in ops:
        if op[0] == "new": nb += 1
        elif op[0] in ("init", "rule", "coll", "collf") and op[1] >= nb: return False
    return nb > 0 and ops[-1][0] in ("rule", "coll", "collf")

def rand_op(rng, nb, rule_fn):
    k = rng.choice(["load", "new", "new", "init", "rule", "rule", "rule", "coll", "coll", "collf"]) if nb else "new"
    if k == "load":
        return ["load", bad_rule(rng.choice(list(BAD))) if rng.random() < 0.4 else rule_fn()]
    if k == "new":
        return ["new", rng.randrange(len(CLASSES)), rng.choice([None, 0, 0, 1, 2]), rng.random() < 0.3, rng.choice(OPTIONS + [{}, {}])]
    b = rng.randrange(nb)
    fmt = (3 if b == 0 else (b + 2) % 3) if rng.random() < 0.85 else rng.choice([0, 1, 2, 3])
    if k == "init": return ["init", b, fmt]
    if k == "rule": return ["rule", b, rule_fn(), fmt]
    if k == "collf": return ["collf", b, [rule_fn() for _ in range(rng.choice([2, 2, 3]))], rng.choice(FILTERS), fmt]
    return ["coll", b, [rule_fn() for _ in range(rng.choice([1, 2, 2, 3]))], fmt]

def rand_history(rng, n, sharing):
    """sharing=False: every backend gets its own class without class-level items / its own pipeline object"""
    ops, nb = [], 0
    used_users, used_cls = set(), set()
    rule_fn = lambda: (rng.choice(FIXED_RULES) if rng.random() < 0.5 else rand_rule(rng))
    while len(ops) < n:
        op = rand_op(rng, nb, rule_fn)
        if op[0] == "new":
            if nb >= 3: continue
            if not sharing:
                op[1] = rng.choice([0, 1, 4])
                free = [u for u in (0, 1, 2) if u not in used_users]
                op[2] = rng.choice(free) if free and rng.random() < 0.8 else None
                if op[2] is not None: used_users.add(op[2])
            nb += 1
        ops.append(op)
    if ops[-1][0] not in ("rule", "coll", "collf"):
        b = rng.randrange(nb)
        fmt = (3 if b == 0 else (b + 2) % 3) if rng.random() < 0.85 else rng.choice([0, 1, 2, 3])
        ops[-1] = ["rule", b, rule_fn(), fmt] if rng.random() < 0.7 else ["coll", b, [rule_fn(), rule_fn()], fmt]
    return ops

def gen_history(tier, rng):
    out = []
    # D18 / D30 witnesses and their repaired twins first
    out.append(mk_case([1, 2, 0], [["new", 0, 0, False], ["new", 1, 0, True], ["init", 0, 2], ["init", 1, 2], ["rule", 0, R_WIN, 2]]))
    out.append(mk_case([1, 2, 0], [["new", 2, None, False], ["new", 2, None, False], ["init", 0, 2], ["init", 1, 2], ["rule", 0, R_WIN, 2]]))
    out.append(mk_case([2, 2, 0], [["new", 0, 0, False], ["new", 0, 0, False], ["init", 0, 2], ["coll", 1, [R_WIN], 2], ["rule", 0, R_LIN, 2]]))
    out.append(mk_case([1, 2, 0], [["new", 2, 0, False], ["coll", 0, [R_C], 1], ["rule", 0, R_C, 2]]))
    out.append(mk_case([1, 2, 0], [["new", 1, 0, False], ["rule", 0, R_PH, 2], ["rule", 0, R_NEG, 2]]))
    # D27 (repaired): one filter, two rules, a mapping that would apply twice to shared detection objects
    R_T2 = dict(R_WIN, conds=["sel"])
    for u in (1, 4):
        out.append(mk_case([u, 2, 0], [["new", 0, 0, False], ["collf", 0, [R_WIN, R_T2], FILTERS[0], 2]]))
        out.append(mk_case([u, 2, 0], [["new", 1, 0, True], ["collf", 0, [R_T2, R_WIN, R_C], FILTERS[1], 0]]))
        out.append(mk_case([u, 2, 0], [["new", 0, 0, False], ["collf", 0, [R_WIN, R_T2], FILTERS[0], 2], ["rule", 0, R_WIN, 2]]))
    # exhaustive short histories over a small alphabet (length <= 3 after the backend creations)
    small_rules = [R_WIN, R_LIN, R_PH, R_NEG, R_UNDEF]
    alpha = []
    for b in (0, 1):
        alpha.append(["init", b, 2])
        for r in small_rules:
            alpha.append(["rule", b, r, 2])
        alpha.append(["coll", b, [R_WIN, R_LIN], 2])
        alpha.append(["coll", b, [R_PH, R_WIN], 0])
    alpha.append(["load", bad_rule("type")])
    # failing conversion (every stage) then probe, on the same / on another backend sharing the pipeline object
    for d in FILE_PDEFS + [3, 5]:
        for cls in (0, 1):
            for r1 in (R_HOSTS, R_HOSTS_L, R_RE, R_PH, R_UNDEF):
                for r2 in (R_HOSTS, R_HOSTS_L):
                    out.append(mk_case([d, 1, 0], [["new", cls, 0, False], ["rule", 0, r1, 2], ["rule", 0, r2, 2]]))
            out.append(mk_case([d, 1, 0], [["new", cls, 0, True], ["new", cls, 0, False], ["coll", 0, [R_HOSTS, R_WIN, R_HOSTS_L], 2], ["rule", 1, R_HOSTS, 2]]))
            out.append(mk_case([d, 1, 0], [["new", cls, 0, True], ["coll", 0, [R_HOSTS, R_HOSTS, R_HOSTS_L], 0]]))
            out.append(mk_case([d, 1, 0], [["new", cls, 0, False], ["load", R_HOSTS], ["init", 0, 2], ["coll", 0, [R_WIN, R_HOSTS], 2], ["coll", 0, [R_HOSTS_L, R_HOSTS], 2]]))
    # backend options: backend with options then a fresh backend without (and the reverse), same class, with class-level
    # pipelines with / without vars and items, own or shared user pipeline objects that read the variables
    # rule attributes set by transformations: several conversions through the same pipeline object, observed through the
    # "fields" output format (query + processed rule's field list, custom attributes, log source)
    for d in FIELD_PDEFS:
        for cls in (0, 1):
            out.append(mk_case([d, 1, 0], [["new", cls, 0, False], ["rule", 0, R_WIN, 3], ["rule", 0, R_WIN, 3], ["rule", 0, R_C, 3]]))
            out.append(mk_case([d, 1, 0], [["new", cls, 0, True], ["coll", 0, [R_WIN, R_LIN, R_WIN], 3]]))
            out.append(mk_case([d, 1, 0], [["new", cls, 0, False], ["new", cls, 0, False], ["coll", 0, [R_C, R_LIN], 3], ["coll", 1, [R_LIN, R_C], 3]]))
            out.append(mk_case([d, d, 0], [["new", cls, 0, False], ["rule", 0, R_LIN, 3], ["new", cls, 1, False], ["rule", 1, R_WIN, 3], ["rule", 0, R_WIN, 3]]))
    # class-level state_defaults behind {state[key]} in the query expression: a rule that gets the state set, then a probe
    # that does not - on the same backend (convert / convert_rule), on a new backend of the class with its own pipeline
    # object, with the shared one, with no pipeline; and the reverse order
    qx = []
    for cls in QX_CLASSES:
        for d in STATE_PDEFS + [1]:
            for first, probe in ((R_WIN, R_LIN), (R_LIN, R_WIN), (R_WIN, R_UNDEF), (R_WIN, R_C)):
                for fmt in (0, 2):
                    qx.append(mk_case([d, d, 0], [["new", cls, 0, False], ["rule", 0, first, fmt], ["rule", 0, probe, fmt]]))
                    qx.append(mk_case([d, d, 0], [["new", cls, 0, False], ["coll", 0, [first, probe], fmt], ["coll", 0, [probe], fmt]]))
                    qx.append(mk_case([d, d, 0], [["new", cls, 0, True], ["coll", 0, [first], fmt], ["new", cls, 1, False], ["rule", 1, probe, fmt]]))
                    qx.append(mk_case([d, d, 0], [["new", cls, 0, False], ["rule", 0, first, fmt], ["new", cls, None, False], ["rule", 1, probe, fmt]]))
                    qx.append(mk_case([d, d, 0], [["new", cls, 0, False], ["rule", 0, first, fmt], ["new", cls, 0, False], ["coll", 1, [probe, first], fmt]]))
    out += qx if tier != "quick" else qx[:10] + rng.sample(qx, 200)
    # modifier type-hint cache: a harness-registered subclass of a built-in modifier with a wider value type, loaded
    # before / after rules using the built-in one (valid, or failing its type check), by load and by conversions
    for cls in (0, 1, 2):
        for first in ([["load", R_CT]], [["load", bad_rule("type2")]], [["rule", 0, R_CT, 0]], [["coll", 0, [R_CT, R_WIN], 0]], [["load", R_LC]],
                      [["rule", 0, R_LC, 0]], [["load", bad_rule("type")], ["load", R_CT]], []):
            for probe in (["rule", 0, R_LC, 0], ["coll", 0, [R_LC, R_CT], 2], ["rule", 0, R_CT, 3]):
                out.append(mk_case([1, 2, 0], [["new", cls, 0, False]] + first + [probe]))
                out.append(mk_case([1, 2, 0], [["new", cls, 0, True]] + first + [["new", cls, None, False], [probe[0], 1] + probe[2:]]))
    # selector conditions over detection sections that coincide as sets but differ in order / differ by one name /
    # coincide exactly with those of earlier rules; earlier rule only loaded, converted on the same or on another backend
    def srule(names, conds, product=1):
        vals = {"sel": ["fieldA", "str", "a"], "sel2": ["fieldB", "str", "b"], "flt": ["g", "num", "1"], "selb": ["k", "star", "c"]}
        return {"bad": None, "raw": None, "product": product, "dets": [[n, [vals[n]]] for n in names], "conds": conds}
    selcases = []
    for conds in (["1 of sel*"], ["all of sel*"], ["1 of them"], ["all of them", "1 of s*"], ["1 of sel* and not flt"], ["not 1 of s*"], ["sel or sel2"]):
        base = ["sel", "sel2", "flt"]
        for earlier in (base, ["sel2", "sel", "flt"], ["flt", "sel2", "sel"], ["sel", "selb", "flt"], ["sel", "sel2"]):
            for probe_names in (base, ["sel2", "sel", "flt"], ["flt", "sel", "sel2"]):
                e, pr = srule(earlier, conds), srule(probe_names, conds)
                for cls in (0, 1):
                    selcases.append(mk_case([1, 0, 0], [["new", cls, 0, False], ["rule", 0, e, 0], ["rule", 0, pr, 0]]))
                    selcases.append(mk_case([1, 0, 0], [["new", cls, 0, False], ["coll", 0, [e, pr, e], 2]]))
                    selcases.append(mk_case([1, 0, 0], [["new", cls, 0, True], ["coll", 0, [e], 0], ["new", cls, None, False], ["rule", 1, pr, 0]]))
    out += selcases if tier != "quick" else selcases[:6] + rng.sample(selcases, 160)
    # query postprocessing, top level and nested: a rule that gets the state set, then a probe that does not (and the
    # reverse) - same collection, earlier call on the same backend, another backend sharing the pipeline object
    pp = []
    for d in POST_PDEFS:
        for cls in (0, 1, 7):
            for first, probe in ((R_WIN, R_LIN), (R_LIN, R_WIN), (R_WIN, R_UNDEF), (R_C, R_LIN)):
                for fmt in (0, 2):
                    pp.append(mk_case([d, d, 0], [["new", cls, 0, False], ["coll", 0, [first, probe], fmt]]))
                    pp.append(mk_case([d, d, 0], [["new", cls, 0, False], ["rule", 0, first, fmt], ["rule", 0, probe, fmt]]))
                    pp.append(mk_case([d, d, 0], [["new", cls, 0, True], ["coll", 0, [first, first], fmt], ["coll", 0, [probe], fmt]]))
                    pp.append(mk_case([d, d, 0], [["new", cls, 0, False], ["rule", 0, first, fmt], ["new", cls, 0, False], ["coll", 1, [probe], fmt]]))
                    pp.append(mk_case([d, d, 0], [["new", cls, 0, False], ["coll", 0, [first], fmt], ["new", cls, 1, False], ["rule", 1, probe, fmt]]))
    out += pp if tier != "quick" else pp[:10] + rng.sample(pp, 170)
    optcases = []
    for cls in (0, 1, 4, 5, 6):
        for d in VAR_PDEFS[:3]:
            for oa, ob in ((OPTIONS[1], {}), ({}, OPTIONS[1]), (OPTIONS[2], OPTIONS[3]), (OPTIONS[1], OPTIONS[2])):
                for ua, ub in ((0, 1), (0, 0), (None, 0), (0, None)):
                    for r1 in (R_IDX, R_BK):
                        for mode in range(3):
                            ops = [["new", cls, ua, False, oa], ["rule", 0, r1, 2], ["new", cls, ub, mode == 2, ob]]
                            probe_r = rng.choice(VAR_RULES)
                            if mode == 0: ops.append(["rule", 1, probe_r, 2])
                            elif mode == 1: ops += [["init", 1, 2], ["rule", 0, probe_r, 2]]
                            else: ops.append(["coll", 1, [R_IDX, probe_r, R_WIN], 2])
                            optcases.append(mk_case([d, d, 0], ops))
    out += optcases if tier != "quick" else optcases[:12] + rng.sample(optcases, 180)
    setups = [([1, 2, 0], [["new", 1, 0, False], ["new", 1, 0, True]]),      # shared user pipeline object, not-equals class
              ([2, 3, 0], [["new", 0, 0, False], ["new", 1, 1, True]]),      # nothing shared
              ([1, 1, 0], [["new", 2, None, False], ["new", 2, 1, False]])]  # class-level pipelines shared
    probes = [a for a in alpha if a[0] in ("rule", "coll")]
    # quick: all histories of <= 1 operation x all probes, 120 of length 2; thorough: all of <= 2 x all probes, 800 of length 3
    full = 1 if tier == "quick" else 2
    for users, pre in setups:
        for k in range(0, full + 2):
            seqs = list(itertools.product(alpha, repeat=k))
            if k > full:
                seqs = rng.sample(seqs, 70 if tier == "quick" else 400)
            for hs in seqs:
                ps = probes if k <= min(full, 1) else rng.sample(probes, 6 if k <= full else 2)
                for p in ps:
                    out.append(mk_case(users, pre + list(hs) + [p]))
    # random histories up to length 8
    nrand = 400 if tier == "quick" else 6000
    for i in range(nrand):
        n = rng.randint(2, 8)
        users = [rng.randrange(len(PDEFS)) for _ in range(3)]
        if i % 4 == 1: users[0] = rng.choice(FILE_PDEFS)
        if i % 4 == 2: users[0] = rng.choice(VAR_PDEFS)
        if i % 4 == 3: users[0] = rng.choice(FIELD_PDEFS)
        if i % 8 == 4: users[0] = rng.choice(STATE_PDEFS)
        if i % 8 == 0: users[0] = rng.choice(POST_PDEFS)
        out.append(mk_case(users, rand_history(rng, n, sharing=(i % 3 != 0))))
    return [c for c in out if valid(c["ops"])]

# ---------------------------------------------------------------- Coq encoding
def c_rcond(c):
    if c is None: return "RAlways"
    if c[0] == "product": return f"(RProduct {c[1]})"
    return f"(RState {cstr(c[1])} {cstr(c[2])})"

def c_post0(d):
    return f"(P0Embed {cstr(d['prefix'])})" if d["type"] == "embed" else f"(P0Tpl {cstr(d['key'])})"

def c_item(d):
    if d["type"] in ("embed", "template") and ("prefix" in d or "key" in d):
        return f"(Build_item {cstr(d['id'])} {c_rcond(d.get('cond'))} (TPost (PTop {c_post0(d)})))"
    if d["type"] == "nest":
        l = clist(f"({cstr(x['id'])}, {c_rcond(x.get('cond'))}, {c_post0(x)})" for x in d["items"])
        return f"(Build_item {cstr(d['id'])} {c_rcond(d.get('cond'))} (TPost (PNest {l})))"
    iid = cstr(d["id"])
    c = d.get("cond")
    if c is None: cond = "RAlways"
    elif c[0] == "product": cond = f"(RProduct {c[1]})"
    else: cond = f"(RState {cstr(c[1])} {cstr(c[2])})"
    if d["type"] == "set_state": tr = f"(TSetState {cstr(d['key'])} {cstr(d['val'])})"
    elif d["type"] == "field_name_mapping": tr = "(TFieldMap " + clist(f"({cstr(a)}, {cstr(b)})" for a, b in d["mapping"]) + ")"
    elif d["type"] == "file_placeholders": tr = f"(TFile {d['src']})"
    elif d["type"] == "value_placeholders": tr = "TVars"
    elif d["type"] == "set_field": tr = "(TSetField " + clist(cstr(x) for x in d["fields"]) + ")"
    elif d["type"] in ("add_field", "remove_field"):
        l = d["field"] if isinstance(d["field"], list) else [d["field"]]
        tr = f"({'TAddField' if d['type'] == 'add_field' else 'TRemoveField'} " + clist(cstr(x) for x in l) + ")"
    elif d["type"] == "set_custom_attribute": tr = f"(TSetAttr {cstr(d['attribute'])} {cstr(d['value'])})"
    elif d["type"] == "change_logsource": tr = f"(TSetProduct {d['product']})"
    else: tr = "TFail"
    return f"(Build_item {iid} {cond} {tr})"

KIND = {"num": "VNum", "str": "VStr", "star": "VStar", "sw": "VStar", "ph": "VPh", "re": "VRe", "ct": "VCt", "lc": "VCt"}
MODOF = {"sw": 1, "ph": 2, "re": 3, "ct": 4, "lc": 5}
def c_mods(mods): return clist(f"({m}, {t})" for m, t in mods)
def c_rule(r):
    if r["bad"]:
        _, tag, mods = BAD[r["bad"]]
        return f"(Build_rule {copt(str(tag) if tag is not None else None)} {c_mods(mods)} 0 [] [] [] [])"
    mods = [(MODOF[k], 1 if (k == "lc" and t.isdigit()) else 0) for _, items in r["dets"] for _, k, t in items if k in MODOF]
    dets = clist("(" + cstr(n) + ", " + clist(f"(Build_ditem {cstr(f)} {cstr(t)} {KIND[k]})" for f, k, t in items) + ")"
                 for n, items in r["dets"])
    return f"(Build_rule None {c_mods(mods)} {r['product']} {dets} {clist(cstr(c) for c in r['conds'])} {clist(cstr(f) for f in r.get('fields', []))} [])"

def c_tree(t):
    if t[0] == "id": return f"(PId {cstr(t[1])})"
    if t[0] == "sel": return f"(PSel {cbool(t[1])} {cstr(t[2])})"
    if t[0] == "not": return f"(PNot {c_tree(t[1])})"
    return f"({'PAnd' if t[0] == 'and' else 'POr'} {clist(c_tree(a) for a in t[1])})"

def parse_cond(s):
    """what the condition grammar yields for the strings used here (not > and > or, n-ary chains); None: no parse"""
    import re
    toks = re.findall(r"\(|\)|[A-Za-z0-9_*-]+|\S", s)
    pos = [0]
    def peek(): return toks[pos[0]] if pos[0] < len(toks) else None
    def eat(): pos[0] += 1; return toks[pos[0] - 1]
    def atom():
        t = peek()
        if t == "(":
            eat(); r = p_or()
            if peek() != ")": raise ValueError
            eat(); return r
        if t in ("1", "any", "all") and pos[0] + 2 < len(toks) + 0 and toks[pos[0] + 1] == "of":
            q = eat(); eat(); pat = eat()
            if not re.fullmatch(r"[A-Za-z0-9_*]+", pat): raise ValueError
            return ["sel", q == "all", pat]
        if t is None or t in ("and", "or", "not", ")") or not re.fullmatch(r"[A-Za-z0-9_-]+", t): raise ValueError
        return ["id", eat()]
    def p_not():
        if peek() == "not":
            eat(); return ["not", p_not()]
        return atom()
    def chain(sub, kw):
        l = [sub()]
        while peek() == kw:
            eat(); l.append(sub())
        return l[0] if len(l) == 1 else [kw, l]
    def p_and(): return chain(p_not, "and")
    def p_or(): return chain(p_and, "or")
    try:
        r = p_or()
        return r if pos[0] == len(toks) else None
    except ValueError:
        return None

def c_op(op):
    k = op[0]
    if k == "load": return f"(OLoad {c_rule(op[1])})"
    if k == "new":
        opts = clist(f"({cstr(a)}, {cstr(b)})" for a, b in (op[4] if len(op) > 4 else {}).items())
        return f"(ONew {op[1]} {copt(str(op[2]) if op[2] is not None else None)} {cbool(op[3])} {opts})"
    if k == "init": return f"(OInit {cnat(op[1])} {op[2]})"
    if k == "rule": return f"(OConvRule {cnat(op[1])} {c_rule(op[2])} {op[3]})"
    return f"(OConvColl {cnat(op[1])} {clist(c_rule(r) for r in op[2])} {op[3]})"

def rules_of(ops):
    for op in ops:
        if op[0] in ("load", "rule"): yield op[1] if op[0] == "load" else op[2]
        elif op[0] == "coll": yield from op[2]
        elif op[0] == "collf": raise ValueError("model_ops first")

def c_res(r):
    if r[0] == "ok": return "(Ok [])"
    if r[0] == "q": return "(Ok " + clist(cstr(q) for q in r[1]) + ")"
    if r[0] == "err":
        return f"(SigmaErr {ERRTAG.get(r[1], 99)})" if r[2] else "(Crash 1)"
    raise ValueError(r)

def c_iout(o):
    s = o.get("snap")
    snap = "None" if s is None else ("(Some (Build_isnap " + clist(cbool(b) for b in s["applied"]) +
        " " + clist(cstr(x) for x in s["ids"]) +
        " " + clist(f"({cstr(k)}, {cstr(v)})" for k, v in s["state"]) +
        " " + clist(f"({cstr(k)}, {clist(cstr(x) for x in v)})" for k, v in s["fmap"]) +
        " " + clist(f"({cstr(k)}, {clist(cstr(x) for x in v)})" for k, v in s["fna"]) + "))")
    i = o["int"]
    errs = clist(str(ERRTAG.get(e, 99)) for e in o.get("errs", []))
    hints = "None" if i["hints"] is None else "(Some " + clist(str(MODID.get(h, 99)) for h in i["hints"]) + ")"
    vc = "None" if i["vc"] is None else "(Some " + clist("None" if x is None else f"(Some {clist(cstr(v) for v in x)})" for x in i["vc"]) + ")"
    cache = "None" if i.get("cache") is None else f"(Some ({i['cache']['hits']}, {i['cache']['misses']}))"
    return f"(Build_iout {c_res(o['r'])} {errs} {snap} {cache} {hints} {cbool(i['tpl_ok'])} {vc})"

def history_to_coq(c, r):
    if "exc" in r:
        # the implementation-side run of the whole history failed (exceptions of the code under test are outcomes of
        # single operations and never end here): judged with no agreement and a rejecting oracle, never skipped
        return "(mk_env [] [] [] [] [] [] [] [] [] [] [] [] [], @nil op, @nil iout, @None iout, @nil iout)"
    conds = []
    mops = model_ops(c["ops"])
    for rule in rules_of(mops):
        for k in rule["conds"]:
            if k not in conds: conds.append(k)
    parses = clist(f"({cstr(k)}, {copt(c_tree(parse_cond(k)) if parse_cond(k) is not None else None)})" for k in conds)
    users = clist(clist(c_item(d) for d in pd_all(c["pdefs"][u])) for u in c["users"])
    def c_vars(v):
        return clist(f"({cstr(k)}, {clist(cstr(x) for x in (x if isinstance(x, list) else [x]))})" for k, x in v.items())
    env = ("(mk_env " + clist(cbool(k["ne"]) for k in c["classes"]) + " " +
           clist(clist(c_item(d) for d in k["bk"]) for k in c["classes"]) + " " +
           clist(clist(f"({f}, {clist(c_item(d) for d in its)})" for f, its in k["fmt"].items()) for k in c["classes"]) + " " +
           users + " " + parses + " " +
           clist(f"(Ok {clist(cstr(v) for v in x['expect'])})" if isinstance(x["expect"], list) else f"(SigmaErr {ERRTAG[x['expect']]})" for x in SOURCES) + " " +
           clist(f"(SUser {o}, {cnat(k)})" for o, u in enumerate(c["users"]) for k, d in enumerate(pd_items(c["pdefs"][u])) if d["type"] == "file_placeholders") + " " +
           clist(c_vars(k.get("bkvars", {})) for k in c["classes"]) + " " +
           clist(clist(f"({f}, {c_vars(v)})" for f, v in k.get("fmtvars", {}).items()) for k in c["classes"]) + " " +
           clist(c_vars(pd_vars(c["pdefs"][u])) for u in c["users"]) + " " +
           clist(copt(cstr(k["qexpr"]) if k.get("qexpr") else None) for k in c["classes"]) + " " +
           clist(clist(f"({cstr(a)}, {cstr(b)})" for a, b in k.get("sdef", {}).items()) for k in c["classes"]) + " " +
           clist(clist(str(t) for t in a) for a in ACCEPTS) + ")")
    ops = clist(c_op(o) for o in mops)
    iouts = clist(c_iout(o) for o in r["outs"])
    fresh = f"(Some {c_iout(r['fresh'])})" if r["fresh"] is not None else "(@None iout)"
    each = clist(c_iout(o) for o in r["each"]) if r["each"] else "(@nil iout)"
    return f"({env}, {ops}, {iouts}, {fresh}, {each})"

# ---------------------------------------------------------------- known findings (input classes)
def sources(c, cls, user, fmt):
    s = set()
    k = c["classes"][cls]
    if k["bk"]: s.add(("bk", cls))
    if k["fmt"].get(str(fmt)): s.add(("fmt", cls, fmt))
    if user is not None:
        pd = c["pdefs"][c["users"][user]]
        if pd_items(pd) or (isinstance(pd, dict) and (pd.get("post") or pd.get("fin"))): s.add(("user", user))
    return s

def classify(c):
    """simulate the owner links: returns (owns_ok, fmt_ok) for the probe"""
    owner, bks = {}, []
    def init(b, fmt):
        for s in sources(c, bks[b]["cls"], bks[b]["user"], fmt): owner[s] = b
        bks[b]["last"] = fmt
    for op in c["ops"][:-1]:
        if op[0] == "new": bks.append({"cls": op[1], "user": op[2], "last": None})
        elif op[0] in ("init", "coll", "collf"): init(op[1], op[2] if op[0] == "init" else op[-1])
        elif op[0] == "rule" and bks[op[1]]["last"] is None: init(op[1], op[3])
    p = c["ops"][-1]
    if p[0] != "rule" or bks[p[1]]["last"] is None: return True, True
    b = p[1]
    owns = all(owner.get(s) == b for s in sources(c, bks[b]["cls"], bks[b]["user"], bks[b]["last"]))
    return owns, bks[b]["last"] == p[3]

def known_history(c, r):
    owns, fmt = classify(c)
    if not owns: return "D18-pipeline-items-reowned-by-later-init"
    if not fmt: return "D30-convert_rule-reuses-pipeline-of-other-format"
    return None

def stratum(c, r):
    owns, fmt = classify(c)
    grown = []
    if isinstance(r, dict) and r.get("outs"):       # module-level objects of sigma.* that grew during the history (information)
        grown = [g for g in r["outs"][-1]["int"].get("grown", []) if not g.startswith("sigma.modifiers.")]
    return c["ops"][-1][0] + ("" if owns else "+reowned") + ("" if fmt else "+stalefmt") + ("+grown:" + ",".join(grown) if grown else "")

def mutate_history(c, rng):
    out = []
    ops = c["ops"]
    for i in range(len(ops) - 1):
        out.append(dict(c, ops=ops[:i] + ops[i + 1:]))
    for r in FIXED_RULES:
        p = list(ops[-1]); p[2] = r if p[0] == "rule" else [r, r]
        out.append(dict(c, ops=ops[:-1] + [p]))
        for i in range(1, len(ops)):
            out.append(dict(c, ops=ops[:i] + [["rule", 0, r, 2]] + ops[i:]))
    return [x for x in out if valid(x["ops"])]

# pipelines whose query postprocessing items / finalizers read pipeline.vars and pipeline.state through their owner link
# (not modelled in Coq: the specification - same result as in a fresh setup - is evaluated on the implementation alone)
READER_PDEFS = [
    {"items": [ST], "vars": {"uv": "u1"},
     "post": [{"type": "simple_template", "id": "pst", "template": "{query} /* idx={pipeline.vars[backend_index]} st={pipeline.state} */"}]},
    {"items": [], "vars": {"backend_index": "fromuser"},
     "post": [{"type": "template", "id": "pjt", "template": "{{ query }} | ix={{ pipeline.vars.backend_index }} uv={{ pipeline.vars.uv }} be={{ pipeline.vars.backend }} of={{ pipeline.vars.output_format }}"}]},
    {"items": [VP], "vars": {},
     "post": [{"type": "template", "id": "pjt", "template": "{{ query }} | ns={{ pipeline.vars.backend_ns }} keys={{ pipeline.vars.keys() | sort | join(',') }}"}],
     "fin": [{"type": "template", "template": "{{ queries | join(' ;; ') }} ## ix={{ pipeline.vars.backend_index }} n={{ pipeline.vars | length }}"}]},
]
def readers_check(tier, seed):
    from vlib import core
    from vlib.core import Problem
    rng = random.Random(f"{seed}:C15:readers")
    cases = []
    for d in range(len(READER_PDEFS)):
        for cls in (0, 1, 4, 5, 6):
            for oa, ob in ((OPTIONS[1], {}), ({}, OPTIONS[1]), (OPTIONS[2], OPTIONS[3]), (OPTIONS[1], OPTIONS[2]), ({}, {})):
                for ua, ub in ((0, 1), (0, 0), (None, 0), (0, None)):
                    for mode in range(4):
                        r1, r2 = rng.choice([R_IDX, R_WIN, R_BK]), rng.choice([R_IDX, R_WIN, R_LIN, R_VARS])
                        ops = [["new", cls, ua, False, oa], ["rule", 0, r1, 2] if mode != 3 else ["coll", 0, [r1], 0],
                               ["new", cls, ub, mode == 2, ob]]
                        if mode == 0: ops.append(["rule", 1, r2, 2])
                        elif mode == 1: ops += [["coll", 1, [r2], 2], ["rule", 0, r2, 2]]
                        else: ops.append(["coll", 1, [R_IDX, r2], 2 if mode == 2 else 0])
                        cases.append({"classes": CLASSES, "pdefs": READER_PDEFS, "users": [d, d, (d + 1) % len(READER_PDEFS)], "ops": ops})
    if tier == "quick":
        cases = cases[:8] + rng.sample(cases, 220)
    res = core.run_impl("C15", "run_history", cases)
    problems, known, nontriv, strata = [], 0, [], {}
    for c, r in zip(cases, res):
        owns, fmt = classify(c)
        if not (owns and fmt):
            known += 1       # D18 / D30 input classes: outside the claim
            continue
        if "exc" in r:   # (exceptions of the code under test are recorded per operation; this is the run as a whole)
            problems.append(Problem("violation", "readers", c, {"impl": r, "why": "the implementation-side run of the history raised"})); continue
        a, f = r["outs"][-1], r["fresh"]
        same = (a["r"], a.get("errs"), a.get("snap")) == (f["r"], f.get("errs"), f.get("snap"))
        key = a["r"][0]
        strata[key] = strata.get(key, 0) + 1
        if not same or not a["int"]["tpl_ok"]:
            problems.append(Problem("violation", "readers", c, {"impl": r, "why": "probe after the history differs from the probe in a fresh setup"}))
        nontriv.append("readers:" + json.dumps(c["ops"], sort_keys=True) + str(c["users"]))
    return {"name": "readers", "problems": problems, "evaluations": len(cases), "nontrivial_keys": nontriv,
            "stats": {"cases": len(cases), "outside_claim_D18_D30": known, "results": strata},
            "samples": [{"suite": "readers", "case": {"users": cases[0]["users"], "ops": cases[0]["ops"]}, "impl": res[0]}]}

def registry_check(tier, seed):
    """sigma/pipelines/base.py keeps instances on classes: whatever was defined before, every @Pipeline-decorated
    function and every Pipeline subclass must yield its own pipeline (specification evaluated directly; no Coq model)"""
    from vlib import core
    from vlib.core import Problem
    rng = random.Random(f"{seed}:C15:registry")
    names = ["a", "b", "c", "d"]
    cases = []
    for n in range(1, 4 if tier == "quick" else 5):
        for kinds in itertools.product(["dec", "sub"], repeat=n):
            cases.append({"defs": [[k, names[i]] for i, k in enumerate(kinds)]})
    res = core.run_impl("C15", "run_registry", cases)
    problems = []
    for c, r in zip(cases, res):
        want = [n for _, n in c["defs"]]
        if r.get("names") != want:
            problems.append(Problem("violation", "registry", c, {"impl": r, "expected": want}))
    return {"name": "registry", "problems": problems, "evaluations": len(cases),
            "nontrivial_keys": ["registry:" + json.dumps(c) for c in cases if len(c["defs"]) > 1],
            "stats": {"cases": len(cases), "ok": len(cases) - len(problems)}, "samples": [{"suite": "registry", "case": cases[-1], "impl": res[-1]}]}

REQ = ["Base.Chars", "Base.Outcome", "Model.History", "Spec.Frame", "Run.C15run"]
PROPERTY = Property(
    pid="C15", props_file="Props/C15.v",
    suites=[Suite("history", gen_history, "run_history", REQ, "judge_history", history_to_coq,
                  known=known_history, mutate=mutate_history, stratum=stratum, shard=150)],
    extra_checks=[registry_check, readers_check],
    rule="operation histories over {load (valid / invalid document), new backend (11 classes: plain, not-equals mode, with class-level "
         "backend+format pipelines, not-equals with format pipelines, class-level pipelines with vars but no items, with a class-level "
         "value_placeholders reader and no / some vars; user pipeline object shared or not; collect_errors; backend options), init pipeline, "
         "convert collection, convert rule} x 4 output formats x 6 pipeline definitions (state, state conditions, chained field mappings, "
         "rule failure) + 13 pipeline definitions with file_placeholders items over 14 external sources (plaintext / csv / json / yaml files "
         "in a temp dir: working, empty, filtered; failing at security check, fetch, csv column lookup, JSON / YAML decoding, jq expression, "
         "non-scalar jq result after good values); rules share condition strings, detection names, field names and `fields` lists; failing "
         "conversions at load, pipeline (rule_failure, external source), parse, pipe syntax, undefined identifier, rendering (placeholder), "
         "rendering inside a negated not-equals leaf (placeholder error and backend NotImplementedError); 'failing conversion then probe' for "
         "every pipeline definition x failing rule x probe, on the same and on another backend sharing the pipeline object; 5 pipeline definitions "
         "with vars and value_placeholders readers x option histories (backend with options then a backend without, reverse, different options; "
         "own / shared / no user pipeline object; probe by convert_rule, after a later init of the other backend, by convert); 11 pipeline "
         "definitions with set_field / add_field / remove_field (every order), set_custom_attribute, change_logsource, observed through a 4th "
         "output format that emits the processed rule's field list, custom attributes and log source; configuration of every transformation "
         "object and vars of every pipeline definition compared with their initial value after every operation; 4 backend classes whose "
         "query_expression reads {state[key]} over ChainMap(rule's pipeline state, class-level state_defaults) (own defaults, class-level "
         "conditional set_state, no default -> KeyError, inherited base-class dict) x pipelines with conditional set_state x order (rule with the "
         "state set first / probe first) x same backend by convert / convert_rule, new backend of the class with its own, the shared, or no "
         "pipeline; every dict / list / set attribute of the backend classes and their bases compared with its initial value after every operation; rules "
         "with |contains and with a harness-registered |lcontains (subclass of the contains modifier taking numbers too) loaded / converted in "
         "both orders, incl. documents failing the type check; selector conditions (1 of / all of pattern, them) alone and mixed with "
         "identifiers over detection sections that coincide with those of earlier rules as sets but differ in order, differ by one name, or "
         "coincide exactly (earlier rule converted on the same backend, in the same collection, on another backend); every module-level dict / "
         "list / set and lru_cache of the sigma.* modules is put back to its import-time content by the fresh setup, growth is reported in the strata; 4 pipeline definitions with query postprocessing in the model (top-level embed / state "
         "template, `nest` with nested embed / template items under logsource and processing_state conditions) x conditional set_state x "
         "order (rule that sets the state first / probe first) x same collection, earlier call, other backend sharing the pipeline object. Exhaustive: all histories of <= 1 (quick) / <= 2 "
         "(thorough) operations from a 17-operation alphabet after two backend creations in 3 sharing setups x all 14 probes (6 of them at length 2), sampled at the next "
         "length (70 / 400 histories x 2 probes per setup); 400 / 6000 random histories of 2..8 operations incl. collections with a filter document. The last operation is the probe; oracle = same probe with new class objects, new "
         "pipeline objects from the same YAML and cleared caches. non-trivial = probe is a conversion preceded by at least one "
         "conversion/init; distinct by case hash",
    assumptions=["single-threaded histories only: interleavings of the class-attribute swap in not_equals_context_manager are not modelled",
                 "condition grammar (C02), value rendering beyond numbers / plain strings / trailing-wildcard strings (C05) and the rule loader "
                 "(C07) are outside this model: parsing is a parameter of the model, validated per case against the implementation",
                 "LRU eviction (maxsize 256) of the condition parse cache is not modelled: entries are a function of the key, histories use fewer keys",
                 "FieldMappingTracking.add_mapping is modelled for 1:1 mappings whose reverse sets are singletons (set iteration order otherwise)",
                 "correlation rules, nested pipelines, postprocessing items and finalizers are not part of the modelled state; filter rewriting is "
                 "done by the harness",
                 "external sources are local files whose content is constant during a history (parameter e_src of the model); HTTP / command "
                 "sources are not run (they share _get_values with the file source)"],
)
