"""C19 - validation only observes: exact reference checks, exact uniqueness groups, exclusions,
order independence, purity.

Suites (refs, coll: judged by Run.C19run.judge_coll, run by impl.c19.run_coll; shared: judge_shared / run_shared)
  refs : ONE rule; the condition texts are generated from expressions (all shapes up to a leaf bound,
         random beyond) over detection names from a hostile pool (operator-prefixed, underscore-prefixed,
         digit-leading, unreferable names with blanks / dots / line breaks / non-ASCII), several spellings
         and layouts, lists of conditions; plus a stream of hostile condition texts without a generating
         expression (there bit 2 only requires: no non-Sigma exception; bit 4 is off).
  coll : 1..5 rules drawn with repetition of ids / titles / file names / paths (any multiplicity), missing
         ids, correlation rules, every order of the rules (exhaustive up to 5 for fixed base collections),
         subsets and orders of the six modelled validators, exclusion tables.
  shared : validator objects that live across rules: 2..5 rules cut from one template (detections are subsets
         of a common pool; the same conditions and selector patterns recur and match in some rules only; the
         rules share an id or have none, share titles, file names, paths), EVERY order, ONE SigmaValidator,
         the collection validated twice by the same objects.  bit 1: Model.Validators.validate_twice; bit 2:
         spec_issues on the first call and, for the issues attached to single rules, on the second call;
         py_oracle: per-rule issues = what fresh validator objects report for the rule alone, = second run,
         bare validator objects fed rule by rule in both directions.
  tags : one rule with tags from a pool of tlp-namespace tags in lower / upper / mixed case, other namespaces with
         odd case, malformed and line-break-terminated tags, repetitions and case variants of one tag; the six modelled
         tag validators (TagFormat, TLPv1, TLPv2, TLP, DuplicateTag, NamespaceTag): all 64 subsets, every order of
         subsets that contain a TLP validator and a case-sensitive second validator.  bit 1: Model.TagValidators.
         validate_tags (issues AND the rule's tags afterwards); bit 2: rule.to_dict() tags after = source tags and every
         issue occurs as often as the source tags and validator classes demand (order-free count); py_oracle: dict form,
         tag objects, converted query unchanged; all ten network-free tag validators in two opposite orders.
  bit 2 (Spec.ValidatorsSpec.spec_issues) recomputes, from the source documents and the generating
  expressions only, which issues have to be present (each exactly once) and checks every reported issue.
  py_oracle: purity and order independence on the real objects for ALL built-in validators (29 of 31; the
  two MITRE validators need the network): to_dict() and convert() before vs after validation, validation
  after conversion, natural set order, two shuffled validator orders x two rule orders.
"""
import itertools
from vlib.core import Property, Suite, cstr, clist, cbool, copt

# ----------------------------------------------------------------------------- names
REFERABLE = ["notepad", "android", "oracle", "all_x", "any1", "of", "them_", "1st", "a-b", "_x",
             "sel_1", "sel_2", "nota", "not_", "ornot", "and-", "-a", "1", "any", "all", "them",
             "of_", "x", "_filt_y", "NOT", "And", "or1", "notnot", "sel-3", "__", "0", "selection",
             "_", "filter", "sel_10"]
UNREFERABLE = ["a b", "é", "x*", "a\nb", "a.b", "sel.1", "_\n", "(a)", "sel_1 ", "sel|1", "*"]
RESERVED = ["not", "and", "or"]
QUANTS = ["1", "any", "all"]
PATC = set("abcdefghijklmnopqrstuvwxyzABCDEFGHIJKLMNOPQRSTUVWXYZ0123456789_*")
IDC = set("abcdefghijklmnopqrstuvwxyzABCDEFGHIJKLMNOPQRSTUVWXYZ0123456789_-")


def patterns_for(dets, rng):
    fixed = ["them", "*", "_*", "zz*", "*_*", "**", "them*", "*1", "s*_*", "_", "sel_1", "*a*b*", "__*"]
    out = ["them", "*", rng.choice(fixed), rng.choice(fixed)]
    for n in dets:
        core = "".join(c for c in n if c in PATC and c != "*")
        if not core:
            continue
        k = rng.randint(1, len(core))
        out += [core[:k] + "*", "*" + core[-k:], core[0] + "*" + core[-1], core, core[:k] + "*" + core[k:],
                "*" + core[k // 2:k] + "*", core + "x", core[:-1] or "q"]
    return [p for p in out if p and set(p) <= PATC]


def pick_dets(rng, n=None):
    n = n or rng.choice([1, 2, 2, 3, 3, 3, 4, 4, 5])
    pool = REFERABLE if rng.random() < 0.6 else REFERABLE + UNREFERABLE
    dets = rng.sample(pool, min(n, len(pool)))
    if rng.random() < 0.06:
        dets[rng.randrange(len(dets))] = rng.choice(RESERVED)
    return dets


# ----------------------------------------------------------------------------- expressions
def shapes(k):
    if k == 1:
        base = [("leaf",)]
    else:
        base = []
        for i in range(1, k):
            for a in shapes_cached(i):
                for b in shapes_cached(k - i):
                    base.append(("and", a, b))
                    base.append(("or", a, b))
    return base + [("not", x) for x in base]


_SHAPES = {}


def shapes_cached(k):
    if k not in _SHAPES:
        _SHAPES[k] = shapes(k)
    return _SHAPES[k]


def random_shape(rng, k):
    if k == 1:
        e = ("leaf",)
    else:
        i = rng.randint(1, k - 1)
        e = (rng.choice(["and", "or"]), random_shape(rng, i), random_shape(rng, k - i))
    r = rng.random()
    if r < 0.25:
        e = ("not", e)
    elif r < 0.3:
        e = ("not", ("not", e))
    return e


def fill(shape, dets, rng, pats):
    if shape[0] == "leaf":
        r = rng.random()
        referable = [n for n in dets if n and set(n) <= IDC and n not in RESERVED]
        if r < 0.5 and referable:
            return ("id", rng.choice(referable))
        if r < 0.54:
            return ("id", rng.choice([n for n in REFERABLE if n not in dets]))   # undefined name
        return ("sel", rng.choice(QUANTS), rng.choice(pats))
    if shape[0] == "not":
        return ("not", fill(shape[1], dets, rng, pats))
    return (shape[0], fill(shape[1], dets, rng, pats), fill(shape[2], dets, rng, pats))


LEVEL = {"id": 0, "sel": 0, "not": 1, "and": 2, "or": 3}


def tokens(e, maxlevel, style, rng):
    k = e[0]
    if k == "id":
        ts = [e[1]]
    elif k == "sel":
        ts = [e[1], "of", e[2]]
    elif k == "not":
        ts = ["not"] + tokens(e[1], 1, style, rng)
    elif k == "and":
        ts = tokens(e[1], 2, style, rng) + ["and"] + tokens(e[2], 1, style, rng)
    else:
        ts = tokens(e[1], 3, style, rng) + ["or"] + tokens(e[2], 2, style, rng)
    need = LEVEL[k] > maxlevel
    extra = 0
    if style == "full" and LEVEL[k] > 0:
        need = True
    if style == "redundant":
        r = rng.random()
        extra = 1 if r < 0.3 else (2 if r < 0.36 else 0)
    for _ in range((1 if need else 0) + extra):
        ts = ["("] + ts + [")"]
    return ts


BLANKS = [" ", "  ", "\t", "\n", " \t ", "\r\n", "   "]


def layout(ts, blank, rng):
    out = []
    prev = None
    for t in ts:
        word_meet = prev is not None and prev not in "()" and t not in "()"
        if blank == "tight":
            sep = " " if word_meet else ""
        elif blank == "normal":
            sep = "" if (prev is None or prev == "(" or t == ")") else " "
        else:
            sep = rng.choice(BLANKS) if (word_meet or rng.random() < 0.7) else ""
        out.append(sep)
        out.append(t)
        prev = t
    s = "".join(out)
    if blank == "wide":
        s = rng.choice(["", " ", "\t"]) + s + rng.choice(["", " ", "\n"])
    return s


def spell(e, rng):
    style = rng.choice(["minimal", "minimal", "full", "redundant"])
    blank = rng.choice(["normal", "normal", "tight", "wide"])
    return layout(tokens(e, 3, style, rng), blank, rng)


# ----------------------------------------------------------------------------- rules
UUIDS = ["5f3e7f3a-0c3b-4d2e-9a3b-0123456789a%d" % i for i in range(4)] + ["00000000-0000-0000-0000-000000000000"]
TITLES = ["T1", "T2", "t1", "", "Tïtle", "T1 "]
PATHS = [["d1", "a.yml"], ["d2", "a.yml"], ["d1", "b.yml"], ["a.yml"], ["d1", "sub", "a.yml"], ["d2", "b.yml"],
         ["d1", "a_rule_with_a_long_enough_name.yml"], None]
MODELLED = ["dangling_detection", "dangling_condition", "identifier_existence", "identifier_uniqueness",
            "duplicate_title", "duplicate_filename"]
VK = {"dangling_detection": "VUnused", "dangling_condition": "VDangling", "identifier_existence": "VIdExist",
      "identifier_uniqueness": "VIdUniq", "duplicate_title": "VTitle", "duplicate_filename": "VFile"}
ITEMS = [{"f": "v"}, {"f|contains": "*v*", "EventID": 1}, {"g|all": ["a", "b"]}, {"CommandLine|windash|contains": "-x"},
         {"f|base64offset": "abc"}, {"f": "1"}, {"f": ["a*", "b*"]}, {"f": "a\\*b"}, {"f|re": "a.*b"}, {"f": None},
         {"f|contains|contains": "x"}, {"f": "a**b"}]
TAGS = [[], ["attack.t1059", "attack.execution"], ["tlp.red", "tlp.red"], ["x.y"], ["cve.2020-1", "car.2016-04-005", "stp.1a"],
        ["detection.dfir", "Bad.Tag X"], ["tlp.RED", "tlp.red"], ["tlp.Amber", "attack.T1059"], ["TLP.green", "tlp.CLEAR", "cve.2020-X"]]
LOGSOURCES = [{"category": "test"}, {"product": "windows", "service": "sysmon"}, {"product": "windows", "service": "security"},
              {"category": "process_creation", "product": "windows", "definition": "x"}]


def rule_doc(rng, dets=None, nconds=None, rich=True, hostile=False):
    dets = dets or pick_dets(rng)
    pats = patterns_for(dets, rng)
    nconds = nconds or rng.choice([1, 1, 1, 1, 2, 3])
    asts, conds = [], []
    for _ in range(nconds):
        e = fill(random_shape(rng, rng.choice([1, 1, 2, 2, 3, 4, 6])), dets, rng, pats)
        asts.append(e)
        conds.append(spell(e, rng))
    d = {"corr": False, "id": rng.choice(UUIDS + [None]), "title": rng.choice(TITLES), "path": rng.choice(PATHS),
         "dets": dets, "conds": conds, "asts": asts}
    if rich:
        d["items"] = [rng.choice(ITEMS) for _ in range(rng.randint(1, 3))]
        d["tags"] = rng.choice(TAGS)
        d["logsource"] = rng.choice(LOGSOURCES)
        if rng.random() < 0.2:
            d["references"] = ["http://a", "http://a"]
        if rng.random() < 0.1:
            d["custom"] = {"realted": "x"}
    return d


def corr_doc(rng):
    return {"corr": True, "id": rng.choice(UUIDS + [None]), "title": rng.choice(TITLES), "path": rng.choice(PATHS),
            "dets": [], "conds": [], "asts": []}


def excl_table(rng, rules):
    ids = list(dict.fromkeys([r["id"] for r in rules] + [UUIDS[0], None]))
    n = rng.choice([0, 0, 1, 1, 2, 3])
    out = []
    for i in rng.sample(ids, min(n, len(ids))):
        out.append([i, rng.sample(MODELLED, rng.randint(1, 3))])
    return out


def mk_case(rules, order, vs, excl, seed):
    return {"rules": rules, "order": order, "vs": vs, "excl": excl, "seed": seed}


# ----------------------------------------------------------------------------- suite refs
HOSTILE_TEXT = ["a and", "1 of (a)", "1 of a-*", "a |b", "a | b", "", " ", "()", "(a", "a)", "a b", "not", "not not", "a or or b",
                "1 of", "all of", "1 of them them", "a and (b", "é", "a.b", "1 of a.b", "sel*", "1 of*", "1 of*x", "all of**",
                "any of _", "1of them", "1 ofthem", "not1 of them", "not(a)", "a and(b)or(c)", "((a))", "a\tand\nb", "a AND b",
                "a And b", "NOT a", "1 OF them", "All of them", "x and not", "and", "or", "a and and", "them", "1", "all", "any",
                "of", "1 of and", "1 of not", "not of", "1 of 1", "1 of 1 of them", "any of any", "a-b", "-a", "a--b", "_", "1 of _",
                "a,b", "a;b", "'a'", "\"a\"", "a and b", "a ", "1 of aé*", "1 of a*b*c*d*e*f*g*h"]


def gen_refs(tier, rng):
    out = []
    kmax = 3 if tier == "quick" else 4
    per_shape = 2 if tier == "quick" else 6
    dv = ["dangling_detection", "dangling_condition"]
    for k in range(1, kmax + 1):
        for sh in shapes_cached(k):
            for _ in range(per_shape if k < 4 else 1):
                dets = pick_dets(rng)
                pats = patterns_for(dets, rng)
                e = fill(sh, dets, rng, pats)
                d = {"corr": False, "id": UUIDS[0], "title": "T", "path": None, "dets": dets, "conds": [spell(e, rng)], "asts": [e]}
                vs = dv[:] if rng.random() < 0.5 else dv[::-1]
                out.append(mk_case([d], [0], vs, [], rng.randrange(10**6)))
    for _ in range(400 if tier == "quick" else 8000):
        d = rule_doc(rng, rich=rng.random() < 0.3)
        vs = rng.sample(dv, rng.choice([1, 2, 2, 2]))
        if rng.random() < 0.15:
            vs = rng.sample(MODELLED, rng.randint(1, 6))
        excl = [[d["id"], rng.sample(dv, 1)]] if rng.random() < 0.08 else []
        out.append(mk_case([d], [0], vs, excl, rng.randrange(10**6)))
    # hostile condition texts: no generating expression
    for t in HOSTILE_TEXT:
        for dets in (["a", "b"], pick_dets(rng)):
            d = {"corr": False, "id": UUIDS[1], "title": "T", "path": None, "dets": dets, "conds": [t], "asts": None}
            out.append(mk_case([d], [0], dv[:], [], 0))
    words = ["a", "b", "not", "and", "or", "(", ")", "1", "of", "them", "all", "a*", "_x", "notepad", "*"]
    for _ in range(300 if tier == "quick" else 3000):
        n = rng.randint(1, 7)
        t = " ".join(rng.choice(words) for _ in range(n))
        if rng.random() < 0.3:
            t = t.replace(" ", "", rng.randint(1, 3))
        dets = rng.choice([["a", "b"], ["a", "_x", "notepad"], pick_dets(rng)])
        cs = [t] if rng.random() < 0.8 else ["a", t]
        d = {"corr": False, "id": UUIDS[1], "title": "T", "path": None, "dets": dets, "conds": cs, "asts": None}
        out.append(mk_case([d], [0], rng.sample(dv, rng.choice([1, 2])), [], 0))
    return out


# ----------------------------------------------------------------------------- suite coll
def base_collection(rng, n, simple=False):
    rules = []
    for _ in range(n):
        if rng.random() < 0.1 and not simple:
            rules.append(corr_doc(rng))
        else:
            rules.append(rule_doc(rng, nconds=1 if simple else None, rich=not simple))
    return rules


def gen_coll(tier, rng):
    out = []
    # (a) every order of the rules for fixed base collections, sizes 1..5
    sizes = [(1, 1), (2, 2), (3, 2), (4, 1), (5, 1)] if tier == "quick" else [(1, 4), (2, 8), (3, 10), (4, 8), (5, 6)]
    for n, reps in sizes:
        for _ in range(reps):
            # few distinct values so that groups of every multiplicity arise
            rules = base_collection(rng, n, simple=True)
            ids = rng.sample(UUIDS, 2) + [None]
            tts = rng.sample(TITLES, 2)
            pth = rng.sample(PATHS, 3)
            for r in rules:
                r["id"], r["title"], r["path"] = rng.choice(ids), rng.choice(tts), rng.choice(pth)
            vs = rng.sample(MODELLED, rng.choice([3, 4, 5, 6, 6]))
            excl = excl_table(rng, rules)
            for perm in itertools.permutations(range(n)):
                out.append(mk_case(rules, list(perm), vs, excl, rng.randrange(10**6)))
    # (b) every subset of the modelled validators, and every order of some subsets, on fixed collections
    for _ in range(1 if tier == "quick" else 4):
        rules = base_collection(rng, 4, simple=True)
        for r in rules[1:3]:
            r["id"], r["title"], r["path"] = rules[0]["id"], rules[0]["title"], (["dX"] + (rules[0]["path"] or ["a.yml"])[-1:])
        excl = excl_table(rng, rules)
        for k in range(0, 7):
            for sub in itertools.combinations(MODELLED, k):
                out.append(mk_case(rules, [0, 1, 2, 3], list(sub), excl, rng.randrange(10**6)))
        sub = rng.sample(MODELLED, 4)
        for perm in itertools.permutations(sub):
            out.append(mk_case(rules, [2, 0, 3, 1], list(perm), excl, rng.randrange(10**6)))
    # (c) random collections, rich rules (values, modifiers, tags, log sources for the other validators)
    for _ in range(220 if tier == "quick" else 4000):
        n = rng.choice([1, 2, 2, 3, 3, 4, 5, 6, 8])
        rules = base_collection(rng, n)
        if rng.random() < 0.5:   # force multiplicities
            src = rng.choice(rules)
            for r in rng.sample(rules, rng.randint(1, n)):
                for f in rng.sample(["id", "title", "path"], rng.randint(1, 3)):
                    r[f] = src[f]
        order = list(range(n))
        rng.shuffle(order)
        vs = rng.sample(MODELLED, rng.randint(0, 6))
        out.append(mk_case(rules, order, vs, excl_table(rng, rules), rng.randrange(10**6)))
    return out


# ----------------------------------------------------------------------------- suite shared
SHARED_POOLS = [
    ["selection", "filter_main", "filter_opt", "_x"],
    ["selection", "filter_main"],
    ["sel_1", "sel_2", "filter", "notepad"],
    ["a", "b", "_filt_y", "android", "1st"],
    ["selection", "sel.1", "a b", "x*"],
]
CANON = ("and", ("id", "selection"), ("not", ("sel", "1", "filter_*")))


def shared_family(rng, n):
    """n rules cut from ONE template: detections are subsets of a common pool, conditions come from a common
    small set (the same selector pattern occurs in several rules and matches in some of them only), ids /
    titles / file names are shared (same id, no id) between rules that differ in everything else."""
    pool = rng.choice(SHARED_POOLS) if rng.random() < 0.7 else pick_dets(rng, rng.choice([3, 4, 5]))
    pats = patterns_for(pool, rng)
    conds = []
    if "selection" in pool and rng.random() < 0.7:
        conds.append(CANON)
    while len(conds) < rng.choice([1, 2, 2, 3]):
        conds.append(fill(random_shape(rng, rng.choice([1, 2, 2, 3])), pool, rng, pats))
    spelled = [(e, spell(e, rng)) for e in conds]
    shared_id = rng.choice([None, None, UUIDS[0], UUIDS[4]])
    other_id = rng.choice([i for i in UUIDS + [None] if i != shared_id])
    shared_title = rng.choice(TITLES)
    shared_path = rng.choice(PATHS[:6])
    rules = []
    for k in range(n):
        m = rng.randint(1, len(pool))
        dets = rng.sample(pool, m)
        if k > 0 and rng.random() < 0.5:   # complement-ish of the previous rule: verdicts differ
            prev = rules[-1]["dets"]
            dets = [d for d in pool if d not in prev] or dets
            if rng.random() < 0.5 and prev:
                dets = dets + [rng.choice(prev)]
        cs = rng.sample(spelled, rng.choice([1, 1, min(2, len(spelled))]))
        same_file = rng.random() < 0.3
        rules.append({"corr": False,
                      "id": shared_id if rng.random() < 0.8 else other_id,
                      "title": shared_title if rng.random() < 0.7 else rng.choice(TITLES),
                      "path": (shared_path if same_file else (["d%d" % k] + shared_path[-1:])) if rng.random() < 0.8 else None,
                      "dets": dets, "conds": [t for _, t in cs], "asts": [e for e, _ in cs],
                      "name": "shared_name" if rng.random() < 0.5 else "name_%d" % k})
    return rules


def gen_shared(tier, rng):
    out = []
    dv = ["dangling_condition", "dangling_detection"]
    fams = [(2, 20), (3, 14), (4, 4)] if tier == "quick" else [(2, 120), (3, 120), (4, 50), (5, 6)]
    for n, reps in fams:
        for _ in range(reps):
            rules = shared_family(rng, n)
            r = rng.random()
            if r < 0.4:
                vs = rng.sample(dv, 2)
            elif r < 0.7:
                vs = rng.sample(MODELLED, 6)
            else:
                vs = list(dict.fromkeys(rng.sample(dv, rng.choice([1, 2])) + rng.sample(MODELLED, rng.randint(0, 4))))
                rng.shuffle(vs)
            excl = excl_table(rng, rules) if rng.random() < 0.25 else []
            for perm in itertools.permutations(range(n)):
                out.append(mk_case(rules, list(perm), vs, excl, rng.randrange(10**6)))
    return out


def shared_to_coq(c, r):
    def outc(key):
        if "exc" in r:
            if r.get("sigma"):
                return "(SigmaErr 4)" if r["exc"] == "SigmaConditionError" else "(SigmaErr 99)"
            return "(Crash 1)"
        return f"(Ok {clist(cissue(i) for i in r[key])})"
    E = clist(f"({copt(cstr(i)) if i else 'None'}, {clist(VK[v] for v in vs)})" for i, vs in c["excl"])
    vs = clist(VK[v] for v in c["vs"])
    rules = clist(crule(k, c["rules"][k]) for k in c["order"])
    return (f"(({E} : excl), ({vs} : list vkind), ({rules} : list srule), ({outc('issues')} : outcome (list issue)), "
            f"({outc('issues2')} : outcome (list issue)))")


# ----------------------------------------------------------------------------- suite tags
TAG_POOL = ["tlp.red", "tlp.RED", "tlp.Red", "tlp.amber", "tlp.AMBER", "tlp.Amber-Strict", "tlp.amber-strict", "tlp.clear",
            "tlp.CLEAR", "tlp.white", "tlp.White", "tlp.green", "tlp.GREEN", "tlp.purple", "tlp.", "tlp.red\n", "tlp.amber+strict",
            "tlp.red.extra", "tlp.rEd", "TLP.red", "Tlp.RED", "tlp .red", "attack.T1059", "Attack.t1059", "attack.t1059",
            "CVE.2020-1", "cve.2020-1", "cve.2020-X", "car.2016-04-005", "CAR.2016-04-005", "detection.DFIR", "detection.dfir",
            "stp.1A", "stp.1a", "x.y", "X.Y", "a-b.c_d.e", "bad ns.x", "ns.Name With Space", "\u00e9.x", ".x", "x.\n", "x.y\n\n",
            "d3fend.D3F-X", "tlp.\u0131"]
TAG_VS = ["tag_format", "tlpv1_tag", "tlpv2_tag", "tlptag", "duplicate_tag", "namespace_tag"]
TVK = {"tag_format": "TFormat", "tlpv1_tag": "TTlp1", "tlpv2_tag": "TTlp2", "tlptag": "TTlp", "duplicate_tag": "TDup",
       "namespace_tag": "TNamespace"}


def gen_tags(tier, rng):
    out = []
    quick = tier == "quick"
    # every tag alone: all six validators, several orders
    for t in TAG_POOL:
        orders = [TAG_VS[:], TAG_VS[::-1]] + [rng.sample(TAG_VS, 6) for _ in range(2 if quick else 10)]
        for o in orders:
            out.append({"tags": [t], "vs": o, "seed": rng.randrange(10**6)})
    # tag lists with repetitions and case variants of the same tag; EVERY order of a subset of the validators
    # that contains a TLP validator and a case-sensitive second tag validator
    for _ in range(30 if quick else 300):
        n = rng.choice([1, 2, 2, 3, 4])
        tags = [rng.choice(TAG_POOL) for _ in range(n)]
        if rng.random() < 0.5:
            base = rng.choice([t for t in TAG_POOL if t.startswith("tlp.")])
            tags += [base, rng.choice([base, base.lower(), base.upper().replace("TLP.", "tlp.")])]
        rng.shuffle(tags)
        k = rng.choice([2, 3, 3, 4] if quick else [2, 3, 4, 4, 5])
        sub = [rng.choice(["tlpv1_tag", "tlpv2_tag", "tlptag"]), rng.choice(["tag_format", "duplicate_tag"])]
        sub += rng.sample([v for v in TAG_VS if v not in sub], k - 2)
        for perm in itertools.permutations(sub):
            out.append({"tags": tags, "vs": list(perm), "seed": rng.randrange(10**6)})
    # all subsets of the six validators on a fixed hostile tag list
    tags = ["tlp.RED", "tlp.red", "tlp.Amber", "x.Y", "tlp.RED"]
    for k in range(0, 7):
        for sub in itertools.combinations(TAG_VS, k):
            o = list(sub)
            rng.shuffle(o)
            out.append({"tags": tags, "vs": o, "seed": rng.randrange(10**6)})
    return out


def ctag(ns, name):
    return f"{{| t_ns := {cstr(ns)}; t_name := {cstr(name)} |}}"


def ctag_s(s):
    ns, name = s.split(".", 1)
    return ctag(ns, name)


def tags_to_coq(c, r):
    if "exc" in r:
        return None
    vs = clist(TVK[v] for v in c["vs"])
    tags = clist(ctag_s(t) for t in c["tags"])
    out = clist(f"{k} {ctag(ns, nm)}" for k, ns, nm in r["issues"])
    after = clist(ctag_s(t) for t in r["tags_after"])
    return f"(({vs} : list tvkind), ({tags} : list tag), ({out} : list tissue), ({after} : list tag))"


def tags_stratum(c, r):
    if "exc" in r:
        return "error"
    return "issues:" + ("+".join(sorted({i[0] for i in r["issues"]})) or "none")


def tags_mutate(c, rng):
    out = []
    for t in ("tlp.RED", "tlp.Amber", "tlp.red", "x.Y"):
        out.append(dict(c, tags=c["tags"] + [t]))
        out.append(dict(c, tags=[t] + c["tags"]))
    out.append(dict(c, vs=c["vs"][::-1]))
    out.append(dict(c, vs=TAG_VS[:]))
    return out


# ----------------------------------------------------------------------------- Coq terms
def cast(e):
    k = e[0]
    if k == "id":
        return f"(PId {cstr(e[1])})"
    if k == "sel":
        q = {"1": "Q1", "any": "QAny", "all": "QAll"}[e[1]]
        return f"(PSel {q} {cstr(e[2])})"
    if k == "not":
        return f"(PNot {cast(e[1])})"
    c = "PAnd" if k == "and" else "POr"
    return f"({c} [{cast(e[1])};{cast(e[2])}])"


def crule(key, d):
    path = copt(clist(cstr(x) for x in d["path"])) if d["path"] else "None"
    idt = copt(cstr(d["id"])) if d["id"] else "None"
    asts = clist(cast(e) for e in (d["asts"] or []))
    return (f"(({{| r_key := {key}; r_corr := {cbool(d['corr'])}; r_id := {idt}; r_title := Some {cstr(d['title'])}; "
            f"r_path := {path}; r_dets := {clist(cstr(n) for n in d['dets'])}; r_conds := {clist(cstr(c) for c in d['conds'])} |}}, ({asts} : list ptree)) : srule)")


CTOR = {"DanglingDetectionIssue": "IUnused", "DanglingConditionIssue": "IDangling", "IdentifierExistenceIssue": "INoId",
        "IdentifierCollisionIssue": "IIdColl", "DuplicateTitleIssue": "ITitle", "DuplicateFilenameIssue": "IFile"}


def cissue(i):
    n, rs, f = i
    c = CTOR[n]
    if c in ("IUnused", "IDangling"):
        return f"{c} {rs[0]} {cstr(f)}"
    if c == "INoId":
        return f"INoId {rs[0]}"
    return f"{c} {clist(str(r) for r in rs)} {cstr(f)}"


def coll_to_coq(c, r):
    if "exc" in r:
        if r.get("sigma"):
            out = "(SigmaErr 4)" if r["exc"] == "SigmaConditionError" else "(SigmaErr 99)"
        else:
            out = "(Crash 1)"
    else:
        out = f"(Ok {clist(cissue(i) for i in r['issues'])})"
    E = clist(f"({copt(cstr(i)) if i else 'None'}, {clist(VK[v] for v in vs)})" for i, vs in c["excl"])
    vs = clist(VK[v] for v in c["vs"])
    rules = clist(crule(k, c["rules"][k]) for k in c["order"])
    have_ast = all(d["asts"] is not None for d in c["rules"])
    return f"(({E} : excl), ({vs} : list vkind), ({rules} : list srule), {cbool(have_ast)}, ({out} : outcome (list issue)))"


def py_oracle(c, r):
    if "exc" in r:
        return None
    bad = [k for k, v in r.get("pure", {}).items() if not v]
    return ("purity / order independence violated on the real objects: " + ", ".join(bad)) if bad else None


def stratum(c, r):
    if any(d["asts"] is None for d in c["rules"]):
        return "hostile-text"
    if "exc" in r:
        return "error"
    kinds = sorted({i[0] for i in r["issues"]})
    return "issues:" + ("+".join(k.replace("Issue", "") for k in kinds) if kinds else "none")


def mutate(c, rng):
    out = []
    for k, d in enumerate(c["rules"]):
        if d.get("corr"):
            continue
        for alt in (REFERABLE[:6] + ["_y", "sel_9"]):
            for j in range(len(d["dets"])):
                if alt not in d["dets"]:
                    nd = dict(d, dets=d["dets"][:j] + [alt] + d["dets"][j + 1:])
                    out.append(dict(c, rules=c["rules"][:k] + [nd] + c["rules"][k + 1:]))
        if d["asts"]:
            for e in (("sel", "1", "them"), ("sel", "all", "_*"), ("id", d["dets"][0] if set(d["dets"][0]) <= IDC and d["dets"][0] not in RESERVED and d["dets"][0] else "x")):
                nd = dict(d, conds=[spell(e, rng)], asts=[e])
                out.append(dict(c, rules=c["rules"][:k] + [nd] + c["rules"][k + 1:]))
        for f, vals in (("id", UUIDS[:2] + [None]), ("title", TITLES[:2]), ("path", PATHS[:3])):
            for v in vals:
                nd = dict(d, **{f: v})
                out.append(dict(c, rules=c["rules"][:k] + [nd] + c["rules"][k + 1:]))
    out.append(dict(c, vs=MODELLED[:], excl=[]))
    out.append(dict(c, excl=[]))
    return out


REQ = ["Base.Chars", "Base.Outcome", "Model.VCond", "Model.Validators", "Spec.ValidatorsSpec", "Run.C19run"]
PROPERTY = Property(
    pid="C19", props_file="Props/C19.v",
    suites=[
        Suite("refs", gen_refs, "run_coll", REQ, "judge_coll", coll_to_coq, mutate=mutate, py_oracle=py_oracle, stratum=stratum, shard=400),
        Suite("coll", gen_coll, "run_coll", REQ, "judge_coll", coll_to_coq, mutate=mutate, py_oracle=py_oracle, stratum=stratum, shard=250),
        Suite("tags", gen_tags, "run_tags", REQ + ["Model.TagValidators"], "judge_tags", tags_to_coq, mutate=tags_mutate,
              py_oracle=py_oracle, stratum=tags_stratum, shard=400),
        Suite("shared", gen_shared, "run_shared", REQ, "judge_shared", shared_to_coq, mutate=mutate, py_oracle=py_oracle, stratum=stratum, shard=250),
    ],
    rule="refs: one rule, condition texts spelled from all expression shapes up to 3 (quick) / 4 (thorough) leaves and random ones "
         "up to 6, 1-3 conditions, detection names from a 46-name hostile pool, 70 fixed + random hostile condition texts; "
         "coll: 1-8 rules with repeated ids/titles/file names/paths in any multiplicity, missing ids, correlation rules, all rule "
         "orders of fixed collections up to 5 rules, all 64 subsets and 24 orders of modelled validators, random exclusion tables; "
         "shared: 2-4 (thorough 5) rules cut from one template - detections are subsets of a common pool, the same conditions / "
         "selector patterns recur and match in some rules only, ids (incl. none) / titles / file names / paths shared - validated in "
         "EVERY order by one SigmaValidator, twice with the same validator objects, plus every rule alone with fresh objects; "
         "tags: one rule, tags from a 45-tag pool (tlp namespace in lower/upper/mixed case, odd-case other namespaces, malformed, "
         "newline-terminated), repetitions and case variants, six modelled tag validators: all 64 subsets, every order of subsets "
         "with a TLP validator and a case-sensitive second validator, tags after validation compared with the source; "
         "every refs/coll case additionally runs 29 built-in validators in two orders for purity / order independence. "
         "non-trivial = the implementation reported at least one modelled issue or raised; distinct by (suite, case hash)",
    assumptions=["condition text -> parse tree is modelled (copy of C02's grammar model) and validated by the correspondence only",
                 "the iteration order of the validator set is made explicit by replacing SigmaValidator.validators with a list of "
                 "the same instances; the natural set order is compared as a multiset",
                 "purity (to_dict / convert before vs after) is decided by the correspondence runs, not by a theorem",
                 "ATT&CK and D3FEND tag validators are excluded from the runs (they download data)"],
)
